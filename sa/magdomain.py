"""Forward magnitude domain: every abstract number may carry `mag = (lo, hi)`, bounds on log10 |value in the unit
it is stored in| for non-zero values (exact zeros are not tracked: they are neither overflow nor underflow).

It complements sa/magnitude.py (exact intervals of power-product *terms*): sums and differences are bounded by the
floating-point argument below, which needs the operation structure and not only the normal form.

  |a * b|      in [lo_a + lo_b, hi_a + hi_b]
  |a / b|      in [lo_a - hi_b, hi_a - lo_b]
  |a ** e|     e * [lo, hi] (swapped for e < 0)
  |a +- b|     at most 2 * max(|a|, |b|); when it is not exactly zero, at least eps/4 * 10**max(lo_a, lo_b):
               either one operand is at least twice the other (then |a +- b| >= the smaller one >= both lower bounds
               up to a factor 2), or both lie within a factor 2 of each other, are multiples of the unit in the last place
               of the smaller one, and differ by at least that unit (eps/2 of it).
"""

from __future__ import annotations

import math

from . import magnitude as M
from . import term as T

EPS = {'float32': 2.0 ** -23, 'float64': 2.0 ** -52}


def unit_scale_log10(unit) -> float | None:
    """log10 of the SI scale factor of a concrete unit (None for symbolic units)."""
    if unit is None:
        return None
    try:
        lo, hi = M.interval(unit.scale(), {})
    except (M.Unbounded, T.EvalError, KeyError, AttributeError):
        return None
    return lo if lo is not None and hi is not None and abs(lo - hi) < 1e-9 else None


def const_mag(value) -> tuple | None:
    try:
        x = abs(float(value))
    except (TypeError, ValueError):
        return None
    if x == 0 or math.isnan(x) or math.isinf(x):
        return None
    v = math.log10(x)
    return (v, v)


def arith(op: str, a, b, dtype: str | None, exponent=None):
    """mag of a op b from the operand mags (None = unknown)."""
    if op == 'pow':
        if a is None or exponent is None:
            return None
        e = float(exponent)
        xs = (a[0] * e, a[1] * e)
        return (min(xs), max(xs))
    if a is None or b is None:
        return None
    if op in ('mul', 'matmul'):
        return (a[0] + b[0], a[1] + b[1])
    if op == 'div':
        return (a[0] - b[1], a[1] - b[0])
    if op in ('add', 'sub'):
        eps = EPS.get(dtype or 'float64', EPS['float64'])
        return (max(a[0], b[0]) + math.log10(eps / 4), max(a[1], b[1]) + math.log10(2))
    return None


def union(a, b):
    if a is None:
        return b
    if b is None:
        return a
    return (min(a[0], b[0]), max(a[1], b[1]))


def shift(a, by: float | None):
    return None if a is None or by is None else (a[0] + by, a[1] + by)


def scale(a, factor: float):
    if a is None:
        return None
    xs = (a[0] * factor, a[1] * factor)
    return (min(xs), max(xs))
