"""Evidence, exit protocol, known findings."""

from __future__ import annotations

import json
import os
import sys
import time

VERIF = os.path.dirname(os.path.dirname(os.path.abspath(__file__)))
KNOWN = os.path.join(VERIF, 'known_findings.json')


class Rule:
    def __init__(self, run: Run, rid: str, desc: str, min_instances: int):
        self.run = run
        self.id = rid
        self.desc = desc
        self.min_instances = min_instances
        self.instances: list[dict] = []
        self.failed: list[dict] = []
        self.nontrivial: set[str] = set()

    def ok(self, instance: str, detail=None, nontrivial: bool = True) -> None:
        rec = {'instance': instance, 'verdict': 'holds'}
        if detail is not None:
            rec['detail'] = detail
        self.instances.append(rec)
        if nontrivial:
            self.nontrivial.add(instance)

    def fail(self, instance: str, construct: str, detail, key: str | None = None):
        """Record a violation. `key` identifies the finding (no line numbers)."""
        rec = {
            'instance': instance,
            'verdict': 'VIOLATED',
            'construct': construct,
            'detail': detail,
            'key': key or instance,
        }
        self.instances.append(rec)
        self.failed.append(rec)
        self.nontrivial.add(instance)

    def check(self, cond: bool, instance: str, construct: str, detail=None, key=None):
        if cond:
            self.ok(instance, detail)
        else:
            self.fail(instance, construct, detail, key)
        return cond


class Run:
    def __init__(self, prop: str, tier: str, level: str, explanation: str):
        self.prop = prop
        self.tier = tier
        self.level = level
        self.explanation = explanation
        self.rules: list[Rule] = []
        self.t0 = time.time()
        self.errors: list[str] = []
        self.analysed: dict = {}
        self.assumptions: list[str] = []
        self.trusted: list[str] = []
        self.extra: dict = {}
        self.exhaustive = False
        try:
            self.seed = int(os.environ.get('VERIF_SEED', '0'))
        except ValueError:
            self.seed = 0

    def rule(self, rid: str, desc: str, min_instances: int = 1) -> Rule:
        r = Rule(self, rid, desc, min_instances)
        self.rules.append(r)
        return r

    def error(self, msg: str) -> None:
        self.errors.append(msg)

    # ------------------------------------------------------------------
    def _known(self) -> dict:
        try:
            with open(KNOWN, encoding='utf-8') as f:
                return json.load(f)
        except FileNotFoundError:
            return {'findings': [], 'fixed': []}

    def finish(self) -> int:
        known = self._known()
        listed = [k for k in known.get('findings', []) if k.get('property') == self.prop]
        n_viol = 0
        lines = []
        known_hit = []
        for r in self.rules:
            if len(r.instances) < r.min_instances:
                self.errors.append(
                    f'rule {self.prop}.{r.id} matched {len(r.instances)} instances, '
                    f'frozen minimum is {r.min_instances} ({r.desc})'
                )
            for f in r.failed:
                match = None
                for k in listed:
                    if k.get('rule') == r.id and k.get('key') == f['key']:
                        match = k
                        break
                if match is not None:
                    known_hit.append((r, f, match))
                    f['verdict'] = 'KNOWN-FINDING'
                else:
                    n_viol += 1
        out_dir = os.path.join(os.environ.get('VERIF_OUT', VERIF), 'out')
        os.makedirs(out_dir, exist_ok=True)
        for r, f, k in known_hit:
            lines.append(
                f'KNOWN-FINDING: property={self.prop} rule={r.id} {f["construct"]} '
                f'{k.get("what", "")}'
            )
        idx = 0
        for r in self.rules:
            for f in r.failed:
                if f['verdict'] != 'VIOLATED':
                    continue
                idx += 1
                path = os.path.join(out_dir, f'{self.prop}_{r.id}_{idx}.json')
                with open(path, 'w', encoding='utf-8') as fh:
                    json.dump(
                        {
                            'property': self.prop,
                            'rule': r.id,
                            'rule_text': r.desc,
                            **f,
                        },
                        fh,
                        indent=1,
                        default=str,
                    )
                print(
                    f'FINDING {self.prop}.{r.id} at {f["construct"]}: '
                    f'{_short(f["detail"])}'
                )
                lines.append(f'VIOLATION property={self.prop} replay={path}')
        self._write_evidence(n_viol)
        for r in self.rules:
            print(
                f'rule {self.prop}.{r.id}: {len(r.instances)} instances '
                f'(min {r.min_instances}), {len(r.failed)} failed — {r.desc}'
            )
        if self.errors:
            for e in self.errors:
                print(f'ANALYSIS-ERROR property={self.prop} {e}')
            if not n_viol:
                for ln in lines:
                    if ln.startswith('KNOWN-FINDING'):
                        print(ln)
                return 2
            # a rule that lost its instances *and* concrete violations elsewhere: the
            # violations name constructs and are reported; the shortfall is printed above
        for ln in lines:
            print(ln)
        if n_viol:
            return 1
        print(f'OK property={self.prop} tier={self.tier}')
        return 0

    def _write_evidence(self, n_viol: int) -> None:
        instances = [i for r in self.rules for i in r.instances]
        evaluations = len(instances)
        nontrivial = sum(len(r.nontrivial) for r in self.rules)
        samples = []
        for r in self.rules:
            for i in r.instances[:3]:
                samples.append({'rule': f'{self.prop}.{r.id}', **i})
        coverage = {
            'explanation': self.explanation,
            'evaluations': evaluations,
            'distinct_nontrivial': nontrivial,
            'rule': (
                'one evaluation = one rule instance (a construct of /repo/src the rule '
                'was applied to); distinct = distinct instance names; non-trivial = the '
                'verdict was computed from abstract values / graph facts of that '
                'construct, not from a constant match'
            ),
            'samples': samples or [{'note': 'no instances'}],
            'rules': [
                {
                    'id': f'{self.prop}.{r.id}',
                    'text': r.desc,
                    'instances': len(r.instances),
                    'min_instances': r.min_instances,
                    'failed': len(r.failed),
                }
                for r in self.rules
            ],
            'analysed': self.analysed,
            'instances': instances,
            'trusted_base': self.trusted,
            'exhaustive': bool(self.exhaustive),
            'analysis_errors': self.errors,
        }
        if self.level == 'proof':
            coverage['obligations'] = evaluations
            coverage['discharged'] = evaluations - sum(len(r.failed) for r in self.rules)
            coverage['checker_cmd'] = f'./check {self.prop} --tier {self.tier}'
        coverage.update(self.extra)
        ev = {
            'property_id': self.prop,
            'tier': self.tier,
            'seed': self.seed,
            'level': self.level,
            'coverage': coverage,
            'assumptions': self.assumptions,
            'wall_s': round(time.time() - self.t0, 3),
            'violations': n_viol,
        }
        ev_dir = os.path.join(os.environ.get('VERIF_OUT', VERIF), 'evidence')
        os.makedirs(ev_dir, exist_ok=True)
        with open(os.path.join(ev_dir, f'{self.prop}.json'), 'w', encoding='utf-8') as f:
            json.dump(ev, f, indent=1, default=str)


def _short(x, n: int = 300) -> str:
    s = x if isinstance(x, str) else json.dumps(x, default=str)
    return s if len(s) <= n else s[: n - 3] + '...'


def main_wrapper(fn) -> None:
    """Map tracebacks to exit 2 (ANALYSIS-ERROR), never to 1."""
    from .load import AnalysisError

    try:
        code = fn()
    except AnalysisError as e:
        print(f'ANALYSIS-ERROR {e}')
        code = 2
    except SystemExit:
        raise
    except BaseException as e:  # noqa: BLE001
        import traceback

        traceback.print_exc()
        print(f'ANALYSIS-ERROR internal error: {type(e).__name__}: {e}')
        code = 2
    sys.stdout.flush()
    sys.exit(code)
