"""./check <property> [--tier quick|thorough] [--replay file]"""

from __future__ import annotations

import argparse
import importlib
import json
import os
import sys

from .report import main_wrapper


def main() -> int:
    ap = argparse.ArgumentParser()
    ap.add_argument('prop')
    ap.add_argument('--tier', default=os.environ.get('VERIF_TIER', 'quick'), choices=['quick', 'thorough'])
    ap.add_argument('--replay')
    ap.add_argument('--repo')
    args = ap.parse_args()
    if args.repo:
        os.environ['VERIF_REPO'] = args.repo
        from . import load
        load.REPO = args.repo
    if args.replay:
        with open(args.replay, encoding='utf-8') as f:
            rec = json.load(f)
        print(json.dumps(rec, indent=1))
        print('replaying: re-running the check that produced this record')
    prop = args.prop.upper()
    mod = importlib.import_module(f'checks.{prop.lower()}')
    run = mod.run(args.tier)
    return run.finish()


if __name__ == '__main__':
    sys.path.insert(0, os.path.dirname(os.path.dirname(os.path.abspath(__file__))))
    main_wrapper(main)
