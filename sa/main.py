"""./check <property> [--tier quick|thorough] [--replay file]"""

from __future__ import annotations

import argparse
import importlib
import json
import os
import sys

from .report import main_wrapper


def main() -> int:
    ap = argparse.ArgumentParser()
    ap.add_argument('prop')
    ap.add_argument('--tier', default=os.environ.get('VERIF_TIER', 'quick'), choices=['quick', 'thorough'])
    ap.add_argument('--replay')
    ap.add_argument('--repo')
    args = ap.parse_args()
    if args.repo:
        os.environ['VERIF_REPO'] = args.repo
        from . import load
        load.REPO = args.repo
    if args.replay:
        with open(args.replay, encoding='utf-8') as f:
            rec = json.load(f)
        print(json.dumps(rec, indent=1))
        print('replaying: re-running the check that produced this record')
    prop = args.prop.upper()
    mod = importlib.import_module(f'checks.{prop.lower()}')
    run = mod.run(args.tier)
    if args.tier == 'thorough' and os.environ.get('VERIF_NO_SELFTEST') != '1' and not os.environ.get('VERIF_REPO'):
        # checker validation, both ways (DESIGN 2.4): mutants must be reported, twins must stay silent
        sys.path.insert(0, os.path.join(os.path.dirname(os.path.dirname(os.path.abspath(__file__))), 'selftest'))
        import run as selftest  # type: ignore[import-not-found]
        res = selftest.run_corpus([prop])
        run.extra['checker_validation'] = {k: v for k, v in res.items() if k != 'lines'}
        for ln in res['lines']:
            print(ln)
        if res['bad']:
            run.error(f"checker self-test: {res['bad']} corpus entries did not behave as frozen (see SELFTEST lines)")
        # the interpreter's model of Python itself (selftest/semantics.py): every fixture function gives the result Python gives
        import contextlib
        import io
        import semantics  # type: ignore[import-not-found]
        buf = io.StringIO()
        with contextlib.redirect_stdout(buf):
            sem_bad = semantics.main()
        lines = buf.getvalue().splitlines()
        run.extra['python_semantics_fixture'] = {'functions': sum(1 for ln in lines if ln.startswith('SEMANTICS ') and (ln.endswith(': ok') or 'DIFFERENT' in ln)),
                                                  'different': [ln for ln in lines if 'DIFFERENT' in ln][:5]}
        for ln in lines:
            if 'DIFFERENT' in ln or 'total' in ln:
                print(ln)
        if sem_bad:
            run.error('interpreter self-test: the abstract interpreter disagrees with Python on its own fixture (see SEMANTICS lines)')
    return run.finish()


if __name__ == '__main__':
    sys.path.insert(0, os.path.dirname(os.path.dirname(os.path.abspath(__file__))))
    main_wrapper(main)
