"""Statement-level control-flow graph with dominators (networkx).

Nodes are statement ids; compound statements contribute a *test* node (the `if`,
`for`, `while`, `match`, `with`, `try` header).  Edges out of an `if` test are
labelled True/False.  ENTRY and EXIT are virtual; a `raise` goes to RAISE (or to
an enclosing handler), `return` to EXIT.
"""

from __future__ import annotations

import ast

import networkx as nx

ENTRY, EXIT, RAISE = 'ENTRY', 'EXIT', 'RAISE'


class CFG:
    def __init__(self, fn: ast.FunctionDef):
        self.fn = fn
        self.g = nx.DiGraph()
        self.stmt: dict[int, ast.stmt] = {}
        self.g.add_nodes_from([ENTRY, EXIT, RAISE])
        self._loops: list[tuple] = []  # (continue target, break targets collector)
        self._handlers: list[list] = []
        exits = self._body(fn.body, [(ENTRY, None)])
        for src, lab in exits:
            self._edge(src, EXIT, lab)
        self._idom = None
        self._ipdom = None

    # ------------------------------------------------------------------
    def _edge(self, a, b, label=None):
        if self.g.has_edge(a, b):
            old = self.g[a][b].get('labels', set())
            self.g[a][b]['labels'] = old | {label}
        else:
            self.g.add_edge(a, b, labels={label})

    def _node(self, st) -> int:
        i = id(st)
        self.stmt[i] = st
        self.g.add_node(i)
        return i

    def _body(self, body, preds):
        """preds: list of (node, edge label). Returns the dangling exits."""
        for st in body:
            preds = self._stmt(st, preds)
        return preds

    def _connect(self, preds, n):
        for src, lab in preds:
            self._edge(src, n, lab)

    def _raise_target(self):
        return self._handlers[-1] if self._handlers else None

    def _may_raise(self, n):
        """Any statement inside a try body may jump to the handlers."""
        if self._handlers:
            self._handlers[-1].append((n, 'exc'))

    def _stmt(self, st, preds):
        n = self._node(st)
        self._connect(preds, n)
        if isinstance(st, ast.If):
            t = self._body(st.body, [(n, True)])
            f = self._body(st.orelse, [(n, False)]) if st.orelse else [(n, False)]
            self._may_raise(n)
            return t + f
        if isinstance(st, ast.For | ast.AsyncFor | ast.While):
            breaks: list = []
            self._loops.append((n, breaks))
            body_exits = self._body(st.body, [(n, True)])
            self._loops.pop()
            self._connect(body_exits, n)
            out = self._body(st.orelse, [(n, False)]) if st.orelse else [(n, False)]
            self._may_raise(n)
            return out + breaks
        if isinstance(st, ast.Try):
            collector: list = []
            self._handlers.append(collector)
            body_exits = self._body(st.body, [(n, None)])
            self._handlers.pop()
            else_exits = self._body(st.orelse, body_exits) if st.orelse else body_exits
            outs = list(else_exits)
            for h in st.handlers:
                hn = self._node(h)
                self._connect(collector or [(n, 'exc')], hn)
                outs += self._body(h.body, [(hn, None)])
            if not st.handlers:
                # try/finally: exceptions propagate after the finally block
                pass
            if st.finalbody:
                outs = self._body(st.finalbody, outs)
            return outs
        if isinstance(st, ast.With | ast.AsyncWith):
            self._may_raise(n)
            return self._body(st.body, [(n, None)])
        if isinstance(st, ast.Match):
            outs = []
            for case in st.cases:
                cn = self._node(case)
                self._edge(n, cn, 'case')
                outs += self._body(case.body, [(cn, None)])
            irrefutable = any(isinstance(c.pattern, ast.MatchAs) and c.pattern.pattern is None and c.guard is None
                              for c in st.cases)
            if not irrefutable:
                outs.append((n, 'nomatch'))
            return outs
        if isinstance(st, ast.Return):
            self._may_raise(n)
            self._edge(n, EXIT)
            return []
        if isinstance(st, ast.Raise):
            tgt = self._raise_target()
            if tgt is not None:
                tgt.append((n, 'raise'))
            else:
                self._edge(n, RAISE)
            return []
        if isinstance(st, ast.Break):
            if self._loops:
                self._loops[-1][1].append((n, None))
            return []
        if isinstance(st, ast.Continue):
            if self._loops:
                self._edge(n, self._loops[-1][0])
            return []
        self._may_raise(n)
        return [(n, None)]

    # ------------------------------------------------------------------
    @property
    def idom(self):
        if self._idom is None:
            self._idom = nx.immediate_dominators(self.g, ENTRY)
        return self._idom

    def dominates(self, a, b) -> bool:
        """a dominates b (every path ENTRY -> b passes through a)."""
        a = id(a) if isinstance(a, ast.AST) else a
        b = id(b) if isinstance(b, ast.AST) else b
        if b not in self.idom:
            return False  # unreachable
        x = b
        while True:
            if x == a:
                return True
            p = self.idom.get(x)
            if p is None or p == x:
                return False
            x = p

    def reachable(self, a, b, without=()) -> bool:
        a = id(a) if isinstance(a, ast.AST) else a
        b = id(b) if isinstance(b, ast.AST) else b
        g = self.g
        if without:
            g = g.copy()
            g.remove_nodes_from([id(w) if isinstance(w, ast.AST) else w for w in without])
        return a in g and b in g and nx.has_path(g, a, b)

    def reachable_via(self, test: ast.If, label: bool, b, without=()) -> bool:
        """Is b reachable when leaving `test` through the edge labelled `label`?
        `without`: nodes to cut (e.g. a loop header, to stay within one iteration)."""
        b = id(b) if isinstance(b, ast.AST) else b
        g = self.g
        if without:
            g = g.copy()
            g.remove_nodes_from([id(w) if isinstance(w, ast.AST) else w for w in without])
        for succ in self.g.successors(id(test)):
            if label in self.g[id(test)][succ].get('labels', ()):
                if succ == b or (succ in g and b in g and nx.has_path(g, succ, b)):
                    return True
        return False

    def always_raises(self, body) -> bool:
        """Every path through `body` ends in a raise (or a call that is a NoReturn-style raise)."""
        if not body:
            return False
        last = body[-1]
        if isinstance(last, ast.Raise):
            return True
        if isinstance(last, ast.If):
            return self.always_raises(last.body) and bool(last.orelse) and self.always_raises(last.orelse)
        return False

    def guards(self):
        """`if` statements one of whose arms always raises: (if node, raising label, exception name)."""
        out = []
        for st in self.stmt.values():
            if isinstance(st, ast.If):
                for label, body in ((True, st.body), (False, st.orelse)):
                    if self.always_raises(body):
                        exc = _exc_name(body)
                        out.append((st, label, exc))
        return out

    def guarded_by(self, target, guard_if: ast.If, raising_label: bool) -> bool:
        """Every path to target passes the guard's test and leaves it on the non-raising side."""
        return self.dominates(guard_if, target) and not self.reachable_via(guard_if, raising_label, target)

    def calls(self, pred):
        """(stmt, call) pairs for calls satisfying pred, in source order."""
        out = []
        for st in self.stmt.values():
            if isinstance(st, ast.stmt):
                for n in _own_nodes(st):
                    if isinstance(n, ast.Call) and pred(n):
                        out.append((st, n))
        out.sort(key=lambda p: (p[1].lineno, p[1].col_offset))
        return out


def _own_nodes(st):
    """AST nodes belonging to the statement header itself (not to nested statements)."""
    if isinstance(st, ast.If | ast.While):
        roots = [st.test]
    elif isinstance(st, ast.For | ast.AsyncFor):
        roots = [st.target, st.iter]
    elif isinstance(st, ast.With | ast.AsyncWith):
        roots = [i.context_expr for i in st.items]
    elif isinstance(st, ast.Try | ast.ExceptHandler | ast.match_case):
        roots = []
    elif isinstance(st, ast.Match):
        roots = [st.subject]
    elif isinstance(st, ast.FunctionDef | ast.AsyncFunctionDef | ast.ClassDef):
        roots = []
    else:
        roots = [st]
    for r in roots:
        yield from ast.walk(r)


def _exc_name(body) -> str:
    last = body[-1]
    if isinstance(last, ast.Raise) and last.exc is not None:
        e = last.exc.func if isinstance(last.exc, ast.Call) else last.exc
        return ast.unparse(e).split('.')[-1]
    if isinstance(last, ast.If):
        return _exc_name(last.body)
    return '?'
