"""Drive the abstract interpreter over one kernel with symbolic parameters."""

from __future__ import annotations

import itertools
from dataclasses import dataclass

from . import term as T
from .interp import Interp, Outcome, SVar
from .load import AnalysisError, FuncInfo, Repo
from .scipp_model import Model
from .term import Mat, Rat, Vec
from .units import Unit


@dataclass
class P:
    """Specification of one symbolic parameter."""

    kind: str = 'scalar'  # scalar | vector | matrix
    dim: str = 'ONE'  # physical dimension of its unit (role)
    dtype: str = 'float64'
    positive: bool = True
    taint: bool = False  # possibly binned (event coordinate)
    unit: Unit | None = None  # fixed unit instead of the opaque u(p)
    data: bool = False  # is a "data operand" for the dtype contract


# roles of the coordinate names used across the conversion kernels
ROLE = {
    'tof': P(dim='T', taint=True, data=True),
    'Ltotal': P(dim='L'),
    'L1': P(dim='L'),
    'L2': P(dim='L'),
    'two_theta': P(dim='ANGLE'),
    'wavelength': P(dim='L', taint=True, data=True),
    'energy': P(dim='ENERGY', taint=True, data=True),
    'incident_energy': P(dim='ENERGY', data=True),
    'final_energy': P(dim='ENERGY', data=True),
    'Q': P(dim='INVL', taint=True, data=True),
    'dspacing': P(dim='L', taint=True, data=True),
    'incident_beam': P(kind='vector', dim='L', dtype='vector3'),
    'scattered_beam': P(kind='vector', dim='L', dtype='vector3'),
    'position': P(kind='vector', dim='L', dtype='vector3'),
    'source_position': P(kind='vector', dim='L', dtype='vector3'),
    'sample_position': P(kind='vector', dim='L', dtype='vector3'),
    'gravity': P(kind='vector', dim='ACCEL', dtype='vector3'),
    'Qx': P(dim='INVL', positive=False, taint=True),
    'Qy': P(dim='INVL', positive=False, taint=True),
    'Qz': P(dim='INVL', positive=False, taint=True),
    'Q_vec': P(kind='vector', dim='INVL', dtype='vector3', taint=True),
    'hkl_vec': P(kind='vector', dim='ONE', dtype='vector3', taint=True),
    'ub_matrix': P(kind='matrix', dim='INVL', dtype='linear_transform3'),
    'u_matrix': P(kind='matrix', dim='ONE', dtype='linear_transform3'),
    'b_matrix': P(kind='matrix', dim='INVL', dtype='linear_transform3'),
    'sample_rotation': P(kind='matrix', dim='ONE', dtype='linear_transform3'),
    'pulse_time': P(dim='T', positive=False, taint=True),
}


def make_param(interp: Interp, name: str, spec: P, dtype: str | None = None, suffix: str = '') -> SVar:
    if spec.kind == 'scalar':
        term = Rat.sym(name + suffix, positive=spec.positive)
    elif spec.kind == 'vector':
        term = Vec.sym(name + suffix)
    else:
        term = Mat.sym(name + suffix)
    unit = spec.unit if spec.unit is not None else Unit.param(name)
    v = SVar(term, unit, dtype or spec.dtype, origin=name, taint=spec.taint)
    interp.param_dims[name] = spec.dim
    return interp.track(v)


def run_kernel(repo: Repo, fi: FuncInfo, specs: dict[str, P], dtypes: dict[str, str] | None = None,
               binned: bool = False, extra_args: dict | None = None, bound=None,
               keep_table: bool = False) -> list[Outcome]:
    """Interpret fi with symbolic parameters; one Outcome per path."""
    if not keep_table:
        T.reset()
        SVar._next = 0
    model = Model()
    model.binned_mode = binned
    interp = Interp(repo, model)

    def go(it: Interp):
        it.objects.clear()
        it.param_dims.clear()
        kwargs = {}
        for name, spec in specs.items():
            kwargs[name] = make_param(it, name, spec, (dtypes or {}).get(name))
        kwargs.update(extra_args or {})
        return it.call_function(fi, [], kwargs, bound=bound(it) if callable(bound) else bound)

    outs = interp.run_all(go)
    for o in outs:
        o.interp = interp  # type: ignore[attr-defined]
    return outs


EARLIER_CALL_RAISED = object()


def run_history(repo: Repo, calls, binned: bool = False, keep_table: bool = False) -> list[Outcome]:
    """Interpret a history: the calls (fi, specs, dtypes, suffix) one after the other in ONE world (module-level tables, memo
    stores and rebinding of globals made by an earlier call are there for the later ones).  One Outcome per path, for the LAST
    call; paths on which an earlier call raises return EARLIER_CALL_RAISED.  The symbols of each call carry its suffix, so that a
    value kept from an earlier call is visible in a later result."""
    from .interp import RaiseSignal
    if not keep_table:
        T.reset()
        SVar._next = 0
    model = Model()
    model.binned_mode = binned
    interp = Interp(repo, model)

    def go(it: Interp):
        it.objects.clear()
        it.param_dims.clear()
        last = None
        kwargs: dict = {}
        for k, call_ in enumerate(calls):
            fi, specs, dtypes, suffix = call_[:4]
            if len(call_) > 4 and call_[4] == 'same objects, updated in place' and kwargs:
                # the caller keeps its variables and overwrites their contents between the calls (a bank is moved, a coordinate is
                # recalibrated): the same objects arrive with new values
                for name, spec in specs.items():
                    fresh = make_param(it, name, spec, (dtypes or {}).get(name), suffix=suffix)
                    v = kwargs[name]
                    v.term, v.hist, v.mag = fresh.term, fresh.hist, fresh.mag
            else:
                kwargs = {name: make_param(it, name, spec, (dtypes or {}).get(name), suffix=suffix) for name, spec in specs.items()}
            try:
                last = it.call_function(fi, [], dict(kwargs))
            except RaiseSignal:
                if k < len(calls) - 1:
                    return EARLIER_CALL_RAISED
                raise
            it.end_of_call()
        return last

    outs = interp.run_all(go)
    for o in outs:
        o.interp = interp  # type: ignore[attr-defined]
    return outs


def specs_for(fi: FuncInfo, overrides: dict[str, P] | None = None) -> dict[str, P]:
    a = fi.node.args
    names = [p.arg for p in a.posonlyargs + a.args + a.kwonlyargs if p.arg not in ('self', 'cls')]
    out = {}
    for n in names:
        if overrides and n in overrides:
            out[n] = overrides[n]
        elif n in ROLE:
            out[n] = ROLE[n]
        else:
            raise AnalysisError(f'no role known for parameter {n} of {fi.fq}')
    return out


def dtype_grid(specs: dict[str, P], choices=('float64', 'float32')):
    names = [n for n, s in specs.items() if s.kind == 'scalar' and s.dtype != 'datetime64']
    for combo in itertools.product(choices, repeat=len(names)):
        yield dict(zip(names, combo, strict=True))
