"""Model and interpreter extensions for the SQW writer/reader analysis.

SqwModel adds to the scipp model (a) concrete shapes on symbolic variables, (b)
numpy arrays as absio.NdArr, (c) files as absio.AbsFile, (d) the handful of
standard-library calls the SQW code makes on constants (struct, datetime,
dataclasses.replace, pathlib).  SqwInterp runs module-level registry decorators
(`@_READERS.add(tag)`) when the registry global is first touched.
"""

from __future__ import annotations

import datetime as _dt
import math
import os
import pathlib
import sys

from . import absio
from .absio import AbsBuffer, AbsBytes, AbsDtype, AbsFile, Cast, Elem, Expr, LayoutMismatch, NdArr, to_dtype, to_ndarr
from .interp import (
    AnalysisError,
    BoundModel,
    ClassRef,
    EnumMember,
    ExtRef,
    FuncRef,
    Interp,
    Opaque,
    RaiseSignal,
    SObj,
    SVar,
)
from .scipp_model import Model, _TypeUnion
from .term import Rat
from .units import NO_UNIT

NOW = _dt.datetime(2024, 5, 6, 7, 8, 9, tzinfo=_dt.timezone.utc)


def shape_of(v):
    return v.members.get('shape') if isinstance(v, SVar) else None


def set_shape(v: SVar, shape, dims=None):
    v.members['shape'] = tuple(shape)
    if dims is not None:
        v.members['dims'] = list(dims)
    elif 'dims' not in v.members or len(v.members['dims']) != len(shape):
        v.members['dims'] = [f'dim_{i}' for i in range(len(shape))]
    return v


def compose_order(inner, outer):
    """Element positions after applying `outer` to an array that already carries the order `inner` (None = natural order)."""
    if inner is None:
        return list(outer)
    return [inner[k] for k in outer]


def bshape(a, b):
    """numpy/scipp broadcasting of two known shapes (right aligned is enough here)."""
    if a is None or b is None:
        return a if b is None else b
    if len(a) < len(b):
        a, b = b, a
    return tuple(a)


class SqwModel(Model):
    def __init__(self):
        super().__init__()
        self.fs: dict[str, AbsFile] = {}
        self.warnings: list = []

    # ---- externals ---------------------------------------------------------------------
    def ext_attr(self, interp, path, node):
        if path == 'datetime.timezone.utc':
            return _dt.timezone.utc
        if path == 'sys.byteorder':
            return sys.byteorder
        if path.startswith('numpy.') and path.split('.')[-1] in ('uint64', 'uint32', 'uint8', 'int8', 'bool_', 'int64', 'int32', 'float64', 'float32'):
            return absio.ALIASES.get(path.split('.')[-1], path.split('.')[-1])
        return super().ext_attr(interp, path, node)

    def call_ext(self, interp, path, args, kwargs, node):
        fn = getattr(self, 'x_' + path.replace('.', '_'), None)
        if fn is not None:
            r = fn(interp, args, kwargs, node)
            if r is not NotImplemented:
                return r
        return super().call_ext(interp, path, args, kwargs, node)

    def x_io_BytesIO(self, interp, args, kwargs, node):
        f = AbsFile(is_bytesio=True)
        if args:
            f.write(args[0])
            f.seek(0)
        return f

    def x_builtins_open(self, interp, args, kwargs, node):
        path = os.fspath(args[0]) if isinstance(args[0], str | pathlib.PurePath) else None
        mode = args[1] if len(args) > 1 else kwargs.get('mode', 'r')
        if path is None or not isinstance(mode, str):
            return NotImplemented
        if 'w' in mode:
            self.fs[path] = AbsFile(is_bytesio=False, name=path)
        if path not in self.fs:
            raise RaiseSignal('FileNotFoundError', node, interp.where(node), (path,))
        f = self.fs[path]
        f.seek(0)
        return f

    def x_contextlib_nullcontext(self, interp, args, kwargs, node):
        return args[0] if args else None

    def x_pathlib_Path(self, interp, args, kwargs, node):
        if all(isinstance(a, str | pathlib.PurePath) for a in args):
            return pathlib.PurePosixPath(*args)
        return NotImplemented

    def x_os_fspath(self, interp, args, kwargs, node):
        if isinstance(args[0], str | pathlib.PurePath):
            return os.fspath(args[0])
        return NotImplemented

    def x_warnings_warn(self, interp, args, kwargs, node):
        self.warnings.append((interp.where(node), args[0] if args else None))
        return None

    def x_struct_pack(self, interp, args, kwargs, node):
        fmt, vals = args[0], args[1:]
        if not isinstance(fmt, str) or len(vals) != 1 or fmt[-1:] not in ('d', 'f') or len(fmt) not in (1, 2):
            raise AnalysisError(f'struct.pack format {fmt!r} outside the modelled subset at {interp.where(node)}')
        dt = AbsDtype('float64' if fmt[-1] == 'd' else 'float32', absio._order(fmt[0] if len(fmt) == 2 and fmt[0] != '@' else '='))
        v = vals[0]
        if isinstance(v, Opaque):
            raise LayoutMismatch(f'value written at {interp.where(node)} is unknown to the analysis: {v!r}')
        return absio.mk(absio.pack_value(dt, v))

    def x_struct_unpack(self, interp, args, kwargs, node):
        fmt, buf = args[0], args[1]
        if not isinstance(fmt, str) or fmt[-1:] not in ('d', 'f') or len(fmt) not in (1, 2):
            raise AnalysisError(f'struct.unpack format {fmt!r} outside the modelled subset at {interp.where(node)}')
        dt = AbsDtype('float64' if fmt[-1] == 'd' else 'float32', absio._order(fmt[0] if len(fmt) == 2 and fmt[0] != '@' else '='))
        return (absio.unpack_value(dt, absio.units_of(buf), f'struct.unpack at {interp.where(node)}'),)

    def x_struct_Struct(self, interp, args, kwargs, node):
        model = self

        class _Struct:
            """struct.Struct(fmt): the compiled form of the same pack / unpack"""
            format = args[0]

            def pack(self, *vals):
                return model.x_struct_pack(interp, [args[0], *vals], {}, interp.cur_node)

            def unpack(self, buf):
                return model.x_struct_unpack(interp, [args[0], buf], {}, interp.cur_node)
        return _Struct()

    def x_builtins_int_from_bytes(self, interp, args, kwargs, node):
        buf, order = args[0], (args[1] if len(args) > 1 else kwargs.get('byteorder', 'big'))
        if isinstance(buf, AbsBytes):
            raise LayoutMismatch(f'integer read at {interp.where(node)} lands on floating-point data: {buf!r}')
        if isinstance(buf, bytes) and isinstance(order, str):
            return int.from_bytes(buf, order, signed=bool(kwargs.get('signed', False)))
        return NotImplemented

    def x_datetime_datetime(self, interp, args, kwargs, node):
        return _dt.datetime(*args, **kwargs)

    def x_datetime_datetime_now(self, interp, args, kwargs, node):
        return NOW

    def x_dateutil_parser_parse(self, interp, args, kwargs, node):
        if isinstance(args[0], str):
            try:
                return _dt.datetime.fromisoformat(args[0])
            except ValueError as ex:
                raise RaiseSignal('ParserError', node, interp.where(node), (str(ex),)) from None
        return NotImplemented

    def x_dataclasses_replace(self, interp, args, kwargs, node):
        obj = args[0]
        if not isinstance(obj, SObj):
            return NotImplemented
        fields = {n for n, _ in obj.cls.dataclass_fields()}
        for k in kwargs:
            if fields and k not in fields:
                raise RaiseSignal('TypeError', node, interp.where(node), (f'unexpected field {k}',))
        return SObj(obj.cls, {**obj.attrs, **kwargs})

    # ---- numpy ---------------------------------------------------------------------------
    def x_numpy_dtype(self, interp, args, kwargs, node):
        return to_dtype(args[0])

    def _filled(self, args, kwargs, value):
        shape = args[0] if args else kwargs.get('shape')
        if isinstance(shape, int):
            shape = (shape,)
        if not isinstance(shape, tuple | list) or not all(isinstance(s, int) for s in shape):
            raise LayoutMismatch(f'array shape {shape!r} is not concrete')
        return NdArr.full(tuple(shape), kwargs.get('dtype', args[1] if len(args) > 1 else 'float64'), value)

    def x_numpy_zeros(self, interp, args, kwargs, node):
        return self._filled(args, kwargs, 0)

    def x_numpy_ones(self, interp, args, kwargs, node):
        return self._filled(args, kwargs, 1)

    def x_numpy_empty(self, interp, args, kwargs, node):
        return self._filled(args, kwargs, absio.UNINIT)

    def x_numpy_array(self, interp, args, kwargs, node):
        dt = kwargs.get('dtype')
        return to_ndarr(args[0], to_dtype(dt) if dt is not None else None)

    x_numpy_asarray = x_numpy_array

    def x_numpy_stack(self, interp, args, kwargs, node):
        if kwargs.get('axis', 0) != 0:
            raise AnalysisError(f'numpy.stack with axis at {interp.where(node)}')
        return to_ndarr(list(interp.iterate(args[0], node)))

    def x_numpy_vstack(self, interp, args, kwargs, node):
        rows = [to_ndarr(r) for r in interp.iterate(args[0], node)]
        rows = [r if r.ndim >= 2 else r.reshape((1, r.size)) for r in rows]
        if any(r.shape[1:] != rows[0].shape[1:] for r in rows):
            raise RaiseSignal('ValueError', node, interp.where(node), ('vstack: mismatching shapes',))
        elems = [e for r in rows for e in r.elems]
        return NdArr((sum(r.shape[0] for r in rows), *rows[0].shape[1:]), absio._common_dtype(rows), elems)

    def x_numpy_atleast_2d(self, interp, args, kwargs, node):
        a = to_ndarr(args[0]) if not isinstance(args[0], NdArr) else args[0]
        if a.ndim >= 2:
            return a
        return a.reshape((1, a.size))

    def x_numpy_atleast_1d(self, interp, args, kwargs, node):
        a = to_ndarr(args[0]) if not isinstance(args[0], NdArr) else args[0]
        return a if a.ndim >= 1 else a.reshape((1,))

    def x_numpy_ndim(self, interp, args, kwargs, node):
        x = args[0]
        if isinstance(x, NdArr):
            return x.ndim
        if isinstance(x, SVar) and shape_of(x) is not None:
            return len(shape_of(x))
        if isinstance(x, list | tuple):
            d, y = 0, x
            while isinstance(y, list | tuple):
                d += 1
                y = y[0] if y else None
            return d
        if isinstance(x, int | float):
            return 0
        return NotImplemented

    def x_numpy_prod(self, interp, args, kwargs, node):
        x = args[0]
        if isinstance(x, tuple | list) and all(isinstance(s, int | float) for s in x):
            return math.prod(x) if x else 1.0
        return NotImplemented

    def x_numpy_frombuffer(self, interp, args, kwargs, node):
        buf = args[0]
        dt = to_dtype(kwargs.get('dtype', 'float64'))
        count, offset = kwargs.get('count', -1), kwargs.get('offset', 0)
        units = absio.units_of(buf)[offset:]
        if count < 0:
            count = len(units) // dt.itemsize
        if len(units) < count * dt.itemsize:
            raise RaiseSignal('ValueError', node, interp.where(node), ('buffer is smaller than requested size',))
        return absio.decode_array(dt, units, count, f'numpy.frombuffer at {interp.where(node)}')

    def x_numpy_fromfile(self, interp, args, kwargs, node):
        f = args[0]
        dt = to_dtype(kwargs.get('dtype', 'float64'))
        count = kwargs.get('count', -1)
        if not isinstance(f, AbsFile):
            return NotImplemented
        avail = (len(f.units) - f.pos) // dt.itemsize
        n = avail if count < 0 else min(count, avail)  # numpy returns a short array at EOF
        data = f.read(n * dt.itemsize)
        return absio.decode_array(dt, absio.units_of(data), n, f'numpy.fromfile at {interp.where(node)}')

    # ---- builtins ---------------------------------------------------------------------------
    def _builtin(self, interp, name, args, kwargs, node):
        if name == 'len' and args:
            x = args[0]
            if isinstance(x, SVar) and shape_of(x) is not None:
                if not shape_of(x):
                    raise RaiseSignal('TypeError', node, interp.where(node), ('len() of a 0-D variable',))
                return shape_of(x)[0]
        if name in ('int', 'float', 'bool') and args and isinstance(args[0], SVar) and 'concrete' in args[0].members:
            c = args[0].members['concrete']
            if not isinstance(c, list):
                return {'int': int, 'float': float, 'bool': bool}[name](c)
        if name in ('int', 'float') and args and isinstance(args[0], Elem | Cast | Expr):
            return self.elem_scalar(interp, args[0])
        return super()._builtin(interp, name, args, kwargs, node)

    def _isinstance(self, interp, x, t, node):
        if isinstance(t, _TypeUnion):
            t = tuple(t.members)
        if isinstance(t, tuple):
            rs = [self._isinstance(interp, x, s, node) for s in t]
            if any(r is True for r in rs):
                return True
            if all(r is False for r in rs):
                return False
            return Opaque('isinstance')
        if isinstance(t, ExtRef):
            p = t.path
            if p == 'io.BytesIO':
                return isinstance(x, AbsFile) and x.is_bytesio
            if p in ('typing.BinaryIO', 'typing.TextIO', 'io.StringIO', 'typing.IO'):
                return False
            if p == 'numpy.ndarray':
                if isinstance(x, NdArr):
                    return True
                if not isinstance(x, SVar | Opaque):
                    return False
            if isinstance(x, NdArr | AbsFile | AbsBytes | AbsBuffer | EnumMember) and p.startswith('builtins.'):
                return False
        return super()._isinstance(interp, x, t, node)

    # ---- variables with shapes -------------------------------------------------------------
    def elem_scalar(self, interp, e) -> SVar:
        """A scalar raw value for one symbolic array element."""
        if isinstance(e, SVar):
            return e
        if isinstance(e, Elem):
            if math.prod(shape_of(e.base) or (2,)) == 1:
                return e.base
            t = Rat.fn('index', e.base.term, Rat.sym(f'key:{e.idx}')) if isinstance(e.base.term, Rat) else None
            r = self.new(interp, t, e.base.unit, e.base.dtype, e.base.taint, 'element of an array')
            r.kind = 'raw'
            r.members.update({k: v for k, v in e.base.members.items() if k in ('raw_of_unit',)})
            return set_shape(r, ())
        r = self.new(interp, None, None, None, why=f'array element {e!r}')
        r.kind = 'raw'
        return set_shape(r, ())

    def from_ndarr(self, interp, a: NdArr):
        """NdArr -> what the scipp model understands (raw SVar or python list)."""
        if a.all_concrete():
            return a.tolist() if a.ndim else a.elems[0]
        w = a.as_whole()
        if w is not None:
            return w
        pw = a.as_permuted_whole()
        if pw is not None:
            # the same numbers in another order (a transposed layout): the array, with the position of every element
            base, order = pw
            r = self.new(interp, base.term, base.unit, base.dtype, base.taint, base.why)
            r.kind = base.kind
            r.members.update({k: v for k, v in base.members.items() if k not in ('shape', 'dims', 'order')})
            r.members['order'] = compose_order(base.members.get('order'), order)
            return set_shape(r, a.shape)
        r = self.new(interp, None, None, a.dtype.name, why=f'array assembled from {a!r}')
        r.kind = 'raw'
        r.members['elems'] = a
        return set_shape(r, a.shape)

    def _np_args(self, interp, args, kwargs, keys):
        shape = None
        args = list(args)
        kwargs = dict(kwargs)
        for i, a in enumerate(args):
            if isinstance(a, NdArr):
                shape = a.shape
                args[i] = self.from_ndarr(interp, a)
            elif isinstance(a, Elem | Cast | Expr):
                args[i] = self.elem_scalar(interp, a)
        for k in keys:
            a = kwargs.get(k)
            if isinstance(a, NdArr):
                shape = a.shape
                kwargs[k] = self.from_ndarr(interp, a)
            elif isinstance(a, Elem | Cast | Expr):
                kwargs[k] = self.elem_scalar(interp, a)
        return args, kwargs, shape

    def sc_array(self, interp, args, kwargs, node):
        args, kwargs, shape = self._np_args(interp, args, kwargs, ('values',))
        vals = kwargs.get('values')
        r = super().sc_array(interp, args, kwargs, node)
        dims = kwargs.get('dims')
        if isinstance(vals, list | tuple):
            try:
                arr = to_ndarr(list(vals))
                shape = arr.shape
                if arr.all_concrete():
                    r.members['concrete'] = arr.tolist()
                elif arr.as_whole() is None:
                    r.members['elems'] = arr
            except LayoutMismatch:
                pass
        if isinstance(vals, SVar) and vals.members.get('order') is not None:
            r.members['order'] = list(vals.members['order'])
        if shape is None and isinstance(vals, SVar):
            shape = shape_of(vals)
            if 'concrete' in vals.members:
                r.members['concrete'] = vals.members['concrete']
        if shape is not None:
            if isinstance(dims, list | tuple) and len(dims) != len(shape):
                raise RaiseSignal('ValueError', node, interp.where(node),
                                  (f"The number of dimensions in 'dims' ({len(dims)}) does not match the number of dimensions in 'values' ({len(shape)}).",))
            set_shape(r, shape, list(dims) if isinstance(dims, list | tuple) else None)
        return r

    def sc_scalar(self, interp, args, kwargs, node):
        args, kwargs, _ = self._np_args(interp, args, kwargs, ('value',))
        r = super().sc_scalar(interp, args, kwargs, node)
        v = args[0] if args else kwargs.get('value')
        if isinstance(v, int | float | bool | str):
            r.members['concrete'] = v
        return set_shape(r, ())

    def sc_vector(self, interp, args, kwargs, node):
        args, kwargs, shape = self._np_args(interp, args, kwargs, ('value',))
        v = args[0] if args else kwargs.get('value')
        if shape is not None and shape != (3,):
            raise RaiseSignal('DimensionError', node, interp.where(node), (f'vector from data of shape {shape}',))
        r = super().sc_vector(interp, args, kwargs, node)
        if isinstance(v, list | tuple) and all(isinstance(x, int | float) for x in v):
            r.members['concrete'] = list(v)
        return set_shape(r, ())

    def sc_index(self, interp, args, kwargs, node):
        r = super().sc_index(interp, args, kwargs, node)
        v = args[0] if args else kwargs.get('value')
        if isinstance(v, int):
            r.members['concrete'] = v
        return set_shape(r, ())

    def sc_values(self, interp, args, kwargs, node):
        r = super().sc_values(interp, args, kwargs, node)
        return self._like(r, args[0])

    def sc_variances(self, interp, args, kwargs, node):
        x = args[0]
        t = Rat.fn('variances', x.term) if isinstance(x.term, Rat) else None
        r = self.new(interp, t, x.unit ** 2 if x.unit is not None else None, x.dtype, x.taint, 'variances')
        return self._like(r, x)

    def sc_to_unit(self, interp, args, kwargs, node):
        r = super().sc_to_unit(interp, args, kwargs, node)
        x = args[0] if args else kwargs.get('x')
        return self._like(r, x)

    @staticmethod
    def _like(r, x):
        if isinstance(r, SVar) and isinstance(x, SVar) and shape_of(x) is not None:
            set_shape(r, shape_of(x), x.members.get('dims'))
        return r

    def binop(self, interp, op, a, b, node, inplace=False):
        r = super().binop(interp, op, a, b, node, inplace)
        if isinstance(r, SVar):
            sa, sb = shape_of(a), shape_of(b)
            if sa is not None or sb is not None:
                src = a if (sa is not None and (sb is None or len(sa) >= len(sb))) else b
                set_shape(r, bshape(sa, sb), src.members.get('dims'))
            ca = a.members.get('concrete') if isinstance(a, SVar) else (a if isinstance(a, int | float) else None)
            cb = b.members.get('concrete') if isinstance(b, SVar) else (b if isinstance(b, int | float) else None)
            if ca is not None and cb is not None and op in ('add', 'sub', 'mul'):
                f = {'add': lambda x, y: x + y, 'sub': lambda x, y: x - y, 'mul': lambda x, y: x * y}[op]
                if isinstance(ca, list) and not isinstance(cb, list):
                    r.members['concrete'] = [f(x, cb) for x in ca]
                elif isinstance(cb, list) and not isinstance(ca, list):
                    r.members['concrete'] = [f(ca, y) for y in cb]
                elif not isinstance(ca, list):
                    r.members['concrete'] = f(ca, cb)
        return r

    def var_attr(self, interp, v, attr, node):
        sh = shape_of(v)
        if sh is not None:
            if attr == 'shape':
                return sh
            if attr == 'ndim':
                return len(sh)
            if attr == 'dims':
                return tuple(v.members['dims'])
            if attr == 'dim' and len(sh) == 1:
                return v.members['dims'][0]
            if attr == 'sizes':
                return dict(zip(v.members['dims'], sh, strict=True))
            if attr == 'size' and v.kind == 'raw':
                return math.prod(sh)
            if attr in ('values', 'value'):
                if attr == 'value' and sh != ():
                    raise RaiseSignal('DimensionError', node, interp.where(node), ('value of a non-scalar',))
                c = v.members.get('concrete')
                if c is not None:
                    if attr == 'value':
                        return c
                    return to_ndarr(c, to_dtype(v.dtype) if v.dtype in absio.CODES else None) if isinstance(c, list) else to_ndarr(c)
                if 'elems' in v.members and v.unit in (NO_UNIT, None) or ('elems' in v.members and v.kind == 'raw'):
                    return v.members['elems']
                if attr == 'values' and '_buffer' in v.members:
                    return v.members['_buffer']  # .values is a view of the variable's memory: the same buffer every time
                r = self.raw(interp, v, node, attr)
                set_shape(r, (3,) if v.dtype == 'vector3' and sh == () else sh)
                if attr == 'value' and v.dtype != 'vector3':
                    return r
                if v.members.get('order') is not None and attr == 'values':
                    dt_ = r.dtype if r.dtype in absio.CODES else 'float64'
                    buf = NdArr(shape_of(r), dt_, [absio.Elem(r, k) for k in v.members['order']])
                else:
                    buf = NdArr.whole(r, shape_of(r), r.dtype if r.dtype in absio.CODES else 'float64')
                if attr == 'values':
                    v.members['_buffer'] = buf
                return buf
        if v.kind == 'raw' and attr in ('astype', 'squeeze', 'item', 'tobytes', 'tofile', 'reshape', 'copy', 'tolist') and sh is not None:
            return getattr(NdArr.whole(v, sh), attr)
        r = super().var_attr(interp, v, attr, node)
        if attr in ('data', 'T') and isinstance(r, SVar) and sh is not None:
            set_shape(r, sh, v.members.get('dims'))
        return r

    def var_index(self, interp, v, key, node):
        sh = shape_of(v)
        if sh is not None and len(sh) >= 1:
            k = key[1] if isinstance(key, tuple) and len(key) == 2 and isinstance(key[0], str) else key
            n = sh[0]
            if isinstance(k, slice) and all(isinstance(x, int) or x is None for x in (k.start, k.stop, k.step)):
                lo, hi, st = k.indices(n)
                if st != 1:
                    raise AnalysisError(f'strided slice of a symbolic variable at {interp.where(node)}')
                hi = max(lo, hi)
                t = Rat.fn('index', v.term, Rat.sym(f'key:{lo}:{hi}')) if isinstance(v.term, Rat) else None
                r = self.new(interp, t, v.unit, v.dtype, v.taint, v.why or 'slice')
                r.view_of = v
                r.members['slice_of'] = (v, lo, hi)
                return set_shape(r, (hi - lo, *sh[1:]), v.members.get('dims'))
            if isinstance(k, int) and not isinstance(k, bool):
                if not -n <= k < n:
                    raise RaiseSignal('IndexError', node, interp.where(node), (k,))
                t = Rat.fn('index', v.term, Rat.sym(f'key:{k % n}')) if isinstance(v.term, Rat) else None
                r = self.new(interp, t, v.unit, v.dtype, v.taint, v.why or 'index')
                r.view_of = v
                c = v.members.get('concrete')
                if isinstance(c, list):
                    r.members['concrete'] = c[k]
                return set_shape(r, sh[1:], (v.members.get('dims') or [None])[1:])
        return super().var_index(interp, v, key, node)

    def call_method(self, interp, recv, name, args, kwargs, node):
        if isinstance(recv, BoundModel) and recv.name == 'coords' and name == 'is_edges':
            return False
        r = super().call_method(interp, recv, name, args, kwargs, node)
        if isinstance(recv, SVar) and isinstance(r, SVar) and shape_of(recv) is not None:
            sh, dims = shape_of(recv), recv.members.get('dims')
            if name in ('to', 'astype', 'copy'):
                set_shape(r, sh, dims)
                if recv.members.get('order') is not None:
                    r.members['order'] = list(recv.members['order'])
                c = recv.members.get('concrete')
                if c is not None and (recv.unit == r.unit):
                    r.members['concrete'] = c
            elif name in ('min', 'max', 'sum', 'mean', 'nanmin', 'nanmax'):
                set_shape(r, ())
            elif name == 'broadcast':
                sizes = kwargs.get('sizes')
                if sizes is None and 'dims' in kwargs and 'shape' in kwargs:
                    sizes = dict(zip(kwargs['dims'], kwargs['shape'], strict=True))
                if not isinstance(sizes, dict) or not all(isinstance(s, int) for s in sizes.values()):
                    raise AnalysisError(f'broadcast with non-concrete sizes at {interp.where(node)}')
                new = tuple(sizes.values())
                if math.prod(new) != math.prod(sh):
                    raise AnalysisError(f'broadcast that replicates data is outside the modelled subset at {interp.where(node)}')
                kept = [d for d in sizes if sizes[d] != 1]
                if [d for d, s in zip(dims, sh, strict=True) if s != 1] != kept:
                    raise AnalysisError(f'broadcast that reorders dims at {interp.where(node)}')
                set_shape(r, new, list(sizes))
            elif name == 'transpose':
                nd = kwargs.get('dims', args[0] if args else None)
                if nd is None:
                    nd = list(reversed(dims))
                nd = list(nd)
                if sorted(nd) != sorted(dims):
                    raise RaiseSignal('DimensionError', node, interp.where(node), (f'transpose {dims} -> {nd}',))
                new_sh = tuple(sh[dims.index(d)] for d in nd)
                if [d for d in nd if sh[dims.index(d)] != 1] != [d for d, s in zip(dims, sh, strict=True) if s != 1]:
                    # the data moves: position i of the result holds the element that sat at the transposed multi-index
                    import itertools as _it
                    strides, acc = [0] * len(sh), 1
                    for ax in range(len(sh) - 1, -1, -1):
                        strides[ax], acc = acc, acc * sh[ax]
                    perm = []
                    for idx in _it.product(*[range(n_) for n_ in new_sh]):
                        old_flat = sum(idx[nd.index(d)] * strides[ax] for ax, d in enumerate(dims))
                        perm.append(old_flat)
                    r.members['order'] = compose_order(recv.members.get('order'), perm)
                elif recv.members.get('order') is not None:
                    r.members['order'] = list(recv.members['order'])
                set_shape(r, new_sh, nd)
            elif name in ('squeeze', 'flatten', 'rename_dims', 'rename'):
                pass
        return r


class SqwInterp(Interp):
    MAX_DEPTH = 40

    def __init__(self, repo, model):
        super().__init__(repo, model)
        self.concrete_enums = True
        self._registries_done: set = set()

    def global_name(self, name, mi, node):
        r = super().global_name(name, mi, node)
        key = (mi.name, name)
        if isinstance(r, SObj) and name in mi.assigns and key not in self._registries_done:
            self._registries_done.add(key)
            # module initialisation: decorators that register functions in this global
            import ast as _ast
            for fi in sorted(mi.functions.values(), key=lambda f: f.node.lineno):
                for d in reversed(fi.node.decorator_list):
                    root = d
                    while isinstance(root, _ast.Call | _ast.Attribute):
                        root = root.func if isinstance(root, _ast.Call) else root.value
                    if isinstance(root, _ast.Name) and root.id == name:
                        dec = self.eval(d, {}, mi)
                        self.call(dec, [FuncRef(fi)], {}, d)
        return r

    def iterate(self, v, node):
        if isinstance(v, SVar) and isinstance(v.members.get('concrete'), list):
            return list(v.members['concrete'])
        return super().iterate(v, node)

    def subscript(self, obj, key, node):
        if isinstance(obj, ClassRef | ExtRef):
            return obj  # generic alias
        return super().subscript(obj, key, node)
