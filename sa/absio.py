"""Abstract byte files and numpy arrays for the SQW reader/writer analysis.

The file is a sequence of byte *units*: a unit is either a concrete byte (an int)
or `(cell, k)`, the k-th byte of an abstract floating-point cell whose value the
analysis only knows symbolically.  Integers, strings and booleans the package
writes are concrete in the finite-domain evaluation (shapes and counts are fixed),
so their bytes are the real bytes, byte order included; floats may be symbolic.
A read that tears a cell apart, reads it with the wrong width, type or byte order,
or runs past the end of the file is a LayoutMismatch: writer and reader disagree.

NdArr is the matching abstraction of a numpy array: a concrete shape and dtype and
a flat C-order list of elements, each a python number or a symbolic element.
"""

from __future__ import annotations

import math
import struct as _struct
import sys

from .interp import ExtRef, Opaque, PassThrough, RaiseSignal, SVar

NATIVE = '<' if sys.byteorder == 'little' else '>'
CODES = {'float64': ('d', 8), 'float32': ('f', 4), 'uint64': ('Q', 8), 'int64': ('q', 8), 'uint32': ('I', 4),
         'int32': ('i', 4), 'uint8': ('B', 1), 'int8': ('b', 1), 'bool': ('?', 1)}
ALIASES = {'float': 'float64', 'int': 'int64', 'f8': 'float64', 'f4': 'float32', 'u8': 'uint64', 'i8': 'int64',
           'u4': 'uint32', 'i4': 'int32', 'double': 'float64', 'single': 'float32', 'bool_': 'bool'}
CTX: dict = {'interp': None, 'model': None}


class LayoutMismatch(PassThrough):
    pass


def _order(o, current=NATIVE) -> str:
    o = getattr(o, 'value', o)
    if o in ('little', '<', 'L'):
        return '<'
    if o in ('big', '>', 'B'):
        return '>'
    if o in ('=', 'native', 'N', '|', 'I'):
        return NATIVE if o != '|' and o != 'I' else current
    if o in ('S', 'swap'):
        return '>' if current == '<' else '<'
    raise LayoutMismatch(f'byte order {o!r} is not a numpy byte order')


class AbsDtype:
    def __init__(self, name: str, order: str = NATIVE):
        name = ALIASES.get(name, name)
        if name not in CODES:
            raise LayoutMismatch(f'dtype {name!r} outside the modelled set')
        self.name, self.order = name, order

    @property
    def itemsize(self) -> int:
        return CODES[self.name][1]

    @property
    def kind(self) -> str:
        return 'f' if self.name.startswith('float') else ('b' if self.name == 'bool' else ('u' if self.name.startswith('u') else 'i'))

    def newbyteorder(self, o='S'):
        return AbsDtype(self.name, _order(o, self.order))

    def __eq__(self, o):
        if isinstance(o, str):
            return ALIASES.get(o, o) == self.name
        return isinstance(o, AbsDtype) and (o.name, o.order) == (self.name, self.order)

    def __hash__(self):
        return hash((self.name, self.order))

    def __repr__(self):
        return f'dtype({self.order}{self.name})'


def to_dtype(x, default=None) -> AbsDtype:
    if x is None and default is not None:
        return to_dtype(default)
    if isinstance(x, AbsDtype):
        return x
    if isinstance(x, ExtRef):
        x = x.path.split('.')[-1]
    if isinstance(x, str):
        if x[:1] in '<>=|' and len(x) > 1:
            return AbsDtype(x[1:], _order(x[0]))
        return AbsDtype(x)
    raise LayoutMismatch(f'dtype argument {x!r} not understood')


# ---- symbolic elements ---------------------------------------------------------------------
class Elem:
    """The idx-th element (flat, C order) of the symbolic array `base`."""

    def __init__(self, base: SVar, idx: int):
        self.base, self.idx = base, idx

    def __eq__(self, o):
        return isinstance(o, Elem) and o.base is self.base and o.idx == self.idx

    def __hash__(self):
        return hash((id(self.base), self.idx))

    def __repr__(self):
        return f'#{self.base.id}[{self.idx}]'


class Cast:
    def __init__(self, dtype: str, x):
        self.dtype, self.x = dtype, x

    def __eq__(self, o):
        return isinstance(o, Cast) and o.dtype == self.dtype and same_elem(o.x, self.x)

    def __hash__(self):
        return hash(('cast', self.dtype))

    def __repr__(self):
        return f'{self.dtype}({self.x!r})'


class Expr:
    def __init__(self, op: str, a, b):
        self.op, self.a, self.b = op, a, b

    def __eq__(self, o):
        return isinstance(o, Expr) and o.op == self.op and same_elem(o.a, self.a) and same_elem(o.b, self.b)

    def __hash__(self):
        return hash(('expr', self.op))

    def __repr__(self):
        return f'({self.a!r} {self.op} {self.b!r})'


class _Uninit:
    def __repr__(self):
        return 'UNINIT'


UNINIT = _Uninit()


def is_concrete(x) -> bool:
    return isinstance(x, int | float | bool) and not isinstance(x, SVar)


def same_elem(a, b) -> bool:
    if isinstance(a, SVar) or isinstance(b, SVar):
        if a is b:
            return True
        ta, tb = getattr(a, 'term', None), getattr(b, 'term', None)
        return isinstance(a, SVar) and isinstance(b, SVar) and ta is not None and tb is not None and type(ta) is type(tb) and ta.eq(tb)
    if is_concrete(a) and is_concrete(b):
        return a == b or (a != a and b != b)
    return a == b


def elem_dtype(e):
    if isinstance(e, Elem):
        return e.base.dtype
    if isinstance(e, SVar):
        return e.dtype
    if isinstance(e, Cast):
        return e.dtype
    return None


def cast_elem(e, name: str):
    if e is UNINIT:
        return e
    if is_concrete(e):
        if name == 'bool':
            return bool(e)
        if name.startswith(('int', 'uint')):
            return int(e)
        if name == 'float32':
            return _struct.unpack('f', _struct.pack('f', float(e)))[0]
        return float(e)
    if elem_dtype(e) == name:
        return e
    return Cast(name, e)


# ---- bytes ---------------------------------------------------------------------------------
class FCell:
    """An abstract number stored with `dtype` and byte order `order`."""

    def __init__(self, dtype: str, order: str, value):
        self.dtype, self.order, self.value = dtype, order, value

    def __repr__(self):
        return f'<{self.order}{self.dtype} {self.value!r}>'


class AbsBytes:
    def __init__(self, units):
        self.units = tuple(units)

    def __len__(self):
        return len(self.units)

    def __getitem__(self, k):
        if isinstance(k, slice):
            return mk(self.units[k])
        return self.units[k]

    def __add__(self, o):
        return mk(self.units + tuple(units_of(o)))

    def __radd__(self, o):
        return mk(tuple(units_of(o)) + self.units)

    def _no(self, what):
        raise LayoutMismatch(f'{what} of bytes that hold floating-point data: {self!r}')

    def __eq__(self, o):
        self._no('comparison')

    def __ne__(self, o):
        self._no('comparison')

    __hash__ = None  # type: ignore[assignment]

    def decode(self, *a, **k):
        self._no('text decoding')

    def __repr__(self):
        out = []
        for u in self.units[:24]:
            out.append(f'{u:02x}' if isinstance(u, int) else f'{u[0]!r}.{u[1]}')
        return 'bytes[' + ' '.join(out) + (' …' if len(self.units) > 24 else '') + ']'


def mk(units):
    units = tuple(units)
    if all(isinstance(u, int) for u in units):
        return bytes(units)
    return AbsBytes(units)


def units_of(data):
    if isinstance(data, bytes | bytearray):
        return list(data)
    if isinstance(data, memoryview):
        return list(bytes(data))
    if isinstance(data, AbsBytes):
        return list(data.units)
    if isinstance(data, AbsBuffer):
        return list(data.file.units)
    if isinstance(data, Opaque | SVar):
        raise LayoutMismatch(f'bytes written to the file are unknown to the analysis: {data!r}')
    raise LayoutMismatch(f'{type(data).__name__} written where bytes are expected')


class Swapped:
    """An array element whose bytes were reversed in memory (ndarray.byteswap): written with the other byte order."""

    def __init__(self, x):
        self.x = x

    def __eq__(self, o):
        return isinstance(o, Swapped) and same_elem(o.x, self.x)

    def __hash__(self):
        return hash(('swapped',))

    def __repr__(self):
        return f'byteswapped({self.x!r})'


def pack_value(dtype: AbsDtype, v):
    code, n = CODES[dtype.name]
    if v is UNINIT:
        raise LayoutMismatch('uninitialised array element written to the file')
    if isinstance(v, Swapped):
        other = AbsDtype(dtype.name, '>' if dtype.order == '<' else '<') if n > 1 else dtype
        return pack_value(other, v.x)
    if is_concrete(v):
        try:
            if dtype.kind in 'iu':
                v = int(v)
            return list(_struct.pack(dtype.order + code, v))
        except (_struct.error, OverflowError, ValueError) as ex:
            raise RaiseSignal('ValueError', None, 'struct.pack', (str(ex),)) from None
    cell = FCell(dtype.name, dtype.order, v)
    return [(cell, k) for k in range(n)]


def unpack_value(dtype: AbsDtype, units, what='value'):
    code, n = CODES[dtype.name]
    if len(units) != n:
        raise LayoutMismatch(f'{what}: {n} bytes wanted for {dtype!r}, {len(units)} available (read past the end of the data)')
    if all(isinstance(u, int) for u in units):
        return _struct.unpack(dtype.order + code, bytes(units))[0]
    cells = {id(u[0]) for u in units if not isinstance(u, int)}
    first = units[0]
    if any(isinstance(u, int) for u in units) or len(cells) != 1 or [u[1] for u in units] != list(range(n)):
        raise LayoutMismatch(f'{what}: read of {n} bytes as {dtype!r} is not aligned with what was written: {mk(units)!r}')
    cell = first[0]
    if CODES[cell.dtype][1] != n or cell.dtype != dtype.name:
        raise LayoutMismatch(f'{what}: written as {cell.dtype}, read as {dtype.name}')
    if cell.order != dtype.order:
        raise LayoutMismatch(f'{what}: written with byte order {cell.order}, read with {dtype.order}')
    return cell.value


class AbsFile:
    def __init__(self, is_bytesio: bool = True, name: str | None = None):
        self.is_bytesio = is_bytesio
        self.name = name
        self.units: list = []
        self.pos = 0
        self.writes: list = []  # (offset, length) of every write, in order

    def write(self, data) -> int:
        u = units_of(data)
        if self.pos > len(self.units):
            self.units.extend([0] * (self.pos - len(self.units)))
        self.units[self.pos:self.pos + len(u)] = u
        self.writes.append((self.pos, len(u)))
        self.pos += len(u)
        return len(u)

    def read(self, n: int = -1):
        if n is None or n < 0:
            n = max(0, len(self.units) - self.pos)
        out = self.units[self.pos:self.pos + n]
        self.pos += len(out)
        return mk(out)

    def seek(self, pos: int, whence: int = 0) -> int:
        if not isinstance(pos, int):
            raise LayoutMismatch(f'seek to a position the analysis cannot compute: {pos!r}')
        self.pos = pos if whence == 0 else (self.pos + pos if whence == 1 else len(self.units) + pos)
        return self.pos

    def tell(self) -> int:
        return self.pos

    def getbuffer(self):
        return AbsBuffer(self)

    def getvalue(self):
        return mk(self.units)

    def close(self):
        pass

    def flush(self):
        pass

    def __len__(self):
        return len(self.units)


class AbsBuffer:
    """memoryview of an AbsFile (live)."""

    def __init__(self, file: AbsFile):
        self.file = file

    def __len__(self):
        return len(self.file.units)

    @property
    def nbytes(self):
        return len(self.file.units)


# ---- arrays ---------------------------------------------------------------------------------
def _prod(shape) -> int:
    return int(math.prod(shape))


class NdArr:
    """shape + dtype + elements.  Basic slicing, reshape, squeeze, transpose give *views*: they share
    the element store with their parent, so writes through a view are seen by the parent (numpy)."""

    def __init__(self, shape, dtype, elems, _store=None, _idx=None):
        self.shape = tuple(int(s) for s in shape)
        self.dtype = to_dtype(dtype)
        if _store is not None:
            self._store, self._idx = _store, list(_idx)
        else:
            self._store = list(elems)
            self._idx = list(range(len(self._store)))
        if len(self._idx) != _prod(self.shape):
            raise LayoutMismatch(f'array of shape {self.shape} built from {len(self._idx)} elements')

    @property
    def elems(self):
        return [self._store[i] for i in self._idx]

    def _view(self, shape, positions):
        """A view holding the elements at the given positions (indices into self.elems)."""
        return NdArr(shape, self.dtype, None, _store=self._store, _idx=[self._idx[p] for p in positions])

    # construction ------------------------------------------------------------
    @classmethod
    def whole(cls, base: SVar, shape, dtype=None):
        n = _prod(shape)
        elems = [base] if tuple(shape) == () else [Elem(base, i) for i in range(n)]
        return cls(shape, dtype or base.dtype or 'float64', elems)

    @classmethod
    def full(cls, shape, dtype, value):
        dt = to_dtype(dtype)
        return cls(shape, dt, [cast_elem(value, dt.name) if value is not UNINIT else UNINIT] * _prod(shape))

    def as_whole(self):
        """The symbolic array this is exactly (all elements, in order), or None."""
        if not self.elems:
            return None
        e0 = self.elems[0]
        if len(self.elems) == 1 and isinstance(e0, SVar):
            return e0
        if not isinstance(e0, Elem):
            return None
        base = e0.base
        n = base.members.get('shape')
        if n is None or _prod(n) != len(self.elems):
            return None
        for i, e in enumerate(self.elems):
            if not isinstance(e, Elem) or e.base is not base or e.idx != i:
                return None
        return base

    def as_permuted_whole(self):
        """(base, order): every element of one symbolic array exactly once, in the order given (order[i] is the index, in the
        layout of the base, of the element at position i); None otherwise."""
        if not self.elems or not all(isinstance(e, Elem) for e in self.elems):
            return None
        base = self.elems[0].base
        n = base.members.get('shape')
        if n is None or _prod(n) != len(self.elems) or any(e.base is not base for e in self.elems):
            return None
        order = [e.idx for e in self.elems]
        if sorted(order) != list(range(len(order))):
            return None
        return base, order

    def all_concrete(self) -> bool:
        return all(is_concrete(e) for e in self.elems)

    # attributes --------------------------------------------------------------
    @property
    def size(self):
        return len(self.elems)

    @property
    def ndim(self):
        return len(self.shape)

    @property
    def nbytes(self):
        return self.size * self.dtype.itemsize

    @property
    def itemsize(self):
        return self.dtype.itemsize

    def __len__(self):
        if not self.shape:
            raise RaiseSignal('TypeError', None, 'len() of unsized object')
        return self.shape[0]

    def __repr__(self):
        return f'NdArr{self.shape}:{self.dtype.name}{self.elems[:6]!r}{"…" if len(self.elems) > 6 else ""}'

    # conversions ----------------------------------------------------------------
    def astype(self, dtype, copy=True, **kw):
        dt = to_dtype(dtype)
        if not copy and dt.name == self.dtype.name and dt.order == self.dtype.order:
            return self
        return NdArr(self.shape, dt, [cast_elem(e, dt.name) for e in self.elems])

    def copy(self, *a, **k):
        return NdArr(self.shape, self.dtype, self.elems)

    def view(self, dtype=None, *a, **k):
        """The same bytes read as another dtype of the same item size (values re-decoded from the bytes; writes through such a
        view are not followed back to the parent)."""
        if dtype is None:
            return self._view(self.shape, range(len(self._idx)))
        dt = to_dtype(dtype)
        if dt.name == self.dtype.name and dt.order == self.dtype.order:
            return self._view(self.shape, range(len(self._idx)))
        if dt.itemsize != self.dtype.itemsize:
            raise LayoutMismatch(f'ndarray.view({dt!r}) of {self.dtype!r}: different item sizes are not modelled')
        return decode_array(dt, units_of(self.tobytes()), self.size, 'ndarray.view').reshape(self.shape)

    def flatten(self, *a, **k):
        return NdArr((len(self._idx),), self.dtype, self.elems)

    def squeeze(self, *a, **k):
        return self._view(tuple(s for s in self.shape if s != 1), range(len(self._idx)))

    def reshape(self, *shape, **k):
        if len(shape) == 1 and isinstance(shape[0], tuple | list):
            shape = tuple(shape[0])
        shape = list(shape)
        if shape.count(-1) == 1:
            rest = _prod([s for s in shape if s != -1])
            shape[shape.index(-1)] = len(self.elems) // rest if rest else 0
        if _prod(shape) != len(self._idx):
            raise RaiseSignal('ValueError', None, 'ndarray.reshape', (f'cannot reshape array of size {len(self._idx)} into shape {tuple(shape)}',))
        return self._view(shape, range(len(self._idx)))

    def ravel(self, *a, **k):
        return self._view((len(self._idx),), range(len(self._idx)))


    def item(self, *a):
        if len(self.elems) != 1:
            raise RaiseSignal('ValueError', None, 'ndarray.item', ('can only convert an array of size 1 to a Python scalar',))
        return self.elems[0]

    def tolist(self):
        if self.ndim <= 1:
            return list(self.elems) if self.ndim else self.elems[0]
        return [sub.tolist() for sub in self]

    def tobytes(self, *a, **k):
        out = []
        for e in self.elems:
            out.extend(pack_value(self.dtype, e))
        return mk(out)

    def byteswap(self, inplace=False):
        sw = lambda e: e.x if isinstance(e, Swapped) else Swapped(e)  # noqa: E731
        if inplace:
            for i in self._idx:  # the shared store: every view of this memory sees the swapped bytes
                self._store[i] = sw(self._store[i])
            return self
        return NdArr(self.shape, self.dtype, [sw(e) for e in self.elems])

    def tofile(self, f, *a, **k):
        if not isinstance(f, AbsFile):
            raise LayoutMismatch(f'tofile into {f!r}')
        f.write(self.tobytes())

    @property
    def T(self):
        return self.transpose()

    def transpose(self, *axes):
        if len(axes) == 1 and isinstance(axes[0], tuple | list):
            axes = tuple(axes[0])
        if not axes:
            axes = tuple(reversed(range(self.ndim)))
        new_shape = tuple(self.shape[a] for a in axes)
        out = []
        for idx in _indices(new_shape):
            src = [0] * self.ndim
            for pos, a in enumerate(axes):
                src[a] = idx[pos]
            out.append(self._flat(src))
        return self._view(new_shape, out)

    # indexing ----------------------------------------------------------------------
    def _flat(self, idx) -> int:
        f = 0
        for i, s in zip(idx, self.shape, strict=True):
            f = f * s + i
        return f

    def _select(self, key):
        """(result shape, list of flat indices)."""
        if not isinstance(key, tuple):
            key = (key,)
        if any(k is Ellipsis for k in key):
            i = key.index(Ellipsis)
            key = key[:i] + (slice(None),) * (self.ndim - len(key) + 1) + key[i + 1:]
        n_new = sum(1 for k in key if k is None)
        if len(key) - n_new > self.ndim:
            raise RaiseSignal('IndexError', None, 'ndarray[...]', ('too many indices for array',))
        key = key + (slice(None),) * (self.ndim - (len(key) - n_new))
        axes = []
        shape = []
        dims = iter(self.shape)
        for k in key:
            if k is None:  # numpy.newaxis
                shape.append(1)
                continue
            s = next(dims)
            if isinstance(k, bool) or not isinstance(k, int | slice):
                raise LayoutMismatch(f'array index {k!r} outside the modelled subset')
            if isinstance(k, int):
                if not -s <= k < s:
                    raise RaiseSignal('IndexError', None, 'ndarray[...]', (f'index {k} is out of bounds for axis with size {s}',))
                axes.append([k % s])
            else:
                r = list(range(*k.indices(s)))
                axes.append(r)
                shape.append(len(r))
        flat = [self._flat(idx) for idx in _product(axes)]
        return tuple(shape), flat

    def __getitem__(self, key):
        shape, flat = self._select(key)
        ks = key if isinstance(key, tuple) else (key,)
        if shape == () and self.ndim > 0 and all(isinstance(k, int) for k in ks) and len(ks) == self.ndim:
            return self._store[self._idx[flat[0]]]
        return self._view(shape, flat)

    def __setitem__(self, key, value):
        shape, flat = self._select(key)
        if isinstance(value, NdArr):
            vs = value.elems
            if len(vs) != len(flat):
                if len(vs) == 1:
                    vs = vs * len(flat)
                else:
                    raise RaiseSignal('ValueError', None, 'ndarray[...] = ...',
                                      (f'could not broadcast input array from shape {value.shape} into shape {shape}',))
            elif tuple(s for s in value.shape if s != 1) != tuple(s for s in shape if s != 1):
                raise RaiseSignal('ValueError', None, 'ndarray[...] = ...',
                                  (f'could not broadcast input array from shape {value.shape} into shape {shape}',))
        elif isinstance(value, list | tuple):
            vs = list(value)
            if len(vs) != len(flat):
                raise RaiseSignal('ValueError', None, 'ndarray[...] = ...', ('shape mismatch',))
        else:
            vs = [value] * len(flat)
        for i, v in zip(flat, vs, strict=True):
            self._store[self._idx[i]] = cast_elem(v, self.dtype.name)

    def __iter__(self):
        if not self.shape:
            raise RaiseSignal('TypeError', None, 'iteration over a 0-d array')
        for i in range(self.shape[0]):
            yield self[i]

    # arithmetic ------------------------------------------------------------------------
    def _arith(self, op, other, swap=False):
        pyop = {'add': lambda a, b: a + b, 'sub': lambda a, b: a - b, 'mul': lambda a, b: a * b, 'div': lambda a, b: a / b,
                'pow': lambda a, b: a ** b}[op]
        if isinstance(other, NdArr):
            if other.shape != self.shape:
                raise LayoutMismatch('array arithmetic with broadcasting is outside the modelled subset')
            pairs = list(zip(self.elems, other.elems, strict=True))
        else:
            pairs = [(e, other) for e in self.elems]
        res_float = self.dtype.kind == 'f' or isinstance(other, float) or op == 'div' or (isinstance(other, NdArr) and other.dtype.kind == 'f')
        dt = AbsDtype('float64' if res_float else self.dtype.name)
        whole = self.as_whole()
        if whole is not None and is_concrete(other) and CTX['model'] is not None and len(self.elems) > 0:
            a, b = (other, whole) if swap else (whole, other)
            r = CTX['model'].binop(CTX['interp'], op, a, b, None)
            return NdArr.whole(r, self.shape, dt)
        out = []
        for a, b in pairs:
            if swap:
                a, b = b, a
            if is_concrete(a) and is_concrete(b):
                out.append(pyop(a, b))
            else:
                out.append(Expr(op, a, b))
        return NdArr(self.shape, dt, out)

    def __add__(self, o):
        return self._arith('add', o)

    def __radd__(self, o):
        return self._arith('add', o, True)

    def __sub__(self, o):
        return self._arith('sub', o)

    def __rsub__(self, o):
        return self._arith('sub', o, True)

    def __mul__(self, o):
        return self._arith('mul', o)

    def __rmul__(self, o):
        return self._arith('mul', o, True)

    def __truediv__(self, o):
        return self._arith('div', o)

    def __pow__(self, o):
        return self._arith('pow', o)

    def _compare(self, op, pyop, other):
        """Element-wise comparison: a flag per element, an expression of the two where they are not concrete."""
        if isinstance(other, NdArr):
            if other.shape != self.shape:
                raise LayoutMismatch('array comparison with broadcasting is outside the modelled subset')
            pairs = list(zip(self.elems, other.elems, strict=True))
        else:
            pairs = [(e, other) for e in self.elems]
        return NdArr(self.shape, AbsDtype('bool'), [pyop(a, b) if is_concrete(a) and is_concrete(b) else Expr(op, a, b) for a, b in pairs])

    def __lt__(self, o):
        return self._compare('lt', lambda a, b: a < b, o)

    def __le__(self, o):
        return self._compare('le', lambda a, b: a <= b, o)

    def __gt__(self, o):
        return self._compare('gt', lambda a, b: a > b, o)

    def __ge__(self, o):
        return self._compare('ge', lambda a, b: a >= b, o)

    def _reduce(self, fn):
        if not self.all_concrete() or not self.elems:
            raise LayoutMismatch('reduction of a symbolic array')
        return fn(self.elems)

    def min(self, *a, **k):
        return self._reduce(min)

    def max(self, *a, **k):
        return self._reduce(max)

    def sum(self, *a, **k):
        return self._reduce(sum)


def _indices(shape):
    return _product([list(range(s)) for s in shape])


def _product(axes):
    out = [[]]
    for ax in axes:
        out = [p + [i] for p in out for i in ax]
    return out


def decode_array(dtype: AbsDtype, units, count: int, what: str) -> NdArr:
    n = dtype.itemsize
    if len(units) < count * n:
        raise LayoutMismatch(f'{what}: {count} x {dtype!r} = {count * n} bytes wanted, only {len(units)} left in the data')
    elems = [unpack_value(dtype, units[i * n:(i + 1) * n], f'{what}[{i}]') for i in range(count)]
    return NdArr((count,), dtype, elems)


def to_ndarr(x, dtype=None) -> NdArr:
    """numpy.array(x) for nested python lists / tuples / arrays."""
    if isinstance(x, NdArr):
        return x if dtype is None else x.astype(dtype)
    if isinstance(x, list | tuple):
        subs = [to_ndarr(e) for e in x]
        if not subs:
            return NdArr((0,), dtype or 'float64', [])
        if any(s.shape != subs[0].shape for s in subs):
            raise LayoutMismatch('ragged nested sequence turned into an array')
        elems = [e for s in subs for e in s.elems]
        dt = dtype or _common_dtype(subs)
        arr = NdArr((len(subs), *subs[0].shape), dt, elems)
        return arr.astype(dt) if dtype is not None else arr
    if isinstance(x, SVar):
        sh = x.members.get('shape', ())
        if sh == ():
            return NdArr((), dtype or x.dtype or 'float64', [x])
        return NdArr.whole(x, sh, dtype)
    if isinstance(x, Elem | Cast | Expr):
        return NdArr((), dtype or elem_dtype(x) or 'float64', [x])
    if isinstance(x, bool):
        return NdArr((), dtype or 'bool', [x])
    if isinstance(x, int):
        return NdArr((), dtype or 'int64', [x])
    if isinstance(x, float):
        return NdArr((), dtype or 'float64', [x])
    raise LayoutMismatch(f'numpy.array of {x!r} is outside the modelled subset')


def _common_dtype(subs):
    names = {s.dtype.name for s in subs}
    if len(names) == 1:
        return next(iter(names))
    if any(n.startswith('float') for n in names):
        return 'float64'
    if names <= {'bool', 'int64'}:
        return 'int64'
    return 'float64'
