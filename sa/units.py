"""Unit domain: a unit is a power product of named symbols.

Named symbols carry (a) a dimension vector used for the to_unit compatibility
obligation and (b) an SI scale used by the term domain (physical value of "1
unit").  Parameter units are opaque symbols u(p) whose dimension comes from the
parameter's role and whose scale is the term symbol U:p.
"""

from __future__ import annotations

from fractions import Fraction as F

from .term import Rat

# dimension vectors over (m, s, kg, rad, K, count)
_D = {
    'L': (1, 0, 0, 0, 0, 0),
    'T': (0, 1, 0, 0, 0, 0),
    'M': (0, 0, 1, 0, 0, 0),
    'ANGLE': (0, 0, 0, 1, 0, 0),
    'TEMP': (0, 0, 0, 0, 1, 0),
    'COUNT': (0, 0, 0, 0, 0, 1),
    'ONE': (0, 0, 0, 0, 0, 0),
    'ENERGY': (2, -2, 1, 0, 0, 0),
    'FREQ': (0, -1, 0, 0, 0, 0),
    'AREA': (2, 0, 0, 0, 0, 0),
    'INVL': (-1, 0, 0, 0, 0, 0),
    'ACCEL': (1, -2, 0, 0, 0, 0),
    'ACTION': (2, -1, 1, 0, 0, 0),
}

# name -> (dimension, SI scale as Fraction or 'pi'-expression)
NAMED = {
    'm': ('L', F(1)),
    'cm': ('L', F(1, 100)),
    'mm': ('L', F(1, 1000)),
    'um': ('L', F(1, 10**6)),
    'nm': ('L', F(1, 10**9)),
    'km': ('L', F(1000)),
    'angstrom': ('L', F(1, 10**10)),
    'Å': ('L', F(1, 10**10)),
    'fm': ('L', F(1, 10**15)),
    'barn': ('AREA', F(1, 10**28)),
    's': ('T', F(1)),
    'ms': ('T', F(1, 1000)),
    'us': ('T', F(1, 10**6)),
    'µs': ('T', F(1, 10**6)),
    'ns': ('T', F(1, 10**9)),
    'min': ('T', F(60)),
    'Hz': ('FREQ', F(1)),
    'kHz': ('FREQ', F(1000)),
    'kg': ('M', F(1)),
    'g': ('M', F(1, 1000)),
    'Da': ('M', F('1.66053906660e-27')),
    'u': ('M', F('1.66053906660e-27')),
    'J': ('ENERGY', F(1)),
    'eV': ('ENERGY', F('1.602176634e-19')),
    'meV': ('ENERGY', F('1.602176634e-22')),
    'ueV': ('ENERGY', F('1.602176634e-25')),
    'rad': ('ANGLE', F(1)),
    'deg': ('ANGLE', 'pi/180'),
    'K': ('TEMP', F(1)),
    'counts': ('COUNT', F(1)),
    'count': ('COUNT', F(1)),
    'none': ('ONE', F(1)),
    'dimensionless': ('ONE', F(1)),
    'one': ('ONE', F(1)),
    '': ('ONE', F(1)),
}
ALIASES = {'Å': 'angstrom', 'µs': 'us', 'u': 'Da', 'count': 'counts', 'one': 'dimensionless', '': 'dimensionless'}


class UnitError(Exception):
    pass


class Unit:
    __slots__ = ('syms',)

    def __init__(self, syms: dict[str, F] | None = None):
        self.syms = {k: F(v) for k, v in (syms or {}).items() if v != 0 and k != 'dimensionless'}

    @staticmethod
    def named(name: str) -> Unit:
        name = name.strip()
        name = ALIASES.get(name, name)
        if name not in NAMED and not name.startswith('u('):
            return parse_unit(name)
        return Unit({name: 1})

    @staticmethod
    def param(p: str) -> Unit:
        return Unit({f'u({p})': 1})

    def __mul__(self, o: Unit) -> Unit:
        d = dict(self.syms)
        for k, v in o.syms.items():
            d[k] = d.get(k, 0) + v
        return Unit(d)

    def __truediv__(self, o: Unit) -> Unit:
        return self * (o ** -1)

    def __pow__(self, e) -> Unit:
        return Unit({k: v * F(e) for k, v in self.syms.items()})

    def __eq__(self, o) -> bool:
        return isinstance(o, Unit) and self.syms == o.syms

    def __hash__(self):
        return hash(tuple(sorted(self.syms.items())))

    def is_dimensionless_label(self) -> bool:
        return not self.syms

    def dim(self, param_dims: dict[str, str]) -> tuple:
        total = [F(0)] * 6
        for k, e in self.syms.items():
            if k.startswith('u('):
                p = k[2:-1]
                if p not in param_dims:
                    raise UnitError(f'no dimension known for parameter unit {k}')
                d = _dim_of(param_dims[p])
            else:
                d = _dim_of(NAMED[k][0])
            for i in range(6):
                total[i] += d[i] * e
        return tuple(total)

    def scale(self) -> Rat:
        """SI size of one unit, as a term."""
        r = Rat.const(1)
        for k, e in self.syms.items():
            if k.startswith('u('):
                base = Rat.sym('U:' + k[2:-1], positive=True)
            else:
                s = NAMED[k][1]
                if s == 'pi/180':
                    base = Rat.sym('pi', positive=True) / 180
                else:
                    base = Rat.const(s)
            r = r * base**e
        return r

    def param_syms(self) -> set[str]:
        return {k for k in self.syms if k.startswith('u(')}

    def __repr__(self):
        if not self.syms:
            return 'dimensionless'
        parts = []
        for k, e in sorted(self.syms.items()):
            parts.append(k if e == 1 else f'{k}^{e}')
        return '*'.join(parts)


def _dim_of(spec) -> tuple:
    if isinstance(spec, tuple):
        return spec
    if spec in _D:
        return _D[spec]
    # composite like 'L/T' or 'L^2'
    total = [F(0)] * 6
    sign = 1
    tok = ''
    def flush(tok, sign):
        if not tok:
            return
        if '^' in tok:
            b, e = tok.split('^')
            e = F(e)
        else:
            b, e = tok, F(1)
        d = _D[b]
        for i in range(6):
            total[i] += sign * e * d[i]
    for ch in spec:
        if ch in '*/':
            flush(tok, sign)
            tok = ''
            sign = 1 if ch == '*' else -1
        else:
            tok += ch
    flush(tok, sign)
    return tuple(total)


def parse_unit(text: str) -> Unit:
    """Parse scipp-style unit strings such as 's/m', '1/angstrom', 'm**2', 'meV'."""
    t = text.replace('**', '^').replace(' ', '')
    if t in ALIASES:
        t = ALIASES[t]
    if t in NAMED:
        return Unit({t: 1})
    out = Unit()
    sign = 1
    tok = ''
    def flush(tok, sign, out):
        if not tok or tok == '1':
            return out
        if '^' in tok:
            b, e = tok.split('^')
            e = F(e.strip('()'))
        else:
            b, e = tok, F(1)
        b = ALIASES.get(b, b)
        if b not in NAMED:
            raise UnitError(f'unknown unit symbol {b!r} in {text!r}')
        return out * Unit({b: sign * e})
    for ch in t:
        if ch in '*/':
            out = flush(tok, sign, out)
            tok = ''
            sign = 1 if ch == '*' else -1
        else:
            tok += ch
    return flush(tok, sign, out)


DIMENSIONLESS = Unit()
NO_UNIT = Unit({'none': 1})  # scipp's unit=None
