"""Magnitude intervals of exact terms: log10 bounds of |term| when every symbol ranges over a given
positive interval.  Exact for power products (the case of every scale factor and unit-scaled constant
of the conversion kernels); sums are bounded above only (cancellation has no lower bound)."""

from __future__ import annotations

import math
from fractions import Fraction as F

from . import term as T
from .term import Rat

CONSTANTS = {'m_n': 1.67492749804e-27, 'h': 6.62607015e-34, 'hbar': 1.054571817e-34, 'pi': math.pi, 'm_e': 9.1093837015e-31,
             'e': 1.602176634e-19, 'k': 1.380649e-23, 'g': 9.80665, 'c': 299792458.0}
F32_MIN_NORMAL = math.log10(1.1754944e-38)
F32_MAX = math.log10(3.4028235e38)


class Unbounded(Exception):
    pass


def atom_interval(a, ranges):
    if a.kind == 'sym':
        if a.name in ranges:
            lo, hi = ranges[a.name]
            if lo <= 0:
                raise Unbounded(f'{a.name} is not positive')
            return math.log10(lo), math.log10(hi)
        if a.name in CONSTANTS:
            v = math.log10(CONSTANTS[a.name])
            return v, v
        raise Unbounded(f'no range for {a.name}')
    if a.kind == 'prime':
        v = math.log10(int(a.name))
        return v, v
    if a.kind == 'base':
        return interval(a.args[0], ranges)
    if a.kind == 'norm':
        v = T.A(a.args[0])
        key = f'|{v.name}|'
        if v.kind == 'vsym' and key in ranges:
            lo, hi = ranges[key]
            return math.log10(lo), math.log10(hi)
        raise Unbounded(f'no range for the length of {v.name}')
    if a.kind == 'fn' and a.name == 'abs' and isinstance(a.args[0], Rat):
        return interval(a.args[0], ranges)
    raise Unbounded(f'atom {T.show_atom(a)}')


def mono_interval(mono, coeff, ranges):
    if coeff == 0:
        raise Unbounded('zero')
    lo = hi = math.log10(abs(float(F(coeff))))
    for aid, e in mono:
        a_lo, a_hi = atom_interval(T.A(aid), ranges)
        e = float(F(e))
        lo += min(a_lo * e, a_hi * e)
        hi += max(a_lo * e, a_hi * e)
    return lo, hi


def poly_interval(p, ranges):
    """(lo, hi): lo is None for a sum (no lower bound under cancellation)."""
    items = list(p.items())
    if not items:
        raise Unbounded('zero')
    if len(items) == 1:
        return mono_interval(items[0][0], items[0][1], ranges)
    his = [mono_interval(m, c, ranges)[1] for m, c in items]
    return None, max(his) + math.log10(len(items))


def interval(r: Rat, ranges):
    n_lo, n_hi = poly_interval(r.num, ranges)
    if r.den is T.ONE_P:
        return n_lo, n_hi
    d_lo, d_hi = poly_interval(r.den, ranges)
    lo = None if n_lo is None or d_hi is None else n_lo - d_hi
    hi = None if d_lo is None else n_hi - d_lo
    return lo, hi


# ---- log-linear forms and conditional bounds (a small polyhedral domain) -------------------------------------------
def loglinear(r: Rat, ranges) -> tuple[float, dict]:
    """log10 |r| = const + sum coeff[name] * log10(name) for a power product r; raises Unbounded otherwise."""
    const, coeff = 0.0, {}

    def add_atom(a, e: float):
        nonlocal const
        if a.kind == 'sym':
            if a.name in ranges:
                coeff[a.name] = coeff.get(a.name, 0.0) + e
            elif a.name in CONSTANTS:
                const += e * math.log10(CONSTANTS[a.name])
            else:
                raise Unbounded(f'no range for {a.name}')
        elif a.kind == 'prime':
            const += e * math.log10(int(a.name))
        elif a.kind == 'norm':
            v = T.A(a.args[0])
            key = f'|{v.name}|'
            if v.kind != 'vsym' or key not in ranges:
                raise Unbounded(f'no range for the length of {v.name}')
            coeff[key] = coeff.get(key, 0.0) + e
        elif a.kind == 'fn' and f'fn:{a.name}' in ranges:
            key = f'fn:{a.name}'  # e.g. every sin(...) ranges over the interval given for 'fn:sin'
            coeff[key] = coeff.get(key, 0.0) + e
        elif a.kind == 'base' or (a.kind == 'fn' and a.name == 'abs' and isinstance(a.args[0], Rat)):
            c2, k2 = loglinear(a.args[0], ranges)
            const += e * c2
            for k, v in k2.items():
                coeff[k] = coeff.get(k, 0.0) + e * v
        else:
            raise Unbounded(f'atom {T.show_atom(a)}')

    def add_poly(p, sign: float):
        nonlocal const
        items = list(p.items())
        if len(items) != 1:
            raise Unbounded('sum')
        mono, c = items[0]
        if c == 0:
            raise Unbounded('zero')
        const += sign * math.log10(abs(float(F(c))))
        for aid, e in mono:
            add_atom(T.A(aid), sign * float(F(e)))

    add_poly(r.num, 1.0)
    if r.den is not T.ONE_P:
        add_poly(r.den, -1.0)
    return const, {k: v for k, v in coeff.items() if abs(v) > 1e-12}


def conditional_interval(obj: tuple, cond: tuple, ranges, cond_range: tuple) -> tuple | None:
    """Range of the log-linear form `obj` over the box `ranges` (log10 of positive intervals) intersected with
    cond_range[0] <= cond <= cond_range[1].  Exact: the extremes of a linear function over a polytope are attained at
    vertices, which are enumerated (n <= 5 variables).  None if the polytope is empty."""
    import itertools

    import numpy as np
    c0, a = obj
    d0, b = cond
    names = sorted(set(a) | set(b))
    n = len(names)
    if n == 0:
        return (c0, c0) if cond_range[0] <= d0 <= cond_range[1] else None
    if n > 5:
        raise Unbounded('too many variables')
    lo = np.array([math.log10(ranges[k][0]) for k in names])
    hi = np.array([math.log10(ranges[k][1]) for k in names])
    av = np.array([a.get(k, 0.0) for k in names])
    bv = np.array([b.get(k, 0.0) for k in names])
    # constraints as rows g.y = h
    planes = []
    for i in range(n):
        e = np.zeros(n)
        e[i] = 1.0
        planes.append((e, lo[i]))
        planes.append((e, hi[i]))
    if np.any(np.abs(bv) > 1e-12):
        planes.append((bv, cond_range[0] - d0))
        planes.append((bv, cond_range[1] - d0))
    best_lo, best_hi = None, None
    tol = 1e-7
    for combo in itertools.combinations(range(len(planes)), n):
        g = np.array([planes[i][0] for i in combo])
        h = np.array([planes[i][1] for i in combo])
        if abs(np.linalg.det(g)) < 1e-10:
            continue
        y = np.linalg.solve(g, h)
        if np.any(y < lo - tol) or np.any(y > hi + tol):
            continue
        cv = d0 + float(bv @ y)
        if cv < cond_range[0] - tol or cv > cond_range[1] + tol:
            continue
        v = c0 + float(av @ y)
        best_lo = v if best_lo is None else min(best_lo, v)
        best_hi = v if best_hi is None else max(best_hi, v)
    return None if best_lo is None else (best_lo, best_hi)
