"""Magnitude intervals of exact terms: log10 bounds of |term| when every symbol ranges over a given
positive interval.  Exact for power products (the case of every scale factor and unit-scaled constant
of the conversion kernels); sums are bounded above only (cancellation has no lower bound)."""

from __future__ import annotations

import math
from fractions import Fraction as F

from . import term as T
from .term import Rat

CONSTANTS = {'m_n': 1.67492749804e-27, 'h': 6.62607015e-34, 'hbar': 1.054571817e-34, 'pi': math.pi, 'm_e': 9.1093837015e-31,
             'e': 1.602176634e-19, 'k': 1.380649e-23, 'g': 9.80665, 'c': 299792458.0}
F32_MIN_NORMAL = math.log10(1.1754944e-38)
F32_MAX = math.log10(3.4028235e38)


class Unbounded(Exception):
    pass


def atom_interval(a, ranges):
    if a.kind == 'sym':
        if a.name in ranges:
            lo, hi = ranges[a.name]
            if lo <= 0:
                raise Unbounded(f'{a.name} is not positive')
            return math.log10(lo), math.log10(hi)
        if a.name in CONSTANTS:
            v = math.log10(CONSTANTS[a.name])
            return v, v
        raise Unbounded(f'no range for {a.name}')
    if a.kind == 'prime':
        v = math.log10(int(a.name))
        return v, v
    if a.kind == 'base':
        return interval(a.args[0], ranges)
    if a.kind == 'norm':
        v = T.A(a.args[0])
        key = f'|{v.name}|'
        if v.kind == 'vsym' and key in ranges:
            lo, hi = ranges[key]
            return math.log10(lo), math.log10(hi)
        raise Unbounded(f'no range for the length of {v.name}')
    if a.kind == 'fn' and a.name == 'abs' and isinstance(a.args[0], Rat):
        return interval(a.args[0], ranges)
    raise Unbounded(f'atom {T.show_atom(a)}')


def mono_interval(mono, coeff, ranges):
    if coeff == 0:
        raise Unbounded('zero')
    lo = hi = math.log10(abs(float(F(coeff))))
    for aid, e in mono:
        a_lo, a_hi = atom_interval(T.A(aid), ranges)
        e = float(F(e))
        lo += min(a_lo * e, a_hi * e)
        hi += max(a_lo * e, a_hi * e)
    return lo, hi


def poly_interval(p, ranges):
    """(lo, hi): lo is None for a sum (no lower bound under cancellation)."""
    items = list(p.items())
    if not items:
        raise Unbounded('zero')
    if len(items) == 1:
        return mono_interval(items[0][0], items[0][1], ranges)
    his = [mono_interval(m, c, ranges)[1] for m, c in items]
    return None, max(his) + math.log10(len(items))


def interval(r: Rat, ranges):
    n_lo, n_hi = poly_interval(r.num, ranges)
    if r.den is T.ONE_P:
        return n_lo, n_hi
    d_lo, d_hi = poly_interval(r.den, ranges)
    lo = None if n_lo is None or d_hi is None else n_lo - d_hi
    hi = None if d_lo is None else n_hi - d_lo
    return lo, hi
