"""Witness-guided symbolic interpretation.

Arrays are sequences of symbolic scalars ("items").  Every symbol has a witness value
(an exact Fraction); whenever the code compares two values, sorts, or takes a min/max, the
decision is taken at the witness point, while the values that flow to the result stay exact
symbolic terms.  One run therefore decides the behaviour for the whole class of inputs that
order their values like the witness does (values touched only through comparisons: a finite
set of order types), and the check enumerates witnesses covering the order types.
"""

from __future__ import annotations

from fractions import Fraction as F

from . import term as T
from .interp import AnalysisError, BoundModel, ExtRef, Interp, Opaque, RaiseSignal, SVar
from .scipp_model import Model, _bind, norm_dtype
from .term import Rat
from .units import DIMENSIONLESS, NO_UNIT, Unit, parse_unit


_NOUNIT = object()


def items_of(v):
    return v.members.get('items') if isinstance(v, SVar) else None


def rows_of(v):
    return v.members.get('rows') if isinstance(v, SVar) else None



def real_type(v):
    """dtype arguments spelled as Python / numpy types (float, np.int64, ...)"""
    import builtins

    import numpy as np
    if isinstance(v, ExtRef):
        mod, _, name = v.path.rpartition('.')
        if mod == 'builtins' and name in ('float', 'int', 'bool', 'complex'):
            return getattr(builtins, name)
        if mod == 'numpy' and isinstance(getattr(np, name, None), type):
            return getattr(np, name)
    return v


class WitnessModel(Model):
    def __init__(self, val: dict | None = None):
        super().__init__()
        self.val: dict = dict(val or {})
        self.val.setdefault('pi', F(355, 113))
        self.val.setdefault('m_n', F(1))
        self.val.setdefault('h', F(1))
        self.undecided: list = []
        self.symbolic_slices = True
        self.fns = {'nextafter_up': lambda x: x + F(1, 10 ** 15)}

    # ---- witness values ---------------------------------------------------------------
    def value(self, v):
        """Witness value of a scalar, or None."""
        if isinstance(v, bool | int | float | F):
            return F(v) if not isinstance(v, float) else F(repr(v))
        if isinstance(v, SVar):
            c = v.members.get('concrete')
            if isinstance(c, bool | int | float | F):
                return F(c) if not isinstance(c, float) else F(repr(c))
            if isinstance(v.term, Rat):
                try:
                    return T.evaluate(v.term, self.val, self.fns)
                except T.EvalError:
                    return None
        return None

    def const_bool(self, interp, b: bool) -> SVar:
        r = self.new(interp, Rat.const(int(b)), NO_UNIT, 'bool')
        r.members['concrete'] = bool(b)
        r.members['dims'] = []
        return r

    # ---- arrays of scalars ----------------------------------------------------------------
    def array(self, interp, items, dim: str, like: SVar | None = None) -> SVar:
        items = list(items)
        unit = items[0].unit if items else (like.unit if like is not None else DIMENSIONLESS)
        dtype = items[0].dtype if items else (like.dtype if like is not None else 'float64')
        r = self.new(interp, None, unit, dtype, why='array of symbolic scalars')
        r.members['items'] = items
        r.members['dims'] = [dim]
        return r

    def matrix(self, interp, rows, dim0: str, like: SVar | None = None, dim1: str | None = None) -> SVar:
        if not rows:  # a 2-d array without rows (an outer operation with an empty left operand)
            r = self.new(interp, None, like.unit if like is not None else DIMENSIONLESS, like.dtype if like is not None else 'float64',
                         why='empty 2-d array')
            r.members['rows'] = []
            r.members['dims'] = [dim0, dim1 or 'inner']
            return r
        r = self.new(interp, None, rows[0].unit, rows[0].dtype, why='2-d array of symbolic scalars')
        r.members['rows'] = list(rows)
        r.members['dims'] = [dim0, rows[0].members['dims'][0]]
        return r

    def _map(self, interp, v: SVar, f) -> SVar:
        if rows_of(v) is not None:
            return self.matrix(interp, [self._map(interp, r, f) for r in rows_of(v)], v.members['dims'][0])
        return self.array(interp, [f(x) for x in items_of(v)], v.members['dims'][0], like=v)

    # ---- attributes ---------------------------------------------------------------------------
    def var_attr(self, interp, v, attr, node):
        it, rw = items_of(v), rows_of(v)
        if it is not None or rw is not None:
            dims = v.members['dims']
            shape = (len(it),) if it is not None else (len(rw), len(items_of(rw[0])) if rw else 0)
            if attr == 'sizes':
                return dict(zip(dims, shape, strict=True))
            if attr == 'shape':
                return shape
            if attr == 'ndim':
                return len(dims)
            if attr == 'size':
                n = 1
                for k in shape:
                    n *= k
                return n
            if attr == 'dims':
                return tuple(dims)
            if attr == 'dim':
                if len(dims) != 1:
                    raise RaiseSignal('DimensionError', node, interp.where(node), ('dim of a non-1-d variable',))
                return dims[0]
            if attr == 'unit':
                return v.unit
            if attr == 'dtype':
                return v.dtype
            if attr == 'values':
                flat = self._flat(v)
                if flat and all('concrete' in x.members for x in flat) and it is not None:
                    return [x.members['concrete'] for x in it]  # a numpy array of plain numbers / strings
                r = self._map(interp, v, lambda x: self.raw(interp, x, node, 'value'))
                r.kind = 'raw'
                return r
            if attr == 'name':
                return v.members.get('name', '')
            if attr == 'value':
                raise RaiseSignal('DimensionError', node, interp.where(node), ('value of a non-scalar',))
            if attr == 'variances':
                if all('var' in x.members for x in self._flat(v)) and self._flat(v):
                    r = self._map(interp, v, lambda x: self.raw(interp, x.members['var'], node, 'value'))
                    r.kind = 'raw'
                    return r
                return None
            if attr == 'data':
                r = self.array(interp, it, dims[0], like=v) if it is not None else self.matrix(interp, rw, dims[0])
                r.view_of = v
                return r
            if attr == 'masks':
                return v.members.get('masks', {})
            if attr == 'bins':
                return None  # an array of scalars is dense data
            return BoundModel(v, attr)
        if 'concrete' in v.members and attr == 'value':
            return v.members['concrete']
        if attr in ('ndim', 'dims', 'sizes', 'shape', 'size') and v.members.get('dims') == []:
            return {'ndim': 0, 'dims': (), 'sizes': {}, 'shape': (), 'size': 1}[attr]
        r = super().var_attr(interp, v, attr, node)
        if attr in ('value', 'values') and isinstance(r, SVar) and v.members.get('dims') == []:
            r.members['dims'] = []  # the bare number of a 0-d variable is 0-d as well (size 1, shape ())
        return r

    def var_index(self, interp, v, key, node):
        it, rw = items_of(v), rows_of(v)
        if it is None and rw is None:
            return super().var_index(interp, v, key, node)
        dims = v.members['dims']
        if isinstance(key, tuple) and len(key) == 2 and isinstance(key[0], str):
            if key[0] not in dims:
                raise RaiseSignal('DimensionError', node, interp.where(node), (f'no dim {key[0]}',))
            axis, k = dims.index(key[0]), key[1]
        else:
            if len(dims) != 1:
                raise RaiseSignal('DimensionError', node, interp.where(node), ('positional index into a 2-d variable',))
            axis, k = 0, key
        if isinstance(k, SVar) and 'concrete' in k.members:
            k = k.members['concrete']
        if isinstance(k, SVar) and items_of(k) is not None and k.dtype == 'bool' and it is not None and rw is None:
            # boolean-variable indexing: the selected elements (a new array), coordinates along with them
            mask = [self._truth(x) for x in items_of(k)]
            if len(mask) != len(it):
                raise RaiseSignal('DimensionError', node, interp.where(node), ('boolean index of another length',))
            sel = [i for i, m_ in enumerate(mask) if m_]
            r = self.array(interp, [it[i] for i in sel], dims[0], like=v)
            if v.kind == 'dataarray':
                r.kind = 'dataarray'
                r.members['coords'] = {n: (self.array(interp, [items_of(c)[i] for i in sel], dims[0], like=c)
                                           if isinstance(c, SVar) and items_of(c) is not None and len(items_of(c)) == len(it) else c)
                                       for n, c in (v.members.get('coords') or {}).items()}
            return r
        if isinstance(k, slice) and any(isinstance(x, SVar) for x in (k.start, k.stop)):
            if rw is not None or k.step is not None:
                raise AnalysisError(f'label-based slice of a 2-d array at {interp.where(node)}')
            coord = (v.members.get('coords') or {}).get(dims[0])
            cit = items_of(coord) if isinstance(coord, SVar) else (it if v.kind != 'dataarray' else None)
            if cit is None:
                raise RaiseSignal('DimensionError', node, interp.where(node), (f'label-based slice needs a coordinate for {dims[0]}',))
            lo = self.value(k.start) if k.start is not None else None
            hi = self.value(k.stop) if k.stop is not None else None
            cv = [self.value(c) for c in cit]
            if any(x is None for x in cv) or (k.start is not None and lo is None) or (k.stop is not None and hi is None):
                raise AnalysisError(f'label-based slice without witness values at {interp.where(node)}')
            # scipp: for a sorted coordinate the half-open range lo <= x < hi
            begin = next((i for i, x in enumerate(cv) if lo is None or x >= lo), len(cv))
            end = next((i for i, x in enumerate(cv) if hi is not None and x >= hi), len(cv))
            k = slice(begin, max(begin, end))
        if rw is not None:
            if axis == 0:
                if isinstance(k, slice):
                    return self.matrix(interp, rw[k], dims[0])
                return self._pick(interp, rw, k, node)
            return self.matrix(interp, [self.var_index(interp, r, k, node) for r in rw], dims[0]) if isinstance(k, slice) else \
                self.array(interp, [self._pick(interp, items_of(r), k, node) for r in rw], dims[0], like=v)
        if isinstance(k, slice):
            r = self.array(interp, it[k], dims[0], like=v)
            r.view_of = v
            if v.kind == 'dataarray':
                r.kind = 'dataarray'
                r.members['coords'] = {n: (self.array(interp, items_of(c)[k], dims[0], like=c) if isinstance(c, SVar) and items_of(c) is not None and len(items_of(c)) == len(it) else c)
                                       for n, c in (v.members.get('coords') or {}).items()}
            return r
        if hasattr(k, 'tolist') and not isinstance(k, SVar):
            k = k.tolist()  # a numpy array of indices or flags
        if isinstance(k, list) and k and all(isinstance(b, bool) for b in k):
            return self.array(interp, [x for x, b in zip(it, k, strict=True) if b], dims[0], like=v)
        if isinstance(k, list) and all(isinstance(b, int) and not isinstance(b, bool) for b in k):
            try:
                return self.array(interp, [it[b] for b in k], dims[0], like=v)  # integer-array indexing: a new array
            except IndexError:
                raise RaiseSignal('IndexError', node, interp.where(node), ('index out of range',)) from None
        return self._pick(interp, it, k, node)

    def _pick(self, interp, seq, k, node):
        if isinstance(k, bool) or not isinstance(k, int):
            raise AnalysisError(f'index {k!r} into an array of symbolic scalars at {interp.where(node)}')
        if not -len(seq) <= k < len(seq):
            raise RaiseSignal('IndexError', node, interp.where(node), (f'index {k} out of range for length {len(seq)}',))
        return seq[k]

    # ---- arithmetic ------------------------------------------------------------------------------
    def _zip(self, interp, a, b, f, node):
        """Broadcast f over items."""
        ia, ib = items_of(a), items_of(b)
        ra, rb = rows_of(a), rows_of(b)
        if ra is not None or rb is not None:
            rows = ra if ra is not None else rb
            n = len(rows)
            other = b if ra is not None else a
            orow = rows_of(other)
            out = []
            for i in range(n):
                x = rows[i]
                y = orow[i] if orow is not None else other
                out.append(self._zip(interp, x, y, f, node) if ra is not None else self._zip(interp, y, x, f, node))
            return self.matrix(interp, out, (a if ra is not None else b).members['dims'][0])
        if ia is not None and ib is not None:
            da, db = a.members['dims'][0], b.members['dims'][0]
            if da != db:
                # outer product: rows follow the left operand
                return self.matrix(interp, [self._zip(interp, x, b, f, node) for x in ia], da, like=b, dim1=db)
            if len(ia) != len(ib):
                raise RaiseSignal('DimensionError', node, interp.where(node), (f'length mismatch {len(ia)} vs {len(ib)}',))
            return self.array(interp, [f(x, y) for x, y in zip(ia, ib, strict=True)], da, like=a if not ia else None)  # empty: keeps the unit / dtype of the left operand
        if ia is not None:
            return self.array(interp, [f(x, b) for x in ia], a.members['dims'][0], like=a)
        return self.array(interp, [f(a, y) for y in ib], b.members['dims'][0], like=b)

    @staticmethod
    def _is_arr(x):
        return items_of(x) is not None or rows_of(x) is not None

    def binop(self, interp, op, a, b, node, inplace=False):
        if op == 'matmul' and items_of(a) is not None and items_of(b) is not None:
            if len(items_of(a)) != len(items_of(b)):
                raise RaiseSignal('ValueError', node, interp.where(node), ('matmul: size mismatch',))
            total = None
            for x, y in zip(items_of(a), items_of(b), strict=True):
                p = super().binop(interp, 'mul', x, y, node)
                total = p if total is None else super().binop(interp, 'add', total, p, node)
            if total is not None:
                total.kind = 'raw'
                total.members['dims'] = []
            return total
        if self._is_arr(a) or self._is_arr(b):
            if op in ('and', 'or', 'xor'):
                pyf = {'and': lambda p, q: p and q, 'or': lambda p, q: p or q, 'xor': lambda p, q: p != q}[op]
                return self._zip(interp, a, b, lambda x, y: self.const_bool(interp, pyf(bool(self._truth(x)), bool(self._truth(y)))), node)
            r = self._zip(interp, a, b, lambda x, y: super(WitnessModel, self).binop(interp, op, x, y, node), node)
            if inplace and isinstance(a, SVar):
                interp.mutate(a, node, f'in-place {op}')
                if not self._is_arr(a):
                    raise RaiseSignal('DimensionError', node, interp.where(node), ('in-place operation would change the shape',))
                src, dst = self._flat(r), self._flat(a)
                if len(src) != len(dst):
                    raise RaiseSignal('DimensionError', node, interp.where(node), ('in-place operation would change the shape',))
                for d_, s_ in zip(dst, src, strict=True):
                    self._assign_item(d_, s_)  # views share the item objects: the write is seen through all of them
                a.unit = r.unit
                return a
            return r
        if op in ('and', 'or') and isinstance(a, SVar) and isinstance(b, SVar) and 'concrete' in a.members and 'concrete' in b.members:
            return self.const_bool(interp, (a.members['concrete'] and b.members['concrete']) if op == 'and' else (a.members['concrete'] or b.members['concrete']))
        return super().binop(interp, op, a, b, node, inplace)

    @staticmethod
    def _assign_item(dst: SVar, src: SVar):
        dst.term, dst.unit, dst.why = src.term, src.unit, src.why
        for k in ('concrete', 'var', 'xt'):
            if k in src.members:
                dst.members[k] = src.members[k]
            else:
                dst.members.pop(k, None)

    def clone_item(self, interp, x: SVar) -> SVar:
        r = self.new(interp, x.term, x.unit, x.dtype, x.taint, x.why)
        r.kind = x.kind
        r.members.update({k: v for k, v in x.members.items() if k in ('concrete', 'var', 'dims', 'xt')})
        return r

    def _truth(self, x):
        if isinstance(x, SVar):
            if 'concrete' in x.members:
                return x.members['concrete']
            if isinstance(x.term, Rat) and not x.term.atoms():
                return T.evaluate(x.term, {}, self.fns) != 0  # a constant
            raise AnalysisError(f'truth value of {x!r} is not decided by the witness')
        return bool(x)

    def unop(self, interp, op, v, node):
        if self._is_arr(v):
            return self._map(interp, v, lambda x: self.unop(interp, op, x, node))
        if op == 'Invert' and 'concrete' in v.members:
            return self.const_bool(interp, not v.members['concrete'])
        return super().unop(interp, op, v, node)

    def compare(self, interp, sym, a, b, node):
        if self._is_arr(a) or self._is_arr(b):
            return self._zip(interp, a if isinstance(a, SVar) else self.lift(interp, a), b if isinstance(b, SVar) else self.lift(interp, b),
                             lambda x, y: self.compare(interp, sym, x, y, node), node)
        va, vb = self.value(a), self.value(b)
        if va is None or vb is None:
            self.undecided.append((interp.where(node), sym))
            return super().compare(interp, sym, a, b, node)
        ua = a.unit if isinstance(a, SVar) else None
        ub = b.unit if isinstance(b, SVar) else None
        if ua is not None and ub is not None and ua != ub and isinstance(a, SVar) and isinstance(b, SVar):
            try:
                same_dim = ua.dim(interp.param_dims) == ub.dim(interp.param_dims)
            except Exception:  # noqa: BLE001
                same_dim = True
            if not same_dim:
                raise RaiseSignal('UnitError', node, interp.where(node), (f'comparison of {ua!r} with {ub!r}',))
        r = {'<': va < vb, '<=': va <= vb, '>': va > vb, '>=': va >= vb, '==': va == vb, '!=': va != vb}[sym]
        return self.const_bool(interp, r)

    # ---- methods ---------------------------------------------------------------------------------------
    def call_method(self, interp, recv, name, args, kwargs, node):
        if isinstance(recv, BoundModel) and recv.name == 'coords' and name == 'is_edges' and isinstance(recv.recv, SVar) and self._is_arr(recv.recv) \
                and args and isinstance(args[0], str):
            # a coordinate is bin edges along a dimension iff it is one longer than the data
            recv = recv.recv
            c = (recv.members.get('coords') or {}).get(args[0])
            if c is None:
                raise RaiseSignal('KeyError', node, interp.where(node), (args[0],))
            n_c = len(items_of(c)) if isinstance(c, SVar) and items_of(c) is not None else None
            n_d = len(items_of(recv)) if items_of(recv) is not None else None
            if n_c is not None and n_d is not None:
                return n_c == n_d + 1
        if isinstance(recv, SVar) and self._is_arr(recv):
            if name == 'copy':
                deep = kwargs.get('deep', args[0] if args else True)
                r = self._map(interp, recv, lambda x: self.clone_item(interp, x)) if deep else \
                    (self.array(interp, items_of(recv), recv.members['dims'][0], like=recv) if items_of(recv) is not None else self.matrix(interp, rows_of(recv), recv.members['dims'][0]))
                r.kind = recv.kind
                if recv.kind == 'dataarray':
                    r.members['coords'] = dict(recv.members.get('coords') or {})
                    if deep:
                        r.members['coords'] = {n: (self._map(interp, c, lambda x: self.clone_item(interp, x)) if isinstance(c, SVar) and self._is_arr(c) else c)
                                               for n, c in r.members['coords'].items()}
                if not deep:
                    r.view_of = recv
                return r
            if name in ('to', 'astype'):
                if kwargs.get('copy') is False:
                    # scipp hands out the array itself when neither the unit nor the dtype changes
                    want_u = kwargs.get('unit', None)
                    want_u = parse_unit(want_u) if isinstance(want_u, str) else want_u
                    want_d = kwargs.get('dtype', args[0] if (args and name == 'astype') else None)
                    want_d = norm_dtype(want_d) if want_d is not None else None
                    if (want_u is None or (isinstance(want_u, Unit) and recv.unit == want_u)) and (want_d is None or want_d == recv.dtype):
                        return recv
                return self._map(interp, recv, lambda x: super(WitnessModel, self).call_method(interp, x, name, args, kwargs, node))
            if name in ('flatten',):
                to = kwargs.get('to')
                if rows_of(recv) is not None:
                    want = kwargs.get('dims')
                    if want is not None and [d for d in want] != list(recv.members['dims']) and not all(a is b or a == b for a, b in zip(want, recv.members['dims'], strict=False)):
                        raise RaiseSignal('DimensionError', node, interp.where(node), ('flatten: dims are not contiguous in this order',))
                    flat = [x for r in rows_of(recv) for x in items_of(r)]
                    return self.array(interp, flat, to or 'flat', like=recv)
                return self.array(interp, items_of(recv), to or recv.members['dims'][0], like=recv)
            if name in ('rename_dims', 'rename'):
                m = args[0] if args else kwargs
                r = self.array(interp, items_of(recv), m.get(recv.members['dims'][0], recv.members['dims'][0]), like=recv)
                return r
            if name in ('min', 'max'):
                return self._extreme(interp, recv, name, node)
            if name in ('any', 'all'):
                bools = [self._truth(x) for x in self._flat(recv)]
                return self.const_bool(interp, any(bools) if name == 'any' else all(bools))
            if name == 'transpose':
                want = kwargs.get('dims', args[0] if args else None)
                dims = recv.members['dims']
                if rows_of(recv) is None or want is None and len(dims) == 1:
                    return recv
                want = list(reversed(dims)) if want is None else list(want)
                same = lambda a, b: a is b or (isinstance(a, str) and isinstance(b, str) and a == b)  # noqa: E731
                if len(want) != 2 or not ((same(want[0], dims[0]) and same(want[1], dims[1])) or (same(want[0], dims[1]) and same(want[1], dims[0]))):
                    raise RaiseSignal('DimensionError', node, interp.where(node), ('transpose: dims do not match',))
                if same(want[0], dims[0]):
                    return recv
                rows = rows_of(recv)
                n_in = len(items_of(rows[0])) if rows else 0
                cols = [self.array(interp, [items_of(r)[j] for r in rows], dims[0], like=recv) for j in range(n_in)]
                m = self.matrix(interp, cols, dims[1]) if cols else recv
                return m
            if name == 'sum':
                total = None
                for x in self._flat(recv):
                    total = x if total is None else super().binop(interp, 'add', total, x, node)
                return total
            if name == 'mean' and self._flat(recv):
                total = None
                for x in self._flat(recv):
                    total = x if total is None else super().binop(interp, 'add', total, x, node)
                return super().binop(interp, 'div', total, len(self._flat(recv)), node)
            if name in ('argmin', 'argmax'):
                # index of the first extreme element (numpy's rule for ties), decided at the witness
                def first_extreme(items):
                    vals = [self.value(x) for x in items]
                    if not vals or any(v is None for v in vals):
                        raise AnalysisError(f'{name} of values without a witness at {interp.where(node)}')
                    best = 0
                    for i_, v_ in enumerate(vals):
                        if (name == 'argmin' and v_ < vals[best]) or (name == 'argmax' and v_ > vals[best]):
                            best = i_
                    return best
                if rows_of(recv) is not None:
                    import numpy as np
                    if kwargs.get('axis', args[0] if args else None) in (-1, 1):
                        return np.array([first_extreme(items_of(r)) for r in rows_of(recv)], dtype=np.int64)
                    raise AnalysisError(f'{name} of a 2-d array along axis {kwargs.get("axis")} at {interp.where(node)}')
                return first_extreme(items_of(recv))
            raise AnalysisError(f'method {name} on an array of symbolic scalars at {interp.where(node)}')
        if isinstance(recv, SVar) and name in ('min', 'max', 'any', 'all') and recv.members.get('dims') == []:
            return recv
        if isinstance(recv, SVar) and name in ('flatten', 'broadcast') and not self._is_arr(recv) and ('to' in kwargs):
            return self.array(interp, [recv], kwargs['to'], like=recv)
        return super().call_method(interp, recv, name, args, kwargs, node)

    def var_setattr(self, interp, obj, attr, val, node):
        if attr == 'data' and isinstance(val, SVar) and self._is_arr(val):
            for k in ('items', 'rows'):
                obj.members.pop(k, None)
            obj.members.update({k: v for k, v in val.members.items() if k in ('items', 'rows')})
            obj.members['dims'] = list(val.members['dims'])
        elif attr == 'data':
            raise AnalysisError(f'.data assigned from {val!r} at {interp.where(node)}')

    def var_store(self, interp, obj, key, val, node):
        if not self._is_arr(obj):
            return
        target = self.var_index(interp, obj, key, node)
        dst = self._flat(target) if isinstance(target, SVar) and self._is_arr(target) else [target]
        if isinstance(val, SVar) and self._is_arr(val):
            src = self._flat(val)
            if len(src) != len(dst):
                raise RaiseSignal('DimensionError', node, interp.where(node), (f'cannot store {len(src)} values into {len(dst)} elements',))
        else:
            src = [self.lift(interp, val)] * len(dst)
        for d_, s_ in zip(dst, src, strict=True):
            if s_.kind == 'raw' and isinstance(s_.term, Rat) and d_.unit is not None:
                # bare numbers written into a variable are taken in its unit
                conv = self.new(interp, s_.term * d_.unit.scale(), d_.unit, d_.dtype)
                self._assign_item(d_, conv)
            else:
                if s_.unit is not None and d_.unit is not None and s_.unit != d_.unit and d_.term is not None:
                    raise RaiseSignal('UnitError', node, interp.where(node), (f'store of {s_.unit!r} into {d_.unit!r}',))
                self._assign_item(d_, s_)

    def sc_where(self, interp, args, kwargs, node):
        a = _bind(['condition', 'x', 'y'], args, kwargs, {})
        c, x, y = a['condition'], a['x'], a['y']
        if isinstance(c, SVar) and (self._is_arr(c) or 'concrete' in c.members):
            if self._is_arr(c):
                if rows_of(c) is not None:
                    rows = []
                    for i, rc in enumerate(rows_of(c)):
                        xi = rows_of(x)[i] if isinstance(x, SVar) and rows_of(x) is not None else x
                        yi = rows_of(y)[i] if isinstance(y, SVar) and rows_of(y) is not None else y
                        rows.append(self.sc_where(interp, [rc, xi, yi], {}, node))
                    return self.matrix(interp, rows, c.members['dims'][0])
                out = []
                for i, ci in enumerate(items_of(c)):
                    xi = items_of(x)[i] if isinstance(x, SVar) and items_of(x) is not None else x
                    yi = items_of(y)[i] if isinstance(y, SVar) and items_of(y) is not None else y
                    out.append(self.sc_where(interp, [ci, xi, yi], {}, node))
                return self.array(interp, out, c.members['dims'][0])
            chosen = x if self._truth(c) else y
            other = y if self._truth(c) else x
            cu, ou = getattr(chosen, 'unit', None), getattr(other, 'unit', None)
            if cu is not None and ou is not None and cu != ou:
                interp.event('unit-mismatch', node, op='where', left=repr(cu), right=repr(ou))
            chosen = self.lift(interp, chosen)
            return self.clone_item(interp, chosen) if not self._is_arr(chosen) else chosen
        return super().sc_where(interp, args, kwargs, node)

    def sc_values(self, interp, args, kwargs, node):
        x = args[0]
        r = super().sc_values(interp, args, kwargs, node)
        if isinstance(x, SVar) and isinstance(r, SVar):
            r.members['dims'] = x.members.get('dims', [])
        return r

    def sc_variances(self, interp, args, kwargs, node):
        x = args[0]
        if isinstance(x, SVar) and isinstance(x.members.get('var'), SVar):
            return x.members['var']
        return super().sc_variances(interp, args, kwargs, node)

    def sc_stddevs(self, interp, args, kwargs, node):
        x = args[0]
        if isinstance(x, SVar) and isinstance(x.members.get('var'), SVar) and isinstance(x.members['var'].term, Rat):
            r = self.new(interp, T.sqrt(x.members['var'].term), x.unit, x.dtype)
            r.members['dims'] = []
            return r
        return super().sc_stddevs(interp, args, kwargs, node)

    def sc_issorted(self, interp, args, kwargs, node):
        x = args[0]
        if isinstance(x, SVar) and items_of(x) is not None:
            vals = [self.value(i) for i in items_of(x)]
            if all(v is not None for v in vals):
                order = kwargs.get('order', args[2] if len(args) > 2 else 'ascending')
                ok = all(a <= b for a, b in zip(vals, vals[1:], strict=False)) if order == 'ascending' else all(a >= b for a, b in zip(vals, vals[1:], strict=False))
                return ok
        return super().sc_issorted(interp, args, kwargs, node)

    def sc_empty(self, interp, args, kwargs, node):
        sizes = kwargs.get('sizes')
        if sizes is None and 'dims' in kwargs and 'shape' in kwargs:
            sizes = dict(zip(kwargs['dims'], kwargs['shape'], strict=True))
        if isinstance(sizes, dict) and all(isinstance(n, int) for n in sizes.values()) and 1 <= len(sizes) <= 2:
            unit = self._unit_arg(interp, kwargs.get('unit'), node) if 'unit' in kwargs else DIMENSIONLESS
            dims = list(sizes)

            def cell():
                c = self.new(interp, None, unit, kwargs.get('dtype') or 'float64', why='uninitialised element')
                c.members['dims'] = []
                return c
            if len(dims) == 1:
                return self.array(interp, [cell() for _ in range(sizes[dims[0]])], dims[0])
            return self.matrix(interp, [self.array(interp, [cell() for _ in range(sizes[dims[1]])], dims[1]) for _ in range(sizes[dims[0]])], dims[0])
        return super().sc_empty(interp, args, kwargs, node)

    sc_zeros = sc_empty

    def _flat(self, v):
        if rows_of(v) is not None:
            return [x for r in rows_of(v) for x in items_of(r)]
        return list(items_of(v))

    def _extreme(self, interp, v, name, node):
        xs = self._flat(v)
        if not xs:
            raise RaiseSignal('ValueError', node, interp.where(node), ('reduction of an empty array',))
        vals = [self.value(x) for x in xs]
        if any(x is None for x in vals):
            raise AnalysisError(f'{name}() of values without witness at {interp.where(node)}')
        best = 0
        for i, x in enumerate(vals):
            if (name == 'min' and x < vals[best]) or (name == 'max' and x > vals[best]):
                best = i
        return xs[best]

    # ---- functions ----------------------------------------------------------------------------------------
    def sc_concat(self, interp, args, kwargs, node):
        a = _bind(['x', 'dim'], args, kwargs, {})
        parts = interp.iterate(a['x'], node)
        dim = a['dim']
        if all(isinstance(p, SVar) and (self._is_arr(p) or p.members.get('dims') == [] or isinstance(p.term, Rat)) for p in parts) and parts:
            if any(rows_of(p) is not None for p in parts):
                raise AnalysisError(f'concat of 2-d arrays at {interp.where(node)}')
            if all(items_of(p) is not None and p.members['dims'][0] != dim for p in parts):
                return self.matrix(interp, parts, dim)
            flat = []
            for p in parts:
                flat.extend(items_of(p) if items_of(p) is not None else [p])
            return self.array(interp, flat, dim, like=parts[0])
        return super().sc_concat(interp, args, kwargs, node)

    def sc_identical(self, interp, args, kwargs, node):
        """Same dims, unit, dtype and values: decided at the witness (the same object is identical to itself)."""
        a, b = (list(args) + [None, None])[:2]
        if not (isinstance(a, SVar) and isinstance(b, SVar)):
            return super().sc_identical(interp, args, kwargs, node)
        if a is b:
            return True

        def same(p, q):
            if p.unit != q.unit or (p.dtype or 'float64') != (q.dtype or 'float64'):
                return False
            vp, vq = self.value(p), self.value(q)
            if vp is None or vq is None:
                return None
            return vp == vq
        fa, fb = (self._flat(a) if self._is_arr(a) else [a]), (self._flat(b) if self._is_arr(b) else [b])
        if self._is_arr(a) != self._is_arr(b) or len(fa) != len(fb) or (self._is_arr(a) and a.members.get('dims') != b.members.get('dims')):
            return False
        verdicts = [same(p, q) for p, q in zip(fa, fb, strict=True)]
        if any(v is False for v in verdicts):
            return False
        if any(v is None for v in verdicts):
            self.undecided.append((interp.where(node), 'identical'))
            return super().sc_identical(interp, args, kwargs, node)
        return True

    def sc_allclose(self, interp, args, kwargs, node):
        r = self.sc_isclose(interp, args, kwargs, node)
        if isinstance(r, SVar) and (self._is_arr(r) or 'concrete' in r.members):
            flat = self._flat(r) if self._is_arr(r) else [r]
            if all('concrete' in x.members for x in flat):
                return all(bool(x.members['concrete']) for x in flat)
        return super().sc_allclose(interp, args, kwargs, node)

    def sc_isclose(self, interp, args, kwargs, node):
        """|x - y| <= atol + rtol * |y| decided at the witness (scipp's defaults: rtol = 1e-5, atol = 1e-8 in the unit of y)."""
        a = _bind(['x', 'y', 'rtol', 'atol', 'equal_nan'], args, kwargs, {'rtol': None, 'atol': None, 'equal_nan': False})
        x, y, rtol, atol = a['x'], a['y'], a['rtol'], a['atol']
        if not (isinstance(x, SVar) and isinstance(y, SVar)):
            return super().sc_isclose(interp, args, kwargs, node)

        def one(p, q, at):
            vp, vq = self.value(p), self.value(q)
            vr = F(1, 10 ** 5) if rtol is None else self.value(rtol)
            if at is None:
                va = F(1, 10 ** 8) * (T.evaluate(q.unit.scale(), self.val, self.fns) if q.unit is not None else 1)
            else:
                va = self.value(at)
            if None in (vp, vq, vr, va):
                self.undecided.append((interp.where(node), 'isclose'))
                return super(WitnessModel, self).sc_isclose(interp, [p, q], {'rtol': rtol, 'atol': at}, node)
            return self.const_bool(interp, abs(vp - vq) <= va + vr * abs(vq))
        if self._is_arr(x) or self._is_arr(y):
            if isinstance(atol, SVar) and self._is_arr(atol):
                ix, iy, ia = items_of(x), items_of(y), items_of(atol)
                if ix is not None and iy is not None and ia is not None and len(ix) == len(iy) == len(ia):
                    return self.array(interp, [one(p, q, t_) for p, q, t_ in zip(ix, iy, ia, strict=True)], x.members['dims'][0])
                raise AnalysisError(f'isclose with an array tolerance of another shape at {interp.where(node)}')
            return self._zip(interp, x, y, lambda p, q: one(p, q, atol), node)
        return one(x, y, atol)

    def sc_cumsum(self, interp, args, kwargs, node):
        x = args[0] if args else kwargs.get('a')
        if isinstance(x, SVar) and items_of(x) is not None and kwargs.get('mode', 'inclusive') == 'inclusive':
            out, acc = [], None
            for it in items_of(x):
                if 'concrete' in it.members and (acc is None or 'concrete' in acc.members):
                    c = int(it.members['concrete']) + (int(acc.members['concrete']) if acc is not None else 0)
                    acc = self.new(interp, Rat.const(c), it.unit, 'int64' if it.dtype in ('bool', 'int64', 'int32') else it.dtype)
                    acc.members['concrete'] = c
                    acc.members['dims'] = []
                else:
                    acc = it if acc is None else self.binop(interp, 'add', acc, it, node)
                out.append(acc)
            return self.array(interp, out, x.members['dims'][0], like=x)
        return super().sc_cumsum(interp, args, kwargs, node)

    def sc_sort(self, interp, args, kwargs, node):
        a = _bind(['x', 'key', 'order'], args, kwargs, {'order': 'ascending'})
        x, key = a['x'], a['key']
        if not isinstance(x, SVar) or not self._is_arr(x):
            return super().sc_sort(interp, args, kwargs, node)
        if isinstance(key, str):
            if rows_of(x) is not None:
                raise AnalysisError(f'sort of a 2-d array along a named dim at {interp.where(node)}')
            key = x
        kitems = items_of(key)
        vals = [self.value(k) for k in kitems]
        if any(v is None for v in vals):
            raise AnalysisError(f'sort key without witness at {interp.where(node)}')
        order = sorted(range(len(vals)), key=lambda i: vals[i], reverse=(a['order'] == 'descending'))
        if rows_of(x) is not None:
            return self.matrix(interp, [self.array(interp, [items_of(r)[i] for i in order], r.members['dims'][0], like=r) for r in rows_of(x)],
                               x.members['dims'][0])
        return self.array(interp, [items_of(x)[i] for i in order], x.members['dims'][0], like=x)

    def sc_any(self, interp, args, kwargs, node):
        x = args[0]
        if isinstance(x, SVar) and (self._is_arr(x) or 'concrete' in x.members):
            bools = [self._truth(i) for i in self._flat(x)] if self._is_arr(x) else [self._truth(x)]
            return self.const_bool(interp, any(bools))
        return super().sc_any(interp, args, kwargs, node)

    def sc_all(self, interp, args, kwargs, node):
        x = args[0]
        if isinstance(x, SVar) and (self._is_arr(x) or 'concrete' in x.members):
            bools = [self._truth(i) for i in self._flat(x)] if self._is_arr(x) else [self._truth(x)]
            return self.const_bool(interp, all(bools))
        return super().sc_all(interp, args, kwargs, node)

    def _elementwise(self, interp, name, args, kwargs, node):
        if args and isinstance(args[0], SVar) and self._is_arr(args[0]) and len(args) == 1:
            return self._map(interp, args[0], lambda x: super(WitnessModel, self)._elementwise(interp, name, [x], kwargs, node))
        return super()._elementwise(interp, name, args, kwargs, node)

    def sc_norm(self, interp, args, kwargs, node):
        return super().sc_norm(interp, args, kwargs, node)

    def sc_scalar(self, interp, args, kwargs, node):
        r = super().sc_scalar(interp, args, kwargs, node)
        r.members['dims'] = []
        return r

    def sc_vector(self, interp, args, kwargs, node):
        r = super().sc_vector(interp, args, kwargs, node)
        r.members['dims'] = []
        return r

    def _convert(self, interp, v, unit, dtype, copy, node, what):
        r = super()._convert(interp, v, unit, dtype, copy, node, what)
        # scipp converts an integer variable to another unit in integer arithmetic: the new magnitude is rounded to an integer.
        # At a witness the rounded number is known (2 Hz/s is 0 Hz/ms).
        from .scipp_model import INTS
        if isinstance(r, SVar) and isinstance(v, SVar) and v.dtype in INTS and r.dtype in INTS and isinstance(v.unit, Unit) and isinstance(r.unit, Unit) \
                and v.unit != r.unit and not v.unit.param_syms() and not r.unit.param_syms() and items_of(v) is None and isinstance(v.term, Rat):
            si = self.value(v)
            try:
                scale = T.evaluate(r.unit.scale(), self.val, self.fns)
            except T.EvalError:
                scale = None
            if si is not None and scale:
                mag = F(si) / F(scale)
                rounded = F(round(mag))
                if rounded != mag:
                    r.term = Rat.const(rounded) * r.unit.scale()
                    r.why = ''
                    r.members['concrete'] = int(rounded) if 'concrete' in v.members else r.members.get('concrete')
                    if r.members.get('concrete') is None:
                        r.members.pop('concrete', None)
        return r

    def sc_array(self, interp, args, kwargs, node):
        vals = kwargs.get('values')
        if type(vals).__module__ == 'numpy' and getattr(vals, 'ndim', None) == 1 and vals.dtype.kind in 'biuf':
            # a concrete numpy array (folded index arithmetic): its elements are plain numbers
            kwargs = {**kwargs, 'values': vals.tolist()}
            if kwargs.get('dtype') is None:
                kwargs['dtype'] = {'b': 'bool', 'i': 'int64', 'u': 'int64', 'f': 'float64'}[vals.dtype.kind] if vals.dtype.itemsize == 8 or vals.dtype.kind == 'b' \
                    else str(vals.dtype)
            vals = kwargs['values']
        if isinstance(vals, SVar) and items_of(vals) is not None:
            dims = kwargs.get('dims')
            dim = dims[0] if isinstance(dims, list | tuple) and dims else vals.members['dims'][0]
            items = [super(WitnessModel, self).sc_scalar(interp, [x], {'unit': kwargs.get('unit', _NOUNIT)} if 'unit' in kwargs else {}, node) for x in items_of(vals)]
            for it_ in items:
                it_.members['dims'] = []
            return self.array(interp, items, dim)
        dims = kwargs.get('dims')
        if isinstance(vals, list | tuple) and isinstance(dims, list | tuple) and len(dims) == 1 \
                and all(isinstance(x, bool | int | float | F) for x in vals) and kwargs.get('variances') is None:
            # an array of plain numbers: concrete elements
            unit = self._unit_arg(interp, kwargs.get('unit', DIMENSIONLESS), node) if 'unit' in kwargs else DIMENSIONLESS
            dt = norm_dtype(kwargs.get('dtype')) if kwargs.get('dtype') is not None else \
                ('bool' if all(isinstance(x, bool) for x in vals) and vals else ('int64' if all(isinstance(x, int) for x in vals) and vals else 'float64'))
            items = []
            for x in vals:
                it_ = self.new(interp, Rat.const(F(repr(x)) if isinstance(x, float) else F(int(x)) if isinstance(x, bool) else F(x)), unit, dt)
                it_.members['concrete'] = x
                it_.members['dims'] = []
                items.append(it_)
            r = self.array(interp, items, dims[0])
            if not items:
                r.unit, r.dtype = unit, dt
            return r
        r = super().sc_array(interp, args, kwargs, node)
        if isinstance(vals, SVar) and vals.members.get('dims') == [] and not kwargs.get('dims'):
            r.members['dims'] = []
        return r

    def sc_vectors(self, interp, args, kwargs, node):
        vals = kwargs.get('values')
        if isinstance(vals, SVar) and rows_of(vals) is not None:
            unit = self._unit_arg(interp, kwargs.get('unit'), node) if 'unit' in kwargs else DIMENSIONLESS
            rows = rows_of(vals)
            if any(len(items_of(r)) != 3 for r in rows):
                raise RaiseSignal('DimensionError', node, interp.where(node), ('vectors need rows of 3 components',))
            items = []
            for r in rows:
                comps = items_of(r)
                if not all(isinstance(c.term, Rat) for c in comps):
                    raise AnalysisError(f'vector component unknown at {interp.where(node)}')
                v = self.new(interp, T.as_vectors(*[c.term for c in comps]) * unit.scale(), unit, 'vector3')
                v.members['dims'] = []
                items.append(v)
            dims = kwargs.get('dims') or ['vectors']
            return self.array(interp, items, dims[0])
        return super().sc_vectors(interp, args, kwargs, node)

    def sc_DataArray(self, interp, args, kwargs, node):
        data = args[0] if args else kwargs.get('data')
        if isinstance(data, SVar) and self._is_arr(data):
            r = self.new(interp, None, data.unit, data.dtype, why='data array of symbolic scalars')
            r.kind = 'dataarray'
            r.members.update({k: v for k, v in data.members.items() if k in ('items', 'rows', 'dims')})
            co = kwargs.get('coords') or {}
            if isinstance(co, BoundModel) and isinstance(co.recv, SVar):
                co = co.recv.members.get('coords') or {}
            r.members['coords'] = dict(co)
            return r
        return super().sc_DataArray(interp, args, kwargs, node)

    def sc_arange(self, interp, args, kwargs, node):
        nums = [x for x in args[1:]]
        if args and nums and all(isinstance(x, int) and not isinstance(x, bool) for x in nums) and len(nums) <= 3:
            unit = self._unit_arg(interp, kwargs.get('unit', None) if 'unit' in kwargs else 'dimensionless', node)
            items = []
            for k in range(*nums):
                it = self.new(interp, Rat.const(k) * unit.scale(), unit, kwargs.get('dtype') or 'int64')
                it.members['dims'] = []
                items.append(it)
            r = self.array(interp, items, args[0])
            r.unit, r.dtype = unit, kwargs.get('dtype') or 'int64'
            return r
        return super().sc_arange(interp, args, kwargs, node)

    LIFTED = {'norm', 'dot', 'cross', 'exp', 'sqrt', 'abs', 'sin', 'cos', 'tan', 'asin', 'acos', 'atan', 'atan2', 'where', 'reciprocal',
              'log', 'to_unit', 'isfinite', 'isnan', 'round', 'values', 'variances', 'stddevs'}

    # pure numpy functions of concrete data (numbers, lists, arrays without abstract elements): evaluated by numpy itself
    _NUMPY_CONCRETE = {'flatnonzero', 'nonzero', 'argsort', 'sort', 'arange', 'cumsum', 'diff', 'array', 'asarray', 'concatenate', 'where', 'unique',
                       'searchsorted', 'repeat', 'tile', 'zeros', 'ones', 'full', 'empty', 'logical_and', 'logical_or', 'logical_not', 'any', 'all',
                       'count_nonzero', 'argmax', 'argmin', 'append', 'insert', 'delete', 'roll', 'flip', 'maximum', 'minimum', 'add', 'subtract'}

    def _concrete_flags(self, x):
        """python values of an array whose elements are all decided (flags, integers), else None"""
        if isinstance(x, SVar) and items_of(x) is not None and all('concrete' in i.members for i in items_of(x)):
            return [i.members['concrete'] for i in items_of(x)]
        if isinstance(x, SVar) and items_of(x) is None and rows_of(x) is None:
            if isinstance(x.members.get('concrete'), bool | int | float):
                return x.members['concrete']  # a decided 0-d value
            if x.dtype == 'bool' and isinstance(x.term, Rat):
                v = self.value(x)
                if v is not None:
                    return bool(v)
        return None

    def ext_index(self, interp, path, key, node):
        if path in ('numpy.r_', 'numpy.c_'):
            import numpy as np
            parts = list(key) if isinstance(key, tuple) else [key]
            conc = [self._concrete_flags(p) if isinstance(p, SVar) else p for p in parts]
            if all(c is not None and not isinstance(c, SVar | Opaque) for c in conc):
                return np.r_[tuple(conc)] if path.endswith('r_') else np.c_[tuple(conc)]
        sup = getattr(super(), 'ext_index', None)
        if sup is not None:
            return sup(interp, path, key, node)
        raise AnalysisError(f'subscript of {path} at {interp.where(node)}')

    def call_ext(self, interp, path, args, kwargs, node):
        if path.startswith('numpy.') and path.split('.')[-1] in self._NUMPY_CONCRETE and len(path.split('.')) == 2:
            import numpy as np
            fname = path.split('.')[-1]
            if fname in ('argsort', 'argmax', 'argmin') and args and isinstance(args[0], SVar) and items_of(args[0]) is not None:
                vals = [self.value(x) for x in items_of(args[0])]
                if all(v is not None for v in vals):
                    if fname == 'argsort':
                        return np.array(sorted(range(len(vals)), key=lambda i: vals[i]), dtype=np.int64)  # stable
                    return int(max(range(len(vals)), key=lambda i: (vals[i] if fname == 'argmax' else -vals[i], -i))) if vals else \
                        (_ for _ in ()).throw(RaiseSignal('ValueError', node, interp.where(node), ('attempt to get argmax of an empty sequence',)))
            if fname == 'searchsorted' and len(args) >= 2 and isinstance(args[0], SVar) and items_of(args[0]) is not None and isinstance(args[1], SVar | int | float | F) \
                    and not (isinstance(args[1], SVar) and items_of(args[1]) is not None):
                # bisection in a sorted array, decided at the witness: the index is a concrete integer
                vals = [self.value(x) for x in items_of(args[0])]
                key = self.value(args[1])
                side = kwargs.get('side', args[2] if len(args) > 2 else 'left')
                if all(v is not None for v in vals) and key is not None and side in ('left', 'right'):
                    import bisect
                    return (bisect.bisect_left if side == 'left' else bisect.bisect_right)(vals, key)
            conc = [self._concrete_flags(a) if isinstance(a, SVar) else a for a in args]
            if all(c is not None and not isinstance(c, SVar | Opaque) for c in conc) and not any(isinstance(v, SVar | Opaque) for v in kwargs.values()) and args:
                try:
                    return getattr(np, fname)(*conc, **{k: real_type(v) for k, v in kwargs.items()})
                except (ValueError, TypeError) as ex:
                    raise RaiseSignal(type(ex).__name__, node, interp.where(node), (str(ex),)) from None
        mod, _, name = path.rpartition('.')
        if mod in ('scipp', 'scipp.spatial') and name in self.LIFTED and any(self._is_arr(a) for a in list(args) + list(kwargs.values()) if isinstance(a, SVar)):
            arrs = [a for a in list(args) + list(kwargs.values()) if isinstance(a, SVar) and self._is_arr(a)]
            if any(rows_of(a) is not None for a in arrs):
                m0 = next(a for a in arrs if rows_of(a) is not None)
                rows = []
                for i in range(len(rows_of(m0))):
                    pa = [rows_of(a)[i] if isinstance(a, SVar) and rows_of(a) is not None else a for a in args]
                    ka = {k: (rows_of(a)[i] if isinstance(a, SVar) and rows_of(a) is not None else a) for k, a in kwargs.items()}
                    rows.append(self.call_ext(interp, path, pa, ka, node))
                return self.matrix(interp, rows, m0.members['dims'][0])
            n = len(items_of(arrs[0]))
            if any(len(items_of(a)) != n for a in arrs):
                raise RaiseSignal('DimensionError', node, interp.where(node), ('length mismatch',))
            out = []
            for i in range(n):
                pa = [items_of(a)[i] if isinstance(a, SVar) and self._is_arr(a) else a for a in args]
                ka = {k: (items_of(a)[i] if isinstance(a, SVar) and self._is_arr(a) else a) for k, a in kwargs.items()}
                out.append(super().call_ext(interp, path, pa, ka, node))
            return self.array(interp, out, arrs[0].members['dims'][0])
        if mod in ('scipp',) and name in ('sum', 'min', 'max', 'mean', 'any', 'all') and args and isinstance(args[0], SVar) and self._is_arr(args[0]) \
                and name not in ('any', 'all'):
            return self.call_method(interp, args[0], name, list(args[1:]), kwargs, node)
        if path in ('numpy.ceil', 'numpy.floor', 'math.ceil', 'math.floor') and len(args) == 1 and isinstance(args[0], SVar) \
                and items_of(args[0]) is None and isinstance(args[0].term, Rat):
            x = args[0]
            r = self.new(interp, Rat.fn(path.split('.')[-1], x.term), x.unit, 'int64' if path.startswith('math.') else x.dtype, x.taint, x.why)
            r.kind = x.kind
            r.members['dims'] = []
            return r
        if path in ('numpy.argmin', 'numpy.argmax') and args and isinstance(args[0], SVar) and items_of(args[0]) is not None:
            vals = [self.value(x) for x in items_of(args[0])]
            if any(v is None for v in vals) or not vals:
                raise AnalysisError(f'{path} without witness values at {interp.where(node)}')
            return vals.index(min(vals) if path.endswith('argmin') else max(vals))
        if path == 'numpy.nextafter' and len(args) == 2 and isinstance(args[0], SVar):
            x, to = args
            up = isinstance(to, float) and to == float('inf')

            def nxt(i):
                t = Rat.fn('nextafter_up' if up else 'nextafter_other', i.term) if isinstance(i.term, Rat) else None
                r = self.new(interp, t, i.unit, i.dtype, i.taint, i.why)
                r.kind = 'raw'
                r.members['dims'] = []
                return r
            if self._is_arr(x):
                r = self._map(interp, x, nxt)
                r.kind = 'raw'
                return r
            return nxt(x)
        if path == 'numpy.nextafter' and len(args) == 2 and isinstance(args[0], int | float) and isinstance(args[1], SVar):
            # the neighbour of a plain number towards each element of an array: a constant per element (decided at the witness)
            import math as _math
            x0, to = float(args[0]), args[1]

            def const_towards(i):
                v = self.value(i)
                if v is None:
                    raise AnalysisError(f'numpy.nextafter towards a value without witness at {interp.where(node)}')
                c = _math.nextafter(x0, float(v))
                r = self.new(interp, Rat.const(F(repr(c))) if _math.isfinite(c) else None, i.unit, 'float64')
                r.kind = 'raw'
                r.members['dims'] = []
                if _math.isfinite(c):
                    r.members['concrete'] = c
                return r
            if self._is_arr(to):
                r = self._map(interp, to, const_towards)
                r.kind = 'raw'
                return r
            return const_towards(to)
        if path == 'itertools.product' and all(isinstance(a, list | tuple) for a in args) and not kwargs:
            import itertools
            from .interp import GenResult
            return GenResult(itertools.product(*args))  # a one-shot iterator
        if path == 'operator.attrgetter' and len(args) == 1 and isinstance(args[0], str):
            return _AttrGetter(args[0])
        if path == 'operator.itemgetter' and len(args) == 1:
            return _ItemGetter(args[0])
        return super().call_ext(interp, path, args, kwargs, node)

    def _builtin(self, interp, name, args, kwargs, node):
        if name == 'len' and args and isinstance(args[0], SVar) and self._is_arr(args[0]):
            return len(items_of(args[0])) if items_of(args[0]) is not None else len(rows_of(args[0]))
        if name == 'bool' and args and isinstance(args[0], SVar) and 'concrete' in args[0].members:
            return bool(args[0].members['concrete'])
        if name in ('round', 'int') and len(args) == 1 and isinstance(args[0], SVar) and not self._is_arr(args[0]) \
                and (args[0].kind in ('raw', 'pyfloat') or args[0].unit in (DIMENSIONLESS, NO_UNIT)) and self.value(args[0]) is not None:
            # a count derived from the data: decided at the witness
            v = self.value(args[0])
            return round(v) if name == 'round' else int(v)
        if name in ('sorted', 'min', 'max') and args and (kwargs.get('key') is not None or name == 'sorted'):
            seq = interp.iterate(args[0], node)
            key = kwargs.get('key')
            keys = [interp.call(key, [x], {}, node) if key is not None else x for x in seq]
            vals = [self.value(k) if isinstance(k, SVar | int | float | F) else None for k in keys]
            if all(v is not None for v in vals) and seq:
                if len({repr(k.unit) for k in keys if isinstance(k, SVar)}) > 1:
                    raise RaiseSignal('UnitError', node, interp.where(node), ('comparison of different units while sorting',))
                order = sorted(range(len(seq)), key=lambda i: vals[i], reverse=bool(kwargs.get('reverse', False)))
                if name == 'sorted':
                    return [seq[i] for i in order]
                best = min(vals) if name == 'min' else max(vals)
                return seq[vals.index(best)]  # python returns the first extreme element
        if name in ('min', 'max') and len(args) >= 2 and all(isinstance(a, SVar | int | float) for a in args):
            vals = [self.value(a) for a in args]
            if all(v is not None for v in vals):
                i = vals.index(min(vals) if name == 'min' else max(vals))
                return args[i]
        return super()._builtin(interp, name, args, kwargs, node)


class _AttrGetter:
    def __init__(self, name):
        self.name = name


class _ItemGetter:
    def __init__(self, key):
        self.key = key


class WitnessInterp(Interp):
    MAX_DEPTH = 30

    def truth(self, v, node):
        if isinstance(v, SVar) and 'concrete' in v.members:
            return bool(v.members['concrete'])
        if isinstance(v, SVar) and items_of(v) is not None:
            raise RaiseSignal('DimensionError', node, self.where(node), ('truth value of an array',))
        return super().truth(v, node)

    def iterate(self, v, node):
        if isinstance(v, SVar) and items_of(v) is not None:
            return list(items_of(v))
        if isinstance(v, SVar) and rows_of(v) is not None:
            return list(rows_of(v))
        return super().iterate(v, node)

    def call(self, fn, args, kwargs, node):
        if isinstance(fn, _AttrGetter):
            return self.getattr(args[0], fn.name, node)
        if isinstance(fn, _ItemGetter):
            return self.subscript(args[0], fn.key, node)
        return super().call(fn, args, kwargs, node)

    def compare(self, op, a, b, node):
        import ast as _ast
        if isinstance(op, _ast.Eq | _ast.NotEq) and isinstance(a, bool) and isinstance(b, SVar) and 'concrete' in b.members:
            r = a == bool(b.members['concrete'])
            return r if isinstance(op, _ast.Eq) else not r
        return super().compare(op, a, b, node)


def sym_scalar(interp, model: WitnessModel, name: str, unit: Unit, value, dtype='float64', positive=False) -> SVar:
    """A symbolic scalar `name` (physical quantity, SI term) with witness `value` expressed in `unit`."""
    t = Rat.sym(name, positive=positive)
    v = SVar(t, unit, dtype, origin=name)
    v.members['dims'] = []
    # the term is the physical (SI) value: witness = value * scale(unit)
    model.val[name] = F(value) * T.evaluate(unit.scale(), model.val)
    return interp.track(v)
