"""Transfer functions for the scipp / numpy / math / builtin names the kernels use.

This table is the trusted base of the abstract interpreter (DESIGN.md 2.3).
dtype promotion rows were measured once on the installed scipp 25.4
(notes/dtype_table.txt); alias rows are from notes/witnesses/t12.py.
"""

from __future__ import annotations

import ast
import math
from fractions import Fraction as F

from . import term as T
from .interp import (
    AnalysisError,
    BoundModel,
    ClassRef,
    EnumMember,
    ExcValue,
    ExtRef,
    FuncRef,
    GenResult,
    Lambda,
    Opaque,
    RaiseSignal,
    SObj,
    SVar,
)
from . import magdomain as MD
from .term import Mat, Rat, Vec
from .units import DIMENSIONLESS, NO_UNIT, Unit, UnitError, parse_unit

FLOATS = ('float64', 'float32')
INTS = ('int64', 'int32')
NUMERIC = FLOATS + INTS

REDUCTIONS = {'min', 'max', 'sum', 'mean', 'any', 'all', 'nanmin', 'nanmax', 'nansum', 'nanmean',
              'median', 'std', 'var'}
SHAPE_VIEWS = {'flatten', 'transpose', 'broadcast', 'rename_dims', 'fold', 'squeeze', 'rename'}
DIM_ATTRS = {'dims', 'dim', 'sizes', 'shape', 'ndim', 'size'}
_MappingProxy = type(type.__dict__)  # types.MappingProxyType
EXC_NAMES = {'DimensionError', 'UnitError', 'DTypeError', 'CoordError', 'VariancesError',
             'BinEdgeError', 'VariableError', 'DatasetError'}


def promote(op: str, a: str, b: str) -> str:
    """Result dtype of a binary arithmetic op (measured table)."""
    if a in ('vector3', 'linear_transform3') or b in ('vector3', 'linear_transform3'):
        if op == 'mul' and a == 'linear_transform3' and b == 'vector3':
            return 'vector3'
        if a == 'linear_transform3' or b == 'linear_transform3':
            if op == 'mul':
                return 'linear_transform3' if a == b or b in NUMERIC or a in NUMERIC else 'vector3'
            raise _DTypeError(op, a, b)
        if op in ('add', 'sub') and a == b:
            return 'vector3'
        if op in ('mul', 'div') and (a in NUMERIC or b in NUMERIC) and not (op == 'div' and b == 'vector3'):
            return 'vector3'
        raise _DTypeError(op, a, b)
    if a == 'datetime64' or b == 'datetime64':
        if a == b and op == 'sub':
            return 'int64'
        if op in ('add', 'sub') and (a in INTS or b in INTS):
            return 'datetime64'
        raise _DTypeError(op, a, b)
    if a == 'bool' or b == 'bool':
        if op in ('and', 'or', 'xor') and a == b:
            return 'bool'
        raise _DTypeError(op, a, b)
    if a not in NUMERIC or b not in NUMERIC:
        raise _DTypeError(op, a, b)
    if op == 'pow':
        if a in FLOATS:
            return a
        if b in FLOATS:
            return b
        if a == 'int32':
            raise _DTypeError(op, a, b)
        return 'int64'
    if 'float64' in (a, b):
        return 'float64'
    if 'float32' in (a, b):
        return 'float32'
    if op == 'div':
        return 'float64'
    if op in ('mod', 'floordiv'):
        return 'int64' if 'int64' in (a, b) else 'int32'
    return 'int64' if 'int64' in (a, b) else 'int32'


class _DTypeError(Exception):
    def __init__(self, op, a, b):
        super().__init__(f"'{op}' does not support dtypes {a}, {b}")


def norm_dtype(d) -> str | None:
    if d is None:
        return None
    if isinstance(d, str):
        d = d.strip()
        return {'float': 'float64', 'int': 'int64', 'double': 'float64'}.get(d, d)
    if isinstance(d, ExtRef):
        last = d.path.split('.')[-1]
        return {'float': 'float64', 'int': 'int64', 'float_': 'float64'}.get(last, last)
    if isinstance(d, Opaque):
        return None
    raise AnalysisError(f'cannot interpret dtype {d!r}')


def py_dtype(v) -> str:
    if isinstance(v, bool):
        return 'bool'
    if isinstance(v, int):
        return 'int64'
    if isinstance(v, float):
        return 'float64'
    if isinstance(v, str):
        return 'string'
    raise AnalysisError(f'no dtype for python value {v!r}')


import operator as _operator  # noqa: E402

_PURE_TEXT_FUNCTIONS = {'textwrap.fill', 'textwrap.wrap', 'textwrap.dedent', 'textwrap.indent', 'textwrap.shorten'}

# numpy.finfo of the two IEEE formats (python floats: the interpreter lifts them like literals)
_FINFO = {
    'float32': {'eps': 2.0 ** -23, 'max': 3.4028234663852886e38, 'min': -3.4028234663852886e38, 'tiny': 1.1754943508222875e-38,
                'smallest_normal': 1.1754943508222875e-38, 'smallest_subnormal': 1.401298464324817e-45, 'bits': 32, 'resolution': 1e-6},
    'float64': {'eps': 2.0 ** -52, 'max': 1.7976931348623157e308, 'min': -1.7976931348623157e308, 'tiny': 2.2250738585072014e-308,
                'smallest_normal': 2.2250738585072014e-308, 'smallest_subnormal': 5e-324, 'bits': 64, 'resolution': 1e-15},
}


class _PyCallable:
    """A callable built by the model (operator.methodcaller and the like); called through the vp_call protocol."""

    def __init__(self, fn):
        self.fn = fn

    def vp_call(self, interp, args, kwargs, node):
        return self.fn(*args, **kwargs)


_OPERATOR_BINARY = {'add': ('add', _operator.add), 'sub': ('sub', _operator.sub), 'mul': ('mul', _operator.mul),
                    'truediv': ('div', _operator.truediv), 'pow': ('pow', _operator.pow), 'mod': ('mod', _operator.mod),
                    'floordiv': ('floordiv', _operator.floordiv), 'and_': ('and', _operator.and_), 'or_': ('or', _operator.or_),
                    'xor': ('xor', _operator.xor), 'matmul': ('matmul', _operator.matmul)}


class Model:
    def __init__(self, const_syms: dict | None = None):
        self.binned_mode = False

    # ------------------------------------------------------------------
    def new(self, interp, term, unit, dtype, taint=False, why='') -> SVar:
        v = interp.track(SVar(term, unit, dtype, taint=taint, why=why))
        if self.narrow_log is not None and dtype == 'float32' and term is not None:
            # every single-precision intermediate, for the magnitude analysis (sa/magnitude.py)
            self.narrow_log.append((v, interp.where(interp.cur_node) if interp.cur_node is not None else '?'))
        return v

    narrow_log = None
    mag_log = None  # [(mag, where, text)] of single-precision values with a known magnitude interval

    def set_mag(self, interp, r: SVar, mag):
        r.mag = mag
        if self.mag_log is not None and mag is not None and r.dtype == 'float32':
            self.mag_log.append((mag, interp.where(interp.cur_node) if interp.cur_node is not None else '?', r.term, r.unit))
        return r

    _seq = 0

    def hist(self, r: SVar, op: str, *operands) -> SVar:
        """Record one floating-point operation in the provenance of r."""
        Model._seq += 1
        h = {(Model._seq, op, r.dtype)}
        for o in operands:
            if isinstance(o, SVar):
                h |= o.hist
        r.hist = frozenset(h)
        return r

    def lift(self, interp, v):
        """Python scalar -> anonymous SVar (dimensionless)."""
        if isinstance(v, SVar):
            return v
        if isinstance(v, bool | int | float):
            r = SVar(Rat.const(v) if not isinstance(v, bool) else Rat.const(int(v)),
                     DIMENSIONLESS, py_dtype(v))
            r.kind = 'pyfloat'
            r.mag = MD.const_mag(v)
            return r
        if isinstance(v, F):
            r = SVar(Rat.const(v), DIMENSIONLESS, 'float64')
            r.kind = 'pyfloat'
            r.mag = MD.const_mag(v)
            return r
        if isinstance(v, Opaque):
            return SVar(None, None, None, why=v.why)
        raise AnalysisError(f'cannot lift {v!r} to a scipp value')

    def raw(self, interp, x: SVar, node, attr: str = 'values') -> SVar:
        """x.value / x.values: the bare number(s) in x's unit."""
        t = None
        if isinstance(x.term, Rat | Vec) and x.unit is not None:
            t = x.term / x.unit.scale()
        dt = 'float64' if x.dtype in ('vector3', 'linear_transform3') else x.dtype
        r = self.new(interp, t, DIMENSIONLESS, dt, taint=x.taint, why=x.why or 'raw value')
        r.kind = 'raw'
        r.view_of = x
        r.members['raw_of_unit'] = x.unit
        r.members['is_array'] = attr != 'value'
        r.members['was_vector'] = isinstance(x.term, Vec)
        interp.event('raw-value', node, unit=repr(x.unit), tainted=x.taint,
                     params=sorted(x.unit.param_syms()) if x.unit else [])
        return r

    def var_setattr(self, interp, obj: SVar, attr: str, val, node):
        """x.values = ..., x.unit = ..., da.data = ...: the abstract value follows the store (never ignored)."""
        if attr in ('values', 'value'):
            if isinstance(val, SVar) and isinstance(val.term, Rat | Vec) and obj.unit is not None and val.kind == 'raw':
                obj.term = val.term * obj.unit.scale()
                obj.why = ''
            else:
                obj.term, obj.why = None, f'.{attr} overwritten with a value the analysis does not know'
            return
        if attr == 'unit':
            new = parse_unit(val) if isinstance(val, str) else val
            if isinstance(new, Unit) and obj.unit is not None and isinstance(obj.term, Rat | Vec):
                obj.term = obj.term / obj.unit.scale() * new.scale()
            elif isinstance(new, Unit) and obj.unit is not None and isinstance(obj.term, Mat):
                obj.term = obj.term.__rmul__(new.scale() / obj.unit.scale())  # the same numbers under another unit
            else:
                obj.term = None
            obj.unit = new if isinstance(new, Unit) else None
            return
        if attr == 'data' and isinstance(val, SVar):
            obj.term, obj.unit, obj.dtype, obj.why = val.term, val.unit, val.dtype, val.why
            return
        if attr in ('variances', 'variance'):
            return
        obj.term, obj.why = None, f'.{attr} overwritten'

    # ------------------------------------------------------------------
    # constants and attributes of external modules
    def ext_attr(self, interp, path: str, node):
        if path.startswith('scipp.constants.') or path.startswith('scipp.constants.'):
            name = path.split('.')[-1]
            return self.constant(interp, name, node)
        if path.startswith('scipp.units.'):
            name = path.split('.')[-1]
            return Unit.named(name)
        if path.startswith('scipp.DType.'):
            return norm_dtype(path.split('.')[-1])
        if path in ('numpy.float32', 'numpy.float64', 'numpy.int32', 'numpy.int64'):
            return path.split('.')[-1]
        if path in ('numpy.pi', 'math.pi'):
            return self.pyfloat(interp, Rat.sym('pi', positive=True))
        if path in ('numpy.nan', 'math.nan'):
            return float('nan')
        if path in ('numpy.inf', 'math.inf'):
            return float('inf')
        if path in ('numpy.e', 'math.e'):
            return math.e
        if path.startswith('sys.float_info.'):
            import sys
            v = getattr(sys.float_info, path.split('.')[-1], None)
            if isinstance(v, int | float):
                return v
        if path == 'sys.maxsize':
            return 2 ** 63 - 1
        return ExtRef(path)

    CONSTS = {
        # name: (unit, dtype); the term is the symbol itself
        'h': Unit({'J': 1, 's': 1}),
        'hbar': Unit({'J': 1, 's': 1}),
        'm_n': Unit({'kg': 1}),
        'm_e': Unit({'kg': 1}),
        'm_p': Unit({'kg': 1}),
        'g': Unit({'m': 1, 's': -2}),
        'c': Unit({'m': 1, 's': -1}),
        'k': Unit({'J': 1, 'K': -1}),
        'e': Unit({'J': 1, 'eV': -1}),
        'N_A': Unit({}),
        'pi': DIMENSIONLESS,
    }

    def pyfloat(self, interp, term) -> SVar:
        v = self.new(interp, term, DIMENSIONLESS, 'float64')
        v.kind = 'pyfloat'
        return v

    def constant(self, interp, name: str, node) -> SVar:
        if name not in self.CONSTS:
            raise AnalysisError(f'unknown scipp constant {name} at {interp.where(node)}')
        v = self.new(interp, Rat.sym(name, positive=True), self.CONSTS[name], 'float64')
        v.kind = 'constant'
        v.members['dims'] = []  # scipp.constants are 0-d float64 variables without variances
        v.members['no_variances'] = True
        from .magnitude import CONSTANTS
        if name in CONSTANTS:
            v.mag = MD.const_mag(CONSTANTS[name])  # scipp.constants are expressed in SI units
        return v

    # ------------------------------------------------------------------
    def binop(self, interp, op: str, a, b, node, inplace: bool = False):
        r = self._binop(interp, op, a, b, node, inplace)
        # what is known about the shape of the operands carries over: two 0-d operands give a 0-d result, operands without
        # variances give a result without
        if isinstance(r, SVar) and r is not a and (isinstance(a, SVar) or isinstance(b, SVar)):
            def scalar(x):
                return isinstance(x, bool | int | float | F) or (isinstance(x, SVar) and x.members.get('dims') == [] and items_of_none(x))

            def plain(x):
                return isinstance(x, bool | int | float | F) or (isinstance(x, SVar) and x.members.get('no_variances') is True)
            if scalar(a) and scalar(b) and 'dims' not in r.members:
                r.members['dims'] = []
            if plain(a) and plain(b):
                r.members['no_variances'] = True
        return r

    def _binop(self, interp, op: str, a, b, node, inplace: bool = False):
        # unit algebra
        if isinstance(a, Unit) and isinstance(b, Unit):
            if op == 'mul':
                return a * b
            if op == 'div':
                return a / b
            raise AnalysisError(f'unit op {op} at {interp.where(node)}')
        if isinstance(a, Unit) and op == 'pow':
            if isinstance(b, int | float | F):
                return a ** F(b)
            raise AnalysisError(f'unit ** non-constant at {interp.where(node)}')
        if isinstance(a, Unit) or isinstance(b, Unit):
            u, x, left = (a, b, True) if isinstance(a, Unit) else (b, a, False)
            if isinstance(x, int | float) and not isinstance(x, bool):
                if op == 'mul':
                    return self.new(interp, Rat.const(x) * u.scale(), u, py_dtype(x) if isinstance(x, float) else 'int64')
                if op == 'div':
                    uu = u ** -1 if left is False else u
                    if left:  # unit / number
                        return self.new(interp, u.scale() / Rat.const(x), u, 'float64')
                    return self.new(interp, Rat.const(x) / u.scale(), uu, 'float64')
            if isinstance(x, SVar):
                unit_var = SVar(u.scale(), u, None)
                if left:
                    return self._arith(interp, op, unit_var, x, node, False, unit_only=0)
                return self._arith(interp, op, x, unit_var, node, inplace, unit_only=1)
            raise AnalysisError(f'unit {op} {x!r} at {interp.where(node)}')
        if isinstance(a, Opaque) or isinstance(b, Opaque):
            x = a if isinstance(a, SVar) else b
            why = (a.why if isinstance(a, Opaque) else b.why)
            if inplace and isinstance(a, SVar):
                interp.mutate(a, node, f'in-place {op}')
                a.term, a.why = None, why
                return a
            return self.new(interp, None, None, None, taint=getattr(x, 'taint', False), why=why)
        if not isinstance(a, SVar | int | float | F) or not isinstance(b, SVar | int | float | F):
            raise AnalysisError(f'{op} of {type(a).__name__} and {type(b).__name__} at {interp.where(node)}')
        return self._arith(interp, op, self.lift(interp, a), self.lift(interp, b), node, inplace)

    def _arith(self, interp, op, a: SVar, b: SVar, node, inplace, unit_only=None):
        # ---- term
        term, why = None, ''
        ta, tb = a.term, b.term
        if ta is None or tb is None:
            why = a.why or b.why or 'operand unknown'
        elif _term_size(ta) * _term_size(tb) > TERM_BUDGET or max(_term_size(ta), _term_size(tb)) > TERM_SIZE_LIMIT:
            # exact arithmetic on normal forms this large does not finish in useful time (it does not occur on the code as it is:
            # the largest product there is ~10^3); the value becomes unknown instead
            why = f'exact term too large ({_term_size(ta)} x {_term_size(tb)} monomials)'
            interp.event('term-budget', node, sizes=(_term_size(ta), _term_size(tb)))
        else:
            try:
                term = self._term_op(op, ta, tb)
            except (TypeError, ZeroDivisionError, ValueError) as ex:
                why = f'{op}: {ex}'
        # ---- unit
        unit = None
        ua, ub = a.unit, b.unit
        if ua is not None and ub is not None:
            if op == 'mul' or op == 'matmul':
                unit = ua * ub
            elif op == 'div':
                unit = ua / ub
            elif op in ('add', 'sub', 'mod', 'floordiv'):
                if ua != ub:
                    interp.event('unit-mismatch', node, op=op, left=repr(ua), right=repr(ub),
                                 stmt=_text(node))
                unit = ua
            elif op == 'pow':
                e = tb.as_const() if isinstance(tb, Rat) else None
                if e is None:
                    if ua == DIMENSIONLESS:
                        unit = ua
                    else:
                        why = why or 'pow with symbolic exponent'
                else:
                    unit = ua ** e
                if ub != DIMENSIONLESS:
                    interp.event('unit-mismatch', node, op='pow exponent', left=repr(ua), right=repr(ub), stmt=_text(node))
            elif op in ('and', 'or', 'xor'):
                unit = ua
        # ---- dtype
        dtype = None
        da, db = a.dtype, b.dtype
        if unit_only is not None:
            dtype = a.dtype if unit_only == 1 else b.dtype
        elif da is not None and db is not None:
            try:
                dtype = promote(op, da, db)
            except _DTypeError as ex:
                raise RaiseSignal('DTypeError', node, interp.where(node) + f' [{ex}]') from None
        taint = a.taint or b.taint
        if op == 'pow' and self.binned_mode and a.taint and a.dtype in INTS and b.dtype in FLOATS and unit_only is None:
            # measured (scipp 25.4): binned integer events ** float exponent has no kernel, the dense operation has
            raise RaiseSignal('DTypeError', node, interp.where(node) + " ['pow' does not support binned integer data with a float exponent]")
        if inplace:
            if dtype is not None and a.dtype is not None:
                if a.dtype in INTS and dtype in FLOATS:
                    raise RaiseSignal('DTypeError', node, interp.where(node) + ' [in-place float into int]')
                dtype = a.dtype
            interp.mutate(a, node, f'in-place {op}')
            old = SVar(None, None, None)
            old.hist = a.hist
            amag = a.mag
            a.term, a.unit, a.dtype, a.why = term, unit, dtype, why
            a.taint = taint
            self.set_mag(interp, a, amag if unit_only is not None else MD.arith(op, amag, b.mag, dtype, tb.as_const() if op == 'pow' and isinstance(tb, Rat) else None))
            return self.hist(a, op, old, b) if unit_only is None else a
        r = self.new(interp, term, unit, dtype, taint=taint, why=why)
        if a.kind == 'pyfloat' and b.kind == 'pyfloat':
            r.kind = 'pyfloat'
        if unit_only is not None:
            r.hist = (a if unit_only == 1 else b).hist
            r.mag = (a if unit_only == 1 else b).mag  # a number times a unit: the number is unchanged
            return r
        self.set_mag(interp, r, MD.arith(op, a.mag, b.mag, dtype, tb.as_const() if op == 'pow' and isinstance(tb, Rat) else None))
        return self.hist(r, op, a, b)

    @staticmethod
    def _term_op(op, ta, tb):
        if op == 'add':
            return ta + tb
        if op == 'sub':
            return ta - tb
        if op in ('mul', 'matmul'):
            if isinstance(ta, Vec) and isinstance(tb, Vec):
                raise TypeError('vector * vector')
            if isinstance(ta, Vec) and isinstance(tb, Mat):
                raise TypeError('vector * matrix')
            if isinstance(ta, Rat) and isinstance(tb, Mat):
                return tb.__rmul__(ta)
            return ta * tb
        if op == 'div':
            if isinstance(tb, Vec | Mat):
                raise TypeError('division by vector/matrix')
            return ta / tb
        if op == 'pow':
            e = tb.as_const() if isinstance(tb, Rat) else None
            if e is None or not isinstance(ta, Rat):
                raise TypeError('pow with symbolic exponent')
            return ta ** e
        if op in ('and', 'or', 'xor'):
            return T.fn_bool(op, ta, tb)
        if op == 'mod':
            return Rat.fn('mod', ta, tb)
        if op == 'floordiv':
            return Rat.fn('floordiv', ta, tb)
        raise TypeError(f'op {op}')

    def unop(self, interp, op: str, v: SVar, node):
        if op == 'USub':
            t = -v.term if v.term is not None else None
            r = self.new(interp, t, v.unit, v.dtype, v.taint, v.why)
            r.hist = v.hist
            r.mag = v.mag
            return r
        if op == 'UAdd':
            r = self.new(interp, v.term, v.unit, v.dtype, v.taint, v.why)
            r.hist, r.mag = v.hist, v.mag
            return r
        if op == 'Invert':
            t = T.fn_not(v.term) if isinstance(v.term, Rat) else None
            r = self.new(interp, t, v.unit, v.dtype, v.taint, v.why)
            r.hist = v.hist
            return r
        raise AnalysisError(f'unary {op} at {interp.where(node)}')

    def compare(self, interp, sym: str, a, b, node):
        if isinstance(a, Opaque) or isinstance(b, Opaque):
            return Opaque(f'{sym} on ⊤')
        if a is None or b is None:
            return sym == '!='
        if isinstance(a, str) or isinstance(b, str):
            # dtype comparison: concrete
            return Opaque('compare variable with string')
        if not isinstance(a, SVar | int | float) or not isinstance(b, SVar | int | float):
            return Opaque(f'{sym} on mixed values')
        a, b = self.lift(interp, a), self.lift(interp, b)
        if a.unit is not None and b.unit is not None and a.unit != b.unit:
            interp.event('unit-mismatch', node, op=sym, left=repr(a.unit), right=repr(b.unit), stmt=_text(node))
        t = None
        if isinstance(a.term, Rat) and isinstance(b.term, Rat):
            t = T.fn_cmp(sym, a.term, b.term)
        r = self.new(interp, t, DIMENSIONLESS, 'bool', a.taint or b.taint, a.why or b.why)
        r.hist = a.hist | b.hist  # which floating-point results were compared (no rounding of its own)
        return r

    def unit_eq(self, interp, a, b, node):
        if isinstance(a, Unit) and isinstance(b, Unit):
            if a == b:
                return True
            if a.param_syms() or b.param_syms():
                return Opaque('unit equality depends on input units')
            return False
        if a is None or b is None:
            return a is b  # a unit is not None (a variable without unit has unit None)
        if isinstance(a, str):
            a = parse_unit(a)
        if isinstance(b, str):
            b = parse_unit(b)
        if isinstance(a, Unit) and isinstance(b, Unit):
            return self.unit_eq(interp, a, b, node)
        return Opaque('unit ==')

    # ------------------------------------------------------------------
    def var_attr(self, interp, v: SVar, attr: str, node):
        if attr == 'unit':
            if self.binned_mode and v.taint:
                interp.event('binned-unsafe-access', node, attr='unit', stmt=_text(node))
            if v.unit == NO_UNIT:
                return None
            return v.unit if v.unit is not None else Opaque('unit of ⊤')
        if attr == 'dtype':
            if self.binned_mode and v.taint:
                interp.event('binned-unsafe-access', node, attr='dtype', stmt=_text(node))
            return v.dtype if v.dtype is not None else Opaque('dtype of ⊤')
        if attr == 'bins':
            if self.binned_mode and v.taint:
                return BoundModel(v, 'bins')
            return None
        if attr in ('value', 'values'):
            if self.binned_mode and v.taint:
                interp.event('binned-unsafe-access', node, attr=attr, stmt=_text(node))
            return self.raw(interp, v, node, attr)
        if attr in ('variance', 'variances'):
            if v.members.get('no_variances') is True:
                return None
            r = self.new(interp, None, v.unit ** 2 if v.unit else None, v.dtype, v.taint, 'variances')
            r.view_of = v
            return r
        if attr == 'fields':
            return BoundModel(v, 'fields')
        if attr == 'ndim' and 'dims' in v.members:
            return len(v.members['dims'])
        if attr == 'shape' and v.kind == 'raw' and v.members.get('was_vector'):
            return (3,)
        if attr in DIM_ATTRS:
            if v.taint and attr in ('size', 'shape', 'sizes'):
                interp.event('shape-of-tainted', node, attr=attr, stmt=_text(node))
                return Opaque(f'{attr} of variable', shape_of_events=True)
            return Opaque(f'{attr} of variable')
        if attr in ('coords', 'masks', 'attrs', 'meta', 'deprecated_attrs'):
            return BoundModel(v, attr)
        if attr == 'data':
            r = self.new(interp, v.term, v.unit, v.dtype, v.taint, v.why)
            r.view_of = v
            return r
        if attr == 'T':
            r = self.new(interp, v.term, v.unit, v.dtype, v.taint, v.why)
            r.view_of = v
            return r
        if attr == 'name':
            return Opaque('name')
        return BoundModel(v, attr)

    def var_iter(self, interp, v: SVar, node):
        """Iterating the value of one vector (tuple(x.values), a loop over x.value): its three numbers."""
        if v.kind == 'raw' and isinstance(v.term, Vec):
            return self.call_method(interp, v, 'tolist', [], {}, node)
        return None

    def misc_attr(self, interp, obj, attr: str, node):
        if isinstance(obj, BoundModel):
            v = obj.recv
            if obj.name == 'fields' and attr in ('x', 'y', 'z') and isinstance(v, SVar):
                t = T.comp(v.term, attr) if isinstance(v.term, Vec) else None
                r = self.new(interp, t, v.unit, 'float64', v.taint, v.why or 'fields of non-vector')
                r.view_of = v
                return r
            if obj.name == 'bins' and isinstance(v, SVar):
                if attr == 'unit':
                    return v.unit
                if attr == 'constituents':
                    begin = self.new(interp, None, NO_UNIT, 'int64', v.taint, 'bins begin')
                    end = self.new(interp, None, NO_UNIT, 'int64', v.taint, 'bins end')
                    return {'data': _Constituent(v), 'dim': Opaque('dim of the event buffer'), 'begin': begin, 'end': end}
                if attr in ('coords', 'data', 'masks'):
                    return BoundModel(v, 'bins.' + attr)
                return BoundModel(v, 'bins.' + attr)
            return BoundModel(obj, attr)
        if isinstance(obj, Unit):
            return BoundModel(obj, attr)
        raise AnalysisError(f'attribute {attr} at {interp.where(node)}')

    def var_index(self, interp, v: SVar, key, node):
        if v.taint:
            interp.event('index-of-tainted', node, stmt=_text(node))
        keyname = repr(key) if not isinstance(key, Opaque | SVar) else '?'
        t = None
        if isinstance(v.term, Rat):
            t = Rat.fn('index', v.term, Rat.sym('key:' + keyname))
        r = self.new(interp, t, v.unit, v.dtype, v.taint, v.why or 'indexing')
        r.view_of = v
        if isinstance(key, SVar) and isinstance(key.term, Rat):
            r.members['index_key'] = key.term
        return r

    def bound_store(self, interp, obj: BoundModel, key, val, node):
        """da.coords[name] = value (also masks / attrs): the abstract object follows the store."""
        v = obj.recv
        if isinstance(v, SVar) and obj.name in ('coords', 'masks', 'attrs', 'meta', 'bins.coords') and not isinstance(key, Opaque | SVar):
            v.members.setdefault(obj.name, {})[key] = val

    def bound_index(self, interp, obj: BoundModel, key, node):
        v = obj.recv
        if isinstance(v, SVar) and obj.name in ('coords', 'masks', 'attrs', 'meta', 'bins.coords'):
            members = v.members.setdefault(obj.name, {})
            if not isinstance(key, Opaque | SVar) and key in members:
                return members[key]
            if '*' in members:
                return members['*']
            r = self.new(interp, None, None, None, v.taint, f'{obj.name}[{key!r}]')
            r.view_of = v
            return r
        return Opaque(f'{obj.name}[...]')

    # ------------------------------------------------------------------
    def _convert(self, interp, v: SVar, unit, dtype, copy, node, what: str):
        """Shared by to / astype / to_unit."""
        new_unit = v.unit
        unit_changes = False  # False | True | 'maybe'
        if unit is not None:
            if isinstance(unit, str):
                try:
                    unit = parse_unit(unit)
                except UnitError as ex:
                    raise AnalysisError(f'{ex} at {interp.where(node)}') from None
            if isinstance(unit, SVar):  # unit given as a variable expression
                unit = unit.unit
            if isinstance(unit, Opaque) or unit is None:
                new_unit = None
                unit_changes = 'maybe'
            elif not isinstance(unit, Unit):
                raise AnalysisError(f'unit argument {unit!r} at {interp.where(node)}')
            else:
                new_unit = unit
                if v.unit is None:
                    unit_changes = 'maybe'
                elif v.unit == unit:
                    unit_changes = False
                elif v.unit.param_syms() or unit.param_syms():
                    unit_changes = 'maybe'
                else:
                    unit_changes = True
                if v.unit is not None:
                    try:
                        ok = v.unit.dim(interp.param_dims) == unit.dim(interp.param_dims)
                    except UnitError as ex:
                        ok = None
                        interp.event('unit-obligation-unknown', node, why=str(ex), stmt=_text(node))
                    if ok is False:
                        interp.event('unit-conversion-incompatible', node, src=repr(v.unit), dst=repr(unit), stmt=_text(node))
                    elif ok:
                        interp.event('unit-conversion', node, src=repr(v.unit), dst=repr(unit))
        if unit_changes in (True, 'maybe') and v.dtype in INTS and (dtype is None or norm_dtype(dtype) in INTS):
            # scipp converts integer variables in integer arithmetic and rounds the result
            interp.event('int-unit-conversion', node, src=repr(v.unit), dst=repr(new_unit), dtype=v.dtype, stmt=_text(node))
        new_dtype = v.dtype
        dtype_changes = False
        if dtype is not None:
            nd = norm_dtype(dtype)
            if nd is None or v.dtype is None:
                new_dtype = nd
                dtype_changes = 'maybe'
            else:
                new_dtype = nd
                dtype_changes = nd != v.dtype
                if v.dtype in FLOATS and nd in FLOATS and dtype_changes and nd == 'float32':
                    interp.event('narrowing-cast', node, src=v.dtype, dst=nd, stmt=_text(node))
                if v.dtype in FLOATS and nd in INTS:
                    interp.event('narrowing-cast', node, src=v.dtype, dst=nd, stmt=_text(node))
                if nd in ('vector3', 'linear_transform3') or v.dtype in ('vector3', 'linear_transform3'):
                    if dtype_changes:
                        raise RaiseSignal('DTypeError', node, interp.where(node) + ' [vector conversion]')
        r = self.new(interp, v.term, new_unit, new_dtype, v.taint, v.why)
        r.hist = v.hist
        if v.mag is not None:
            if new_unit is v.unit or (new_unit is not None and v.unit is not None and new_unit == v.unit):
                self.set_mag(interp, r, v.mag)
            else:
                so, sn = MD.unit_scale_log10(v.unit), MD.unit_scale_log10(new_unit)
                self.set_mag(interp, r, MD.shift(v.mag, so - sn) if so is not None and sn is not None else None)
        if v.kind == 'raw':
            r.kind = 'raw'
            r.members.update(v.members)
        if dtype_changes is True and new_dtype in FLOATS:
            self.hist(r, 'cast', v)
        if unit_changes in (True, 'maybe'):
            self.hist(r, 'unit-scale', v)
        if isinstance(copy, Opaque):
            copy = None
        if copy is False or copy is None and what == 'maybe':
            if unit_changes is True or dtype_changes is True:
                pass  # fresh
            elif unit_changes == 'maybe' or dtype_changes == 'maybe':
                r.may_alias.add(v.id)
                v.may_alias.add(r.id)
            else:
                r.view_of = v
        return r

    def call_method(self, interp, recv, name: str, args, kwargs, node):
        if isinstance(recv, Unit):
            if name == 'to_dict' and not args and not kwargs:
                # the serialised form: exact multiplier, the base units and their powers.  The parts are exact images of the
                # (possibly symbolic) unit: two units serialise alike iff they are the same power product
                return {'__version__': 1, 'multiplier': ExactImage('multiplier', recv),
                        'powers': {ExactImage('bases', recv): ExactImage('exponents', recv)}}
            return Opaque(f'Unit.{name}()')
        if isinstance(recv, BoundModel):
            # e.g. x.bins.concat(), x.coords.get()
            base = recv.recv
            if recv.name == 'fields':
                raise AnalysisError(f'fields.{name} at {interp.where(node)}')
            if isinstance(base, SVar):
                if name in ('get', 'pop', 'items', 'keys', 'values', '__contains__'):
                    if name == 'pop':
                        interp.mutate(base, node, f'{recv.name}.pop')
                    r = self.new(interp, None, None, None, base.taint, f'{recv.name}.{name}()')
                    r.view_of = base
                    return r if name in ('get', 'pop') else Opaque(f'{recv.name}.{name}()')
                if name in ('update', 'clear', 'set', '__setitem__', '__delitem__', 'set_aligned'):
                    interp.mutate(base, node, f'{recv.name}.{name}')
                    return None
            return Opaque(f'{recv.name}.{name}()')
        if not isinstance(recv, SVar):
            raise AnalysisError(f'method {name} on {recv!r} at {interp.where(node)}')
        v = recv
        if name == 'to':
            a = _bind(['unit', 'dtype', 'copy'], args, kwargs, {'unit': None, 'dtype': None, 'copy': True}, kwonly=True)
            return self._convert(interp, v, a['unit'], a['dtype'], a['copy'], node, 'to')
        if name == 'astype':
            a = _bind(['type', 'copy'], args, kwargs, {'copy': True})
            return self._convert(interp, v, None, a['type'], a['copy'], node, 'astype')
        if name == 'copy':
            a = _bind(['deep'], args, kwargs, {'deep': True})
            r = self.new(interp, v.term, v.unit, v.dtype, v.taint, v.why)
            r.kind = v.kind
            r.hist, r.mag = v.hist, v.mag
            r.members.update({k: x for k, x in v.members.items() if k in ('value', 'variance', 'concrete') and isinstance(x, int | float | bool | str | type(None))})
            if a['deep'] is False:
                r.view_of = v
            return r
        if name in REDUCTIONS:
            return self._reduce(interp, name, v, node)
        if name in SHAPE_VIEWS:
            r = self.new(interp, v.term, v.unit, v.dtype, v.taint, v.why)
            r.view_of = v
            r.hist = v.hist
            return r
        if name in ('__setitem__',):
            interp.mutate(v, node, 'item store')
            return None
        if name in ('assign_coords', 'assign_masks', 'drop_coords', 'drop_masks', 'assign_attrs', 'assign', 'transform_coords', 'group', 'bin', 'hist', 'rebin'):
            r = self.new(interp, None, v.unit, v.dtype, v.taint, f'{name}()')
            r.view_of = v  # shallow: shares buffers
            r.kind = v.kind
            return r
        if name == 'max' or name == 'min':
            return self._reduce(interp, name, v, node)
        if name == '__format__':
            return Opaque('format')
        if name == 'hex' and v.kind == 'raw' and not args and isinstance(v.term, Rat) and not v.members.get('is_array', False):
            num = None
            if hasattr(self, 'value') and hasattr(self, 'val'):
                try:
                    num = self.value(v)
                except Exception:  # noqa: BLE001
                    num = None
            return ExactImage('hex of the number', str(num) if num is not None else T.show(v.term), v.dtype)
        if name in ('tolist', 'item') and v.kind == 'raw' and not args:
            if isinstance(v.term, Vec) and name == 'tolist':
                # the three numbers of one vector, as Python floats
                out = []
                for ax in ('x', 'y', 'z'):
                    c = self.new(interp, T.comp(v.term, ax), DIMENSIONLESS, 'float64', v.taint)
                    c.kind = 'raw'
                    c.members['is_array'] = False
                    c.members['dims'] = []
                    out.append(c)
                return out
            if isinstance(v.term, Rat) and not v.members.get('is_array', False):
                return v  # a 0-d value: the number itself
        r = self.new(interp, None, None, None, v.taint, f'unknown method {name}')
        r.may_alias.add(v.id)
        interp.event('unknown-method', node, name=name, stmt=_text(node))
        return r

    def _reduce(self, interp, name, v: SVar, node) -> SVar:
        if v.taint:
            interp.event('reduction-of-tainted', node, op=name, stmt=_text(node))
        t = Rat.fn(name, v.term) if isinstance(v.term, Rat) else None
        dtype = 'bool' if name in ('any', 'all') else v.dtype
        if name in ('mean', 'nanmean', 'std', 'var', 'median') and v.dtype in INTS:
            dtype = 'float64'
        return self.new(interp, t, v.unit, dtype, v.taint, v.why or 'reduction')

    # ------------------------------------------------------------------
    def call_ext(self, interp, path: str, args, kwargs, node):
        mod, _, name = path.rpartition('.')
        if mod == 'builtins':
            return self._builtin(interp, name, args, kwargs, node)
        if path in ('math.isfinite', 'numpy.isfinite') and len(args) == 1 and isinstance(args[0], ExactImage):
            return True  # multiplier and powers of a unit are finite numbers
        if path in ('math.isnan', 'numpy.isnan', 'math.isinf', 'numpy.isinf') and len(args) == 1 and isinstance(args[0], ExactImage):
            return False
        if path == 'numpy.dtype' and len(args) == 1 and isinstance(args[0], str) and not kwargs:
            import numpy as _np
            try:
                return _np.dtype(args[0])  # a concrete dtype object (itemsize, kind, ... are numpy's own)
            except TypeError as ex:
                raise RaiseSignal('TypeError', node, interp.where(node), (str(ex),)) from None
        if path == 'contextlib.ExitStack' and not args:
            from .interp import ExitStackModel
            return ExitStackModel(interp)
        if path == 'contextlib.suppress':
            from .interp import Suppress
            names = []
            for a in args:
                if isinstance(a, ClassRef):
                    names.append(a.ci.name)
                elif isinstance(a, ExtRef):
                    names.append(a.path.split('.')[-1])
                else:
                    raise AnalysisError(f'contextlib.suppress of {a!r} at {interp.where(node)}')
            return Suppress(names)
        if path == 'contextlib.nullcontext':
            from .interp import GenResult as _G
            g = _G([args[0] if args else None])
            g.context_manager = True
            return g
        if path == 'json.dumps' and len(args) == 1 and _plain_with_images(args[0]):
            import json
            try:
                return json.dumps(_images_to_text(args[0]), **kwargs)  # the text: exact images print as themselves
            except (TypeError, ValueError) as ex:
                raise RaiseSignal(type(ex).__name__, node, interp.where(node), (str(ex),)) from None
        if path == 'types.MappingProxyType' and len(args) == 1 and isinstance(args[0], dict):
            import types
            return types.MappingProxyType(args[0])  # a read-only view of that very dict
        if mod in ('scipp', 'scipp.spatial', 'scipp.core', 'scipp.constants'):
            fn = getattr(self, 'sc_' + name, None)
            if fn is not None:
                return fn(interp, args, kwargs, node)
            if name in EXC_NAMES:
                return ExcValue(name, tuple(args))  # an exception object: may be kept in a variable and raised later
            if name in ('sqrt', 'reciprocal') and args and isinstance(args[0], Unit):
                return args[0] ** (F(1, 2) if name == 'sqrt' else -1)
            if name in _ELEMENTWISE:
                return self._elementwise(interp, name, args, kwargs, node)
            if name in REDUCTIONS:
                a = _bind(['x', 'dim'], args, kwargs, {'dim': None})
                return self._reduce(interp, name, self.lift(interp, a['x']), node)
        if path == 'numpy.finfo' and len(args) == 1 and not kwargs:
            name_ = norm_dtype(args[0]) if not isinstance(args[0], Opaque | SVar) else None
            if name_ in _FINFO:
                import types
                return types.SimpleNamespace(**_FINFO[name_])
        if path in ('numpy.isclose', 'math.isclose') and len(args) >= 2 and any(isinstance(a, SVar) for a in args[:2]):
            # closeness of bare numbers: an uninterpreted predicate of the two numbers and the tolerances (numpy's defaults are
            # absolute 1e-8 and relative 1e-5 whatever unit the numbers are expressed in)
            x, y = self.lift(interp, args[0]), self.lift(interp, args[1])
            t = None
            if isinstance(x.term, Rat) and isinstance(y.term, Rat):
                tol = []
                for key, pos in (('rtol', 2), ('atol', 3)):
                    v = kwargs.get(key, args[pos] if len(args) > pos else None)
                    tol.append(v.term if isinstance(v, SVar) and isinstance(v.term, Rat) else (Rat.const(v) if isinstance(v, int | float) else Rat.sym('default_tolerance')))
                t = Rat.fn('isclose', x.term, y.term, *tol)
            r = self.new(interp, t, DIMENSIONLESS, 'bool', x.taint or y.taint, x.why or y.why)
            r.kind = 'raw'
            if isinstance(args[0], SVar):
                r.members.update({k: v for k, v in args[0].members.items() if k in ('is_array', 'dims')})
            return r
        if mod in ('math', 'numpy'):
            return self._math(interp, mod, name, args, kwargs, node)
        if path == 'scipp.Variable' and 'dims' in kwargs:
            return self.sc_array(interp, args, kwargs, node)  # the constructor: dims, values, variances, unit, dtype
        if path == 'uuid.uuid4':
            return Opaque('uuid')
        if path in ('copy.deepcopy', 'copy.copy'):
            return self._deepcopy(interp, args[0], deep=path.endswith('deepcopy'))
        if path in _PURE_TEXT_FUNCTIONS and all(isinstance(a, str | int | bool) for a in list(args) + list(kwargs.values())):
            import textwrap
            return getattr(textwrap, name)(*args, **kwargs)  # pure functions of concrete text: evaluated as they are
        if path in ('functools.lru_cache', 'functools.cache'):
            from .interp import MemoDecorator, Memoised
            if path.endswith('.cache') or (len(args) == 1 and not kwargs and isinstance(args[0], FuncRef | Lambda | Memoised)) \
                    or (len(args) == 1 and not kwargs and hasattr(args[0], 'vp_call')):
                return Memoised(args[0])
            return MemoDecorator()
        if path == 'functools.wraps':
            return _PyCallable(lambda g: g)  # the wrapper itself (name and docstring play no role)
        if path == 'functools.partial':
            return _Partial(args[0], args[1:], kwargs)
        if path == 'functools.reduce' and len(args) >= 2 and not isinstance(args[1], Opaque):
            seq = list(interp.iterate(args[1], node))
            if len(args) > 2:
                total = args[2]
            elif seq:
                total = seq.pop(0)
            else:
                raise RaiseSignal('TypeError', node, interp.where(node), ('reduce() of empty iterable with no initial value',))
            for x in seq:
                total = interp.call(args[0], [total, x], {}, node)
            return total
        if path == 'operator.methodcaller' and args and isinstance(args[0], str):
            mname, margs, mkw = args[0], list(args[1:]), dict(kwargs)
            return _PyCallable(lambda obj, _n=node: interp.call(interp.getattr(obj, mname, _n), margs, mkw, _n))
        if path == 'operator.attrgetter' and len(args) == 1 and isinstance(args[0], str):
            def _get(obj, _n=node, _a=args[0]):
                for part in _a.split('.'):
                    obj = interp.getattr(obj, part, _n)
                return obj
            return _PyCallable(_get)
        if path == 'operator.itemgetter' and len(args) == 1:
            return _PyCallable(lambda obj, _n=node, _k=args[0]: interp.subscript(obj, _k, _n))
        if mod == 'operator' and name in ('lt', 'le', 'gt', 'ge', 'eq', 'ne', 'is_', 'is_not', 'contains', 'not_', 'truth', 'neg', 'abs', 'getitem') and not kwargs:
            import ast as _ast
            cmp = {'lt': _ast.Lt, 'le': _ast.LtE, 'gt': _ast.Gt, 'ge': _ast.GtE, 'eq': _ast.Eq, 'ne': _ast.NotEq, 'is_': _ast.Is, 'is_not': _ast.IsNot}
            if name in cmp and len(args) == 2:
                return interp.compare(cmp[name](), args[0], args[1], node)
            if name == 'contains' and len(args) == 2:
                return interp.compare(_ast.In(), args[1], args[0], node)
            if name in ('not_', 'truth') and len(args) == 1:
                t_ = interp.truth(args[0], node)
                return (not t_) if name == 'not_' else t_
            if name == 'getitem' and len(args) == 2:
                return interp.subscript(args[0], args[1], node)
            if name == 'neg' and len(args) == 1:
                return interp.binop('mul', lambda p_, q_: p_ * q_, args[0], -1, node) if isinstance(args[0], SVar) else -args[0]
            if name == 'abs' and len(args) == 1:
                return self._builtin(interp, 'abs', args, {}, node)
        if mod == 'operator' and name.startswith('i') and name[1:] in _OPERATOR_BINARY and len(args) == 2 and not kwargs:
            # operator.imul(a, b) is a *= b: a variable is updated in place and returned
            opname, pyop = _OPERATOR_BINARY[name[1:]]
            if isinstance(args[0], SVar):
                return self.binop(interp, opname, args[0], args[1], node, inplace=True)
            if isinstance(args[0], list) and name == 'iadd':
                args[0].extend(interp.iterate(args[1], node))
                interp.note_store(args[0])
                return args[0]
            return interp.binop(opname, pyop, args[0], args[1], node)
        if mod == 'operator' and name in _OPERATOR_BINARY and len(args) == 2 and not kwargs:
            opname, pyop = _OPERATOR_BINARY[name]
            return interp.binop(opname, pyop, args[0], args[1], node)
        if path == 'itertools.accumulate' and args and not any(isinstance(a, Opaque) for a in args):
            seq = interp.iterate(args[0], node)
            func = args[1] if len(args) > 1 else kwargs.get('func')
            out = []
            have = 'initial' in kwargs and kwargs['initial'] is not None
            total = kwargs.get('initial')
            if have:
                out.append(total)
            for x in seq:
                if not have:
                    total, have = x, True
                elif func is None:
                    total = interp.binop('add', lambda p_, q_: p_ + q_, total, x, node)
                else:
                    total = interp.call(func, [total, x], {}, node)
                out.append(total)
            return out
        if path in ('itertools.takewhile', 'itertools.dropwhile') and len(args) == 2 and not isinstance(args[1], Opaque | SVar):
            from .interp import LazyGen
            pred, src = args

            def while_(take=path.endswith('takewhile')):
                reader = interp.pulling(src, node)
                for x in reader:
                    ok = interp.truth(interp.call(pred, [x], {}, node), node)
                    if take:
                        if not ok:
                            return  # (the element that failed the test is consumed, as in Python)
                        yield x
                    elif not ok:
                        yield x
                        yield from reader
                        return
            return LazyGen(while_())
        if path == 'itertools.chain.from_iterable' and len(args) == 1 and not isinstance(args[0], Opaque | SVar):
            from .interp import LazyGen
            return LazyGen(x for part in interp.pulling(args[0], node) for x in interp.pulling(part, node))
        if path == 'itertools.chain' and not any(isinstance(a, Opaque | SVar) for a in args):
            from .interp import LazyGen
            return LazyGen(x for a in args for x in interp.pulling(a, node))
        if path == 'itertools.groupby' and args and not isinstance(args[0], Opaque | SVar):
            keyf = kwargs.get('key', args[1] if len(args) > 1 else None)
            groups: list = []
            for x in interp.iterate(args[0], node):
                k = interp.call(keyf, [x], {}, node) if keyf is not None else x
                if isinstance(k, Opaque | SVar):
                    raise AnalysisError(f'itertools.groupby over abstract keys at {interp.where(node)}')
                if groups and interp.compare(ast.Eq(), groups[-1][0], k, node) is True:
                    groups[-1][1].append(x)
                else:
                    groups.append((k, GenResult([x])))
            return GenResult(groups)
        if path == 'itertools.repeat' and len(args) == 1:
            from .interp import LazyGen

            def forever(x=args[0]):
                while True:
                    yield x
            return LazyGen(forever())
        if path == 'itertools.count' and all(isinstance(a, int | float) for a in args) and len(args) <= 2:
            from .interp import LazyGen
            import itertools
            return LazyGen(itertools.count(*args))
        if path == 'itertools.product' and not kwargs and not any(isinstance(a, Opaque | SVar) for a in args):
            import itertools
            return GenResult(itertools.product(*[interp.iterate(a, node) for a in args]))
        if path == 'itertools.pairwise' and len(args) == 1 and not isinstance(args[0], Opaque | SVar):
            seq = interp.iterate(args[0], node)
            return GenResult(zip(seq[:-1], seq[1:], strict=True))
        if path == 'itertools.repeat' and len(args) == 2 and isinstance(args[1], int):
            return GenResult([args[0]] * args[1])
        if path == 'itertools.starmap' and len(args) == 2 and not isinstance(args[1], Opaque | SVar):
            return GenResult(interp.call(args[0], list(interp.iterate(a_, node)), {}, node) for a_ in interp.iterate(args[1], node))
        if path == 'itertools.filterfalse' and len(args) == 2 and not isinstance(args[1], Opaque | SVar):
            pred = args[0]
            return GenResult(x for x in interp.iterate(args[1], node)
                             if not interp.truth(interp.call(pred, [x], {}, node) if pred is not None else x, node))
        if path == 'collections.deque' and args and not isinstance(args[0], Opaque | SVar):
            import collections
            return collections.deque(interp.iterate(args[0], node), **({'maxlen': kwargs['maxlen']} if 'maxlen' in kwargs else ({'maxlen': args[1]} if len(args) > 1 else {})))
        if path == 'itertools.islice' and len(args) >= 2 and all(isinstance(a, int) or a is None for a in args[1:]):
            import itertools
            if isinstance(args[0], GenResult):
                # a slice of an iterator takes from it what it needs and leaves the rest to the next reader
                sl = slice(*args[1:])
                taken = []
                while (sl.stop is None or len(taken) < sl.stop) and args[0]:
                    taken.append(args[0].pop(0))
                return GenResult(itertools.islice(taken, *args[1:]))
            return GenResult(itertools.islice(interp.iterate(args[0], node), *args[1:]))
        if path.startswith('typing.') or path.startswith('dataclasses.'):
            return Opaque(path)
        # unknown external callee: arguments escape
        for a in list(args) + list(kwargs.values()):
            if isinstance(a, SVar) and a.origin is not None:
                interp.event('escapes-to-unknown', node, param=a.origin, callee=path)
        interp.event('unknown-callee', node, callee=path, stmt=_text(node))
        return Opaque(f'{path}(...)')

    def _deepcopy(self, interp, v, deep=True):
        if isinstance(v, SVar):
            r = self.new(interp, v.term, v.unit, v.dtype, v.taint, v.why)
            r.kind, r.hist, r.mag = v.kind, v.hist, v.mag
            # a copy holds the same numbers: literal value / variance of a scalar built from constants
            r.members.update({k: x for k, x in v.members.items() if k in ('value', 'variance', 'concrete') and isinstance(x, int | float | bool | str | type(None))})
            if not deep:
                r.view_of = v
            return r
        if isinstance(v, SObj):
            return SObj(v.cls, {k: (self._deepcopy(interp, x, deep) if deep else x) for k, x in v.attrs.items()})
        if isinstance(v, list):
            return [self._deepcopy(interp, x, deep) if deep else x for x in v]
        if isinstance(v, tuple):
            return tuple(self._deepcopy(interp, x, deep) if deep else x for x in v)
        if isinstance(v, dict):
            return {k: (self._deepcopy(interp, x, deep) if deep else x) for k, x in v.items()}
        if isinstance(v, set):
            return set(v)
        return v

    # ---- scipp creation functions -------------------------------------
    def _unit_arg(self, interp, u, node, default=DIMENSIONLESS):
        if u is None:
            return NO_UNIT
        if isinstance(u, str):
            try:
                return parse_unit(u)
            except UnitError as ex:
                raise AnalysisError(f'{ex} at {interp.where(node)}') from None
        if isinstance(u, Unit):
            return u
        if isinstance(u, Opaque):
            return None
        if isinstance(u, _DefaultUnit):
            return default
        raise AnalysisError(f'unit argument {u!r} at {interp.where(node)}')

    def sc_scalar(self, interp, args, kwargs, node):
        a = _bind(['value', 'variance', 'unit', 'dtype'], args, kwargs,
                  {'variance': None, 'unit': _DEFAULT_UNIT, 'dtype': None})
        val = a['value']
        unit = self._unit_arg(interp, a['unit'], node)
        if isinstance(val, SVar) and val.kind != 'raw' and isinstance(a['unit'], _DefaultUnit) and val.unit is not None:
            unit = val.unit
        dtype = norm_dtype(a['dtype'])
        if isinstance(val, SVar):
            # raw value re-labelled with a unit
            t = val.term * unit.scale() if isinstance(val.term, Rat) and unit is not None else None
            if val.kind == 'raw':
                interp.event('raw-relabel', node, unit=repr(unit), stmt=_text(node))
            return self.new(interp, t, unit, dtype or val.dtype, val.taint, val.why)
        if isinstance(val, Opaque):
            return self.new(interp, None, unit, dtype, why=val.why)
        if isinstance(val, bool | int | float | F):
            var = a.get('variance')
            t = Rat.const(val) * (unit.scale() if unit is not None else 1)
            if _is_nan(val):
                t = Rat.const(val)
            if unit is not None and unit.param_syms() and not t.is_zero() and not _is_nan(val):
                interp.event('literal-with-input-unit', node, value=repr(val), unit=repr(unit), stmt=_text(node))
            r = self.new(interp, t if unit is not None else None, unit, dtype or py_dtype(val), why='unit unknown')
            r.members['variance'] = var
            r.members['value'] = val
            r.members.setdefault('dims', [])
            if var is None:
                r.members['no_variances'] = True
            r.mag = MD.const_mag(val)
            return r
        if isinstance(val, str):
            return self.new(interp, None, unit, 'string', why='string scalar')
        return self.new(interp, None, unit, dtype or 'PyObject', why='object scalar')

    def sc_array(self, interp, args, kwargs, node):
        a = _bind(['dims', 'values', 'variances', 'unit', 'dtype'], args, kwargs,
                  {'variances': None, 'unit': _DEFAULT_UNIT, 'dtype': None, 'dims': None, 'values': None})
        unit = self._unit_arg(interp, a['unit'], node)
        dtype = norm_dtype(a['dtype'])
        vals = a['values']
        taint = False
        view = None
        if isinstance(vals, SVar):
            taint = vals.taint
            dtype = dtype or vals.dtype
            if vals.kind == 'raw':
                interp.event('raw-relabel', node, unit=repr(unit), stmt=_text(node))
            t = vals.term * unit.scale() if isinstance(vals.term, Rat) and unit is not None else None
            return self.new(interp, t, unit, dtype, taint, vals.why)
        if isinstance(vals, list | tuple) and vals and all(isinstance(x, int | float) for x in vals):
            if dtype is None:
                dtype = 'float64' if any(isinstance(x, float) for x in vals) else 'int64'
            t = Rat.fn('literal_array', *[Rat.const(x) for x in vals]) * (unit.scale() if unit else 1)
            return self.new(interp, t, unit, dtype)
        r = self.new(interp, None, unit, dtype, taint, 'array from python data')
        if isinstance(vals, list | tuple):
            r.members['py_values'] = list(vals)
        if isinstance(a['dims'], list | tuple):
            r.members['dims'] = list(a['dims'])
        return r

    def sc_full(self, interp, args, kwargs, node):
        unit = self._unit_arg(interp, kwargs.get('unit', _DEFAULT_UNIT), node)
        val = kwargs.get('value')
        dtype = norm_dtype(kwargs.get('dtype'))
        if isinstance(val, SVar) and isinstance(val.term, Rat) and unit is not None:
            if val.kind == 'raw':
                interp.event('raw-relabel', node, unit=repr(unit), stmt=_text(node))
            return self.new(interp, val.term * unit.scale(), unit, dtype or val.dtype, val.taint)
        if isinstance(val, int | float) and unit is not None:
            return self.new(interp, Rat.const(val) * unit.scale(), unit, dtype or py_dtype(val))
        return self.new(interp, None, unit, dtype or 'float64', why='filled array')

    sc_zeros = sc_ones = sc_empty = lambda self, interp, args, kwargs, node: self.new(  # noqa: E731
        interp, None, self._unit_arg(interp, kwargs.get('unit', _DEFAULT_UNIT), node),
        norm_dtype(kwargs.get('dtype')) or 'float64', why='filled array')

    def sc_zeros_like(self, interp, args, kwargs, node):
        x = args[0] if args else kwargs.get('obj')
        if isinstance(x, SVar):
            return self.new(interp, Rat.const(0), x.unit, x.dtype)  # same shape, unit and dtype; not an alias of x
        return Opaque('zeros_like(⊤)')

    def sc_ones_like(self, interp, args, kwargs, node):
        x = args[0] if args else kwargs.get('obj')
        if isinstance(x, SVar):
            return self.new(interp, (x.unit.scale() if x.unit is not None else Rat.const(1)), x.unit, x.dtype)
        return Opaque('ones_like(⊤)')

    def sc_full_like(self, interp, args, kwargs, node):
        x = args[0] if args else kwargs.get('obj')
        val = args[1] if len(args) > 1 else kwargs.get('value')
        if isinstance(x, SVar):
            if isinstance(val, int | float) and not isinstance(val, bool) and x.unit is not None:
                return self.new(interp, Rat.const(val) * x.unit.scale(), x.unit, x.dtype)
            if isinstance(val, SVar):
                return self.new(interp, val.term, x.unit, x.dtype, val.taint)
            return self.new(interp, None, x.unit, x.dtype, why='filled array')
        return Opaque('full_like(⊤)')

    def sc_arange(self, interp, args, kwargs, node):
        unit = self._unit_arg(interp, kwargs.get('unit'), node)
        dtype = norm_dtype(kwargs.get('dtype'))
        nums = [x for x in args[1:] if not isinstance(x, str)]
        if dtype is None:
            dtype = 'float64' if any(isinstance(x, float) for x in nums) else 'int64'
        parts = []
        for x in nums:
            if isinstance(x, int | float):
                parts.append(Rat.const(x))
            elif isinstance(x, SVar) and isinstance(x.term, Rat):
                parts.append(x.term)
            else:
                parts.append(Rat.sym('n?'))
        t = Rat.fn('arange', *parts) * unit.scale()
        return self.new(interp, t, unit, dtype)

    def sc_vector(self, interp, args, kwargs, node):
        a = _bind(['value', 'unit'], args, kwargs, {'unit': _DEFAULT_UNIT})
        unit = self._unit_arg(interp, a['unit'], node)
        val = a['value']
        t = None
        if isinstance(val, list | tuple) and len(val) == 3 and all(isinstance(x, int | float) for x in val):
            t = Vec.literal(*val) * (unit.scale() if unit else 1)
        elif isinstance(val, list | tuple) and len(val) == 3 and all(isinstance(x, SVar) and x.kind == 'raw' and isinstance(x.term, Rat) for x in val) \
                and unit is not None:
            t = T.as_vectors(*[x.term for x in val]) * unit.scale()  # a vector from three bare numbers
        elif isinstance(val, SVar) and val.kind == 'raw':
            interp.event('raw-relabel', node, unit=repr(unit), stmt=_text(node))
            if isinstance(val.term, Vec) and unit is not None:
                t = val.term * unit.scale()
        elif isinstance(val, SVar) and isinstance(val.term, Vec) and unit is not None:
            t = val.term * unit.scale()
        return self.new(interp, t, unit, 'vector3', why='vector from data')

    def sc_vectors(self, interp, args, kwargs, node):
        unit = self._unit_arg(interp, kwargs.get('unit', _DEFAULT_UNIT), node)
        return self.new(interp, None, unit, 'vector3', why='vectors from data')

    def sc_Unit(self, interp, args, kwargs, node):
        u = args[0]
        return self._unit_arg(interp, u, node)

    def sc_to_unit(self, interp, args, kwargs, node):
        a = _bind(['x', 'unit', 'copy'], args, kwargs, {'copy': True})
        x = a['x']
        if isinstance(x, Unit | str):
            # scipp.to_unit(unit, variable): the first argument must be a variable, scipp raises
            raise RaiseSignal('TypeError', node, interp.where(node), ('to_unit(): the first argument is not a variable',))
        if not isinstance(x, SVar):
            x = self.lift(interp, x)
        return self._convert(interp, x, a['unit'], None, a['copy'], node, 'to_unit')

    # ---- elementwise math ---------------------------------------------
    def _elementwise(self, interp, name, args, kwargs, node):
        out = kwargs.pop('out', None)
        spec = _ELEMENTWISE[name]
        params = spec['params']
        a = _bind(params, args, kwargs, {})
        xs = []
        for p in params:
            v = a[p]
            xs.append(self.lift(interp, v))
        taint = any(x.taint for x in xs)
        why = next((x.why for x in xs if x.term is None), '')
        # dtype
        dtype = None
        ds = [x.dtype for x in xs]
        if all(d is not None for d in ds):
            if spec.get('float_only') and any(d not in FLOATS for d in ds):
                raise RaiseSignal('DTypeError', node, interp.where(node) + f" ['{name}' does not support dtypes {ds}]")
            if len(set(ds)) != 1 and spec.get('same_dtype'):
                raise RaiseSignal('DTypeError', node, interp.where(node) + f" ['{name}' does not support dtypes {ds}]")
            dtype = spec.get('dtype') or ds[0]
        # unit
        unit = None
        us = [x.unit for x in xs]
        if all(u is not None for u in us):
            unit = spec['unit'](interp, us, node)
        # term
        t = None
        ts = [x.term for x in xs]
        if all(isinstance(x, Rat) for x in ts):
            try:
                t = spec['term'](*ts)
            except (TypeError, ValueError, ZeroDivisionError) as ex:
                why = f'{name}: {ex}'
        elif all(x is not None for x in ts) and 'vterm' in spec:
            try:
                t = spec['vterm'](*ts)
            except (TypeError, ValueError) as ex:
                why = f'{name}: {ex}'
        interp.event('math-call', node, fn=name, args=[T.show(x) if x is not None else '⊤' for x in ts])
        if isinstance(out, SVar):
            if out.dtype is not None and dtype is not None and out.dtype != dtype:
                raise RaiseSignal('DTypeError', node, interp.where(node) + ' [out= dtype mismatch]')
            interp.mutate(out, node, f'out= of {name}')
            out.term, out.unit, out.why, out.taint = t, unit, why, taint
            out.mag = None
            if dtype is not None:
                out.dtype = dtype
            return self.hist(out, name, *xs)
        r = self.new(interp, t, unit, dtype, taint, why)
        if name == 'sqrt' and xs[0].mag is not None:
            self.set_mag(interp, r, MD.scale(xs[0].mag, 0.5))
        elif name == 'abs':
            self.set_mag(interp, r, xs[0].mag)
        elif name == 'reciprocal' and xs[0].mag is not None:
            self.set_mag(interp, r, MD.scale(xs[0].mag, -1.0))
        return self.hist(r, name, *xs)

    def sc_norm(self, interp, args, kwargs, node):
        x = self.lift(interp, args[0] if args else kwargs['x'])
        if x.dtype is not None and x.dtype != 'vector3':
            raise RaiseSignal('DTypeError', node, interp.where(node) + ' [norm of non-vector]')
        t = T.norm(x.term) if isinstance(x.term, Vec) else None
        return self.hist(self.new(interp, t, x.unit, 'float64', x.taint, x.why or 'norm of non-vector term'), 'norm', x)

    def sc_dot(self, interp, args, kwargs, node):
        a = _bind(['x', 'y'], args, kwargs, {})
        x, y = self.lift(interp, a['x']), self.lift(interp, a['y'])
        t = T.dot(x.term, y.term) if isinstance(x.term, Vec) and isinstance(y.term, Vec) else None
        unit = x.unit * y.unit if x.unit is not None and y.unit is not None else None
        return self.hist(self.new(interp, t, unit, 'float64', x.taint or y.taint, x.why or y.why or 'dot of non-vector term'), 'dot', x, y)

    def sc_cross(self, interp, args, kwargs, node):
        a = _bind(['x', 'y'], args, kwargs, {})
        x, y = self.lift(interp, a['x']), self.lift(interp, a['y'])
        t = T.cross(x.term, y.term) if isinstance(x.term, Vec) and isinstance(y.term, Vec) else None
        unit = x.unit * y.unit if x.unit is not None and y.unit is not None else None
        return self.hist(self.new(interp, t, unit, 'vector3', x.taint or y.taint, x.why or y.why or 'cross of non-vector term'), 'cross', x, y)

    def sc_as_vectors(self, interp, args, kwargs, node):
        a = _bind(['x', 'y', 'z'], args, kwargs, {})
        xs = [self.lift(interp, a[k]) for k in 'xyz']
        t = None
        if all(isinstance(x.term, Rat) for x in xs):
            t = T.as_vectors(*[x.term for x in xs])
        us = {repr(x.unit) for x in xs}
        if len(us) != 1:
            interp.event('unit-mismatch', node, op='as_vectors', left=str(us), right='', stmt=_text(node))
        return self.new(interp, t, xs[0].unit, 'vector3', any(x.taint for x in xs), 'as_vectors of unknown')

    def sc_inv(self, interp, args, kwargs, node):
        x = self.lift(interp, args[0])
        t = x.term.inv() if isinstance(x.term, Mat) else None
        return self.new(interp, t, x.unit ** -1 if x.unit is not None else None, x.dtype, x.taint, x.why or 'inv of non-matrix')

    def sc_rotations_from_rotvecs(self, interp, args, kwargs, node):
        x = self.lift(interp, args[0] if args else kwargs['rotation_vectors'])
        t = Mat.of(T.atom('mfn', 'rot', (x.term,))) if isinstance(x.term, Vec) else None
        interp.event('rotation-from-rotvec', node, rotvec=T.show(x.term) if x.term is not None else '⊤', unit=repr(x.unit),
                     term=x.term)
        return self.new(interp, t, DIMENSIONLESS, 'linear_transform3', x.taint, x.why)

    def sc_where(self, interp, args, kwargs, node):
        a = _bind(['condition', 'x', 'y'], args, kwargs, {})
        c, x, y = (self.lift(interp, a[k]) for k in ('condition', 'x', 'y'))
        if x.dtype is not None and y.dtype is not None and x.dtype != y.dtype:
            raise RaiseSignal('DTypeError', node, interp.where(node) + f" ['where' does not support dtypes {x.dtype}, {y.dtype}]")
        if x.unit is not None and y.unit is not None and x.unit != y.unit:
            interp.event('unit-mismatch', node, op='where', left=repr(x.unit), right=repr(y.unit), stmt=_text(node))
        t = None
        if all(isinstance(v.term, Rat) for v in (c, x, y)):
            t = T.fn_where(c.term, x.term, y.term)
        r = self.new(interp, t, x.unit, x.dtype or y.dtype, c.taint or x.taint or y.taint, c.why or x.why or y.why)
        r.hist = x.hist | y.hist | c.hist
        r.mag = MD.union(x.mag, y.mag)  # a selection computes nothing
        interp.event('where', node, cond=c.hist, x=x.hist, y=y.hist)
        return r

    def sc_concat(self, interp, args, kwargs, node):
        a = _bind(['x', 'dim'], args, kwargs, {'dim': None})
        items = a['x']
        if isinstance(items, Opaque | SVar):
            return self.new(interp, None, None, None, why='concat of unknown')
        items = [self.lift(interp, x) for x in items]
        if not items:
            return self.new(interp, None, None, None, why='empty concat')
        us = {repr(x.unit) for x in items}
        if len(us) > 1:
            interp.event('unit-mismatch', node, op='concat', left=str(sorted(us)), right='', stmt=_text(node))
        t = None
        if all(isinstance(x.term, Rat) for x in items):
            t = Rat.fn('concat', *[x.term for x in items])
        r = self.new(interp, t, items[0].unit, items[0].dtype, any(x.taint for x in items), 'concat')
        r.members['concat'] = items
        return r

    def sc_any(self, interp, args, kwargs, node):
        return self._reduce(interp, 'any', self.lift(interp, args[0]), node)

    def sc_all(self, interp, args, kwargs, node):
        return self._reduce(interp, 'all', self.lift(interp, args[0]), node)

    def sc_values(self, interp, args, kwargs, node):
        x = args[0]
        return self.new(interp, x.term, x.unit, x.dtype, x.taint, x.why)

    def sc_stddevs(self, interp, args, kwargs, node):
        x = args[0]
        return self.new(interp, None, x.unit, x.dtype, x.taint, 'stddevs')

    sc_variances = sc_stddevs

    def sc_sort(self, interp, args, kwargs, node):
        x = self.lift(interp, args[0])
        if x.taint:
            interp.event('reduction-of-tainted', node, op='sort', stmt=_text(node))
        t = Rat.fn('sort', x.term) if isinstance(x.term, Rat) else None
        return self.new(interp, t, x.unit, x.dtype, x.taint, x.why)

    def sc_cumsum(self, interp, args, kwargs, node):
        x = self.lift(interp, args[0])
        if x.taint:
            interp.event('reduction-of-tainted', node, op='cumsum', stmt=_text(node))
        t = Rat.fn('cumsum', x.term) if isinstance(x.term, Rat) else None
        return self.new(interp, t, x.unit, x.dtype, x.taint, x.why)

    def sc_allclose(self, interp, args, kwargs, node):
        return Opaque('allclose')

    sc_identical = sc_issorted = sc_allsorted = sc_allclose

    def sc_isclose(self, interp, args, kwargs, node):
        """Element-wise closeness: an uninterpreted predicate of its operands (and tolerances)."""
        a = _bind(['x', 'y', 'rtol', 'atol', 'equal_nan'], args, kwargs, {'rtol': None, 'atol': None, 'equal_nan': False})
        x, y = self.lift(interp, a['x']), self.lift(interp, a['y'])
        t = None
        if isinstance(x.term, Rat) and isinstance(y.term, Rat):
            tol = [v.term if isinstance(v, SVar) and isinstance(v.term, Rat) else (Rat.const(v) if isinstance(v, int | float) else Rat.sym('default_tolerance'))
                   for v in (a['rtol'], a['atol'])]
            t = Rat.fn('isclose', x.term, y.term, *tol)
        if x.unit is not None and y.unit is not None and x.unit != y.unit:
            interp.event('unit-mismatch', node, op='isclose', left=repr(x.unit), right=repr(y.unit), stmt=_text(node))
        return self.new(interp, t, DIMENSIONLESS, 'bool', x.taint or y.taint, x.why or y.why)

    def sc_DataArray(self, interp, args, kwargs, node):
        a = _bind(['data', 'coords', 'masks', 'attrs', 'name'], args, kwargs,
                  {'coords': None, 'masks': None, 'attrs': None, 'name': None})
        d = a['data']
        if isinstance(d, SVar):
            r = self.new(interp, d.term, d.unit, d.dtype, d.taint, d.why)
            r.view_of = d
            r.kind = 'dataarray'
            if isinstance(a['coords'], dict):
                r.members['coords'] = dict(a['coords'])
            return r
        return Opaque('DataArray(...)')

    def sc_DataGroup(self, interp, args, kwargs, node):
        d = dict(args[0]) if args and isinstance(args[0], dict) else {}
        d.update(kwargs)
        return d

    def sc_reduce(self, interp, args, kwargs, node):
        items = args[0]
        return _Reducer(self, interp, items)

    def sc_index(self, interp, args, kwargs, node):
        v = args[0] if args else kwargs.get('value')
        t = Rat.const(v) if isinstance(v, int) and not isinstance(v, bool) else None
        return self.new(interp, t, NO_UNIT, norm_dtype(kwargs.get('dtype')) or 'int64', why='index')

    def sc_DType(self, interp, args, kwargs, node):
        return norm_dtype(args[0])

    # ---- numpy / math ---------------------------------------------------
    def _math(self, interp, mod, name, args, kwargs, node):
        def scalar_like(a):
            return (isinstance(a, int | float) and not isinstance(a, bool)) or (
                isinstance(a, SVar) and a.kind in ('pyfloat', 'raw', 'constant'))
        if name in _ELEMENTWISE and args and not kwargs and all(scalar_like(a) for a in args):
            lifted = []
            for a in args:
                if isinstance(a, SVar):
                    lifted.append(a)
                else:
                    lifted.append(self.pyfloat(interp, Rat.const(a)))
            r = self._elementwise(interp, name, lifted, {}, node)
            r.kind = 'pyfloat'
            return r
        # numpy.stack / numpy.array of a python list whose items are abstract raw values
        if mod == 'numpy' and name in ('stack', 'array', 'vstack') and args and isinstance(args[0], list | tuple) \
                and (not args[0] or any(isinstance(x, SVar) for x in args[0])) and all(isinstance(x, SVar | int | float) for x in args[0]):
            return PyArray(args[0])
        # list-level numpy helpers on concrete python lists (used by table assembly code)
        if mod == 'numpy' and args and isinstance(args[0], list) and all(not isinstance(x, Opaque | SVar) for x in args[0]):
            if name == 'array' and len(args) == 1:
                return list(args[0])
            if name == 'repeat' and len(args) == 2 and isinstance(args[1], int):
                return [x for x in args[0] for _ in range(args[1])]
            if name == 'tile' and len(args) == 2 and isinstance(args[1], int):
                return list(args[0]) * args[1]
        for a in list(args) + list(kwargs.values()):
            if isinstance(a, SVar) and a.origin is not None:
                interp.event('escapes-to-unknown', node, param=a.origin, callee=f'{mod}.{name}')
        if any(isinstance(a, SVar) and a.taint for a in args):
            interp.event('numpy-on-tainted', node, callee=f'{mod}.{name}', stmt=_text(node))
        return Opaque(f'{mod}.{name}(...)')

    # ---- builtins --------------------------------------------------------
    def _builtin(self, interp, name, args, kwargs, node):
        if name == 'id' and len(args) == 1:
            return interp.object_id(args[0])
        if name in ('float', 'int') and len(args) == 1 and isinstance(args[0], ExactImage):
            return ExactImage(name, args[0])  # the number itself: still an exact image of where it came from
        if name == 'abs' and args and isinstance(args[0], SVar):
            return self._elementwise(interp, 'abs', args, kwargs, node)
        if name == 'isinstance':
            return self._isinstance(interp, args[0], args[1], node)
        if name == 'len':
            x = args[0]
            if isinstance(x, SVar):
                if x.taint:
                    interp.event('shape-of-tainted', node, attr='len', stmt=_text(node))
                return Opaque('len of variable')
            if isinstance(x, Opaque):
                return Opaque('len(⊤)')
            if isinstance(x, SObj):
                ln = interp.find_method(x.cls, '__len__')
                if ln is not None:
                    return interp.call_function(ln, [], {}, bound=x)
                if interp.is_namedtuple(x.cls):
                    return len(x.cls.dataclass_fields())
            return len(x)
        if name in ('float', 'int', 'bool', 'round') and args and isinstance(args[0], SVar | Opaque):
            x = args[0]
            if isinstance(x, SVar):
                if name == 'bool':
                    if x.term is None:
                        return Opaque('bool(variable)', cond_term=x.term)
                    r = self.new(interp, x.term, DIMENSIONLESS, 'bool', x.taint, x.why)  # the same predicate as a python bool
                    r.kind = 'raw'
                    return r
                r = self.new(interp, x.term if name == 'float' else (Rat.fn(name, x.term) if isinstance(x.term, Rat) else None),
                             DIMENSIONLESS, 'float64' if name == 'float' else 'int64', x.taint, x.why)
                r.kind = 'raw'
                return r
            return Opaque(f'{name}(⊤)')
        if name == 'open':
            # never touch the real file system from the analysis: a model that wants files provides them (builtins.open in call_ext)
            raise AnalysisError(f'open() is not modelled at {interp.where(node)}')
        if name in ('max', 'min') and kwargs.get('key') is not None and args and (len(args) > 1 or not isinstance(args[0], Opaque | SVar)):
            seq = list(interp.iterate(args[0], node)) if len(args) == 1 else list(args)
            if not seq:
                if 'default' in kwargs:
                    return kwargs['default']
                raise RaiseSignal('ValueError', node, interp.where(node), (f'{name}() arg is an empty sequence',))
            keys = [interp.call(kwargs['key'], [x], {}, node) for x in seq]
            if any(isinstance(k, SVar | Opaque | SObj) for k in keys):
                if len(seq) == 2:
                    # two operands with unknown keys: one three-way decision (key(a) <, ==, > key(b)) per pair of operands and key
                    # function on a path, shared by min and max - the first operand wins a tie, as in Python
                    kf = kwargs['key']
                    ktext = ast.dump(kf.node.body) if isinstance(kf, Lambda) else (kf.fi.fq if isinstance(kf, FuncRef) else repr(kf))
                    memo = interp.__dict__.setdefault('_order_decisions', {})
                    slot = (id(seq[0]), id(seq[1]), ktext)
                    if slot not in memo:
                        if interp.decide(Opaque(f'key of the first operand < key of the second ({ktext[:40]})'), interp.where(node)):
                            memo[slot] = ('lt', seq[0], seq[1])
                        elif interp.decide(Opaque(f'key of the first operand == key of the second ({ktext[:40]})'), interp.where(node)):
                            memo[slot] = ('eq', seq[0], seq[1])
                        else:
                            memo[slot] = ('gt', seq[0], seq[1])
                    rel = memo[slot][0]
                    if name == 'min':
                        return seq[0] if rel in ('lt', 'eq') else seq[1]
                    return seq[0] if rel in ('gt', 'eq') else seq[1]
                raise AnalysisError(f'{name}(..., key=...) over abstract keys at {interp.where(node)}')
            pick = (max if name == 'max' else min)(range(len(seq)), key=lambda i_: keys[i_])  # first extreme element, as in Python
            return seq[pick]
        if name in ('max', 'min') and any(isinstance(a, SVar | Opaque) for a in args):
            xs = [self.lift(interp, a) for a in args]
            t = None
            if all(isinstance(x.term, Rat) for x in xs):
                t = Rat.fn('py' + name, *[x.term for x in xs])
            r = self.new(interp, t, DIMENSIONLESS, xs[0].dtype, any(x.taint for x in xs))
            r.kind = 'raw'
            return r
        if name == 'getattr':
            if isinstance(args[1], str):
                try:
                    return interp.getattr(args[0], args[1], node)
                except AnalysisError:
                    if len(args) > 2:
                        return args[2]
                    raise
            return Opaque('getattr')
        if name == 'hasattr':
            return Opaque('hasattr')
        if name == 'type':
            x = args[0]
            if isinstance(x, SObj):
                return ClassRef(x.cls)
            if x is None or type(x) in (int, float, str, bool, bytes, list, tuple, dict, set, frozenset, complex):
                return ExtRef('builtins.' + type(x).__name__)  # the class of a plain Python value
            if not isinstance(x, SVar | Opaque | BoundModel | ExtRef | FuncRef | ClassRef | Lambda | GenResult | Unit):
                return type(x)  # an object handed in by a check (a stand-in for a model, a file): its own class
            return Opaque('type(...)')
        if name == 'super':
            return Opaque('super()')
        if name == 'str':
            if args and isinstance(args[0], str | int | float):
                return str(args[0])
            if args and isinstance(args[0], ExactImage | list | tuple | dict) and _plain_with_images(args[0]):
                return str(args[0])
            if args and isinstance(args[0], Unit):
                return ExactImage('text of unit', args[0])  # scipp's spelling of the unit: some text that is the same for the same unit
            return Opaque('str(...)')
        if name in ('ValueError', 'TypeError', 'KeyError', 'RuntimeError', 'NotImplementedError',
                    'Exception', 'IndexError', 'AttributeError'):
            return ExcValue(name, tuple(args))
        if name == 'sorted':
            seq = interp.iterate(args[0], node)
            key = kwargs.get('key')
            if key is None:
                try:
                    return sorted(seq, reverse=bool(kwargs.get('reverse', False)))
                except TypeError:
                    return _SortedView(seq, None)
            # a key function over concrete, mutually comparable keys: the real (stable) order
            try:
                keys = [interp.call(key, [x], {}, node) for x in seq]
            except AnalysisError:
                keys = None
            if keys is not None and all(_concrete_sort_key(k) for k in keys):
                try:
                    order = sorted(range(len(seq)), key=keys.__getitem__, reverse=bool(kwargs.get('reverse', False)))
                    return [seq[i] for i in order]
                except TypeError:
                    pass
            return _SortedView(seq, key)
        if name in ('all', 'any', 'sum', 'sorted') and args and isinstance(args[0], Opaque):
            return Opaque(f'{name}(⊤)')
        if name in ('all', 'any'):
            seq = interp.pulling(args[0], node)  # stops reading at the deciding element: the rest stays in a one-shot iterator
            res = name == 'all'
            for x in seq:
                t = interp.truth(x, node)
                if name == 'all' and not t:
                    return False
                if name == 'any' and t:
                    return True
            return res
        if name == 'sum':
            seq = interp.iterate(args[0], node)
            total = args[1] if len(args) > 1 else 0
            for x in seq:
                total = interp.binop('add', lambda p, q: p + q, total, x, node)
            return total
        if any(isinstance(a, Opaque) for a in args):
            return Opaque(f'{name}(⊤)')
        import builtins
        fn = getattr(builtins, name)
        if name in ('zip',):
            strict = kwargs.pop('strict', False)
            if not any(isinstance(a, GenResult) for a in args):
                args = [interp.iterate(a, node) for a in args]
                if strict and len({len(a) for a in args}) > 1:
                    raise RaiseSignal('ValueError', node, interp.where(node))
                return GenResult(zip(*args, strict=False))
            # with one-shot iterators among the arguments the order of reading matters: each round reads the arguments from left
            # to right and stops at the first exhausted one - what the round already took from the iterators before it is lost
            from .interp import LazyGen

            def zipped():
                readers = [interp.pulling(a, node) for a in args]
                while True:
                    row = []
                    for k, r_ in enumerate(readers):
                        try:
                            row.append(next(r_))
                        except StopIteration:
                            if strict and (k > 0 or any(_has_more(r2) for r2 in readers[1:])):
                                raise RaiseSignal('ValueError', node, interp.where(node), ('zip() arguments have different lengths',)) from None
                            return
                    yield tuple(row)
            return LazyGen(zipped())
        if name == 'enumerate' and args and isinstance(args[0], GenResult):
            from .interp import LazyGen
            start = kwargs.get('start', args[1] if len(args) > 1 else 0)

            def numbered():
                k = start
                for x in interp.pulling(args[0], node):
                    yield (k, x)
                    k += 1
            return LazyGen(numbered())
        if name in ('enumerate', 'list', 'tuple', 'set', 'frozenset', 'reversed'):
            if args:
                args = [interp.iterate(args[0], node), *args[1:]]
            try:
                r = fn(*args, **kwargs)
            except TypeError:
                return Opaque(f'{name} of unhashable')
            return GenResult(r) if name in ('enumerate', 'reversed') else r
        if name == 'dict':
            if args and isinstance(args[0], dict | _MappingProxy):
                return {**args[0], **kwargs}
            if args:
                return dict(interp.iterate(args[0], node), **kwargs)
            return dict(**kwargs)
        if name == 'range':
            if all(isinstance(a, int) for a in args):
                return range(*args)
            return Opaque('range(⊤)')
        if name == 'iter' and len(args) == 2:
            # iter(callable, sentinel): calls on demand, one call per element asked for
            from .interp import LazyGen
            fn_, sentinel = args

            def calls():
                while True:
                    v_ = interp.call(fn_, [], {}, node)
                    if v_ is sentinel or (not isinstance(v_, SVar | Opaque | SObj) and not isinstance(sentinel, SVar | Opaque | SObj) and v_ == sentinel):
                        return
                    yield v_
            return LazyGen(calls())
        if name == 'iter' and len(args) == 1 and not isinstance(args[0], Opaque | SVar):
            if isinstance(args[0], GenResult):
                return args[0]  # an iterator is its own iterator
            it = GenResult(interp.iterate(args[0], node))
            return it
        if name == 'next' and args and not isinstance(args[0], Opaque | SVar):
            it = args[0]
            if isinstance(it, GenResult):
                if it:
                    return it.pop(0)  # consumed: a later loop over the same iterator continues after it
                if len(args) > 1:
                    return args[1]
                raise RaiseSignal('StopIteration', node, interp.where(node))
            if hasattr(it, '__next__'):
                try:
                    return next(it)
                except StopIteration:
                    if len(args) > 1:
                        return args[1]
                    raise RaiseSignal('StopIteration', node, interp.where(node)) from None
            if isinstance(it, list | tuple | dict | str | set):
                raise RaiseSignal('TypeError', node, interp.where(node), (f"'{type(it).__name__}' object is not an iterator",))
        if name in ('map', 'filter') and len(args) >= 2 and not any(isinstance(a, Opaque) for a in args[1:]):
            # iterators: the function runs when an element is asked for, the sources are read only as far as the reader goes
            from .interp import LazyGen
            f = args[0]
            if name == 'map' and len(args) == 2:
                return LazyGen(interp.call(f, [x], {}, node) for x in interp.pulling(args[1], node))
            if name == 'map':
                def rows():
                    readers = [interp.pulling(a, node) for a in args[1:]]
                    while True:
                        row = []
                        for r_ in readers:
                            try:
                                row.append(next(r_))
                            except StopIteration:
                                return
                        yield interp.call(f, row, {}, node)
                return LazyGen(rows())
            return LazyGen(x for x in interp.pulling(args[1], node) if interp.truth(interp.call(f, [x], {}, node) if f is not None else x, node))
        try:
            return fn(*args, **kwargs)
        except (ValueError, TypeError) as ex:
            if name in ('int', 'float') and args and isinstance(args[0], str | int | float | bool) or args and args[0] is None:
                # a concrete conversion that fails in Python fails in the package as well
                raise RaiseSignal(type(ex).__name__, node, interp.where(node), (str(ex),)) from None
            raise AnalysisError(f'builtin {name} failed at {interp.where(node)}: {ex}') from None
        except Exception as ex:  # noqa: BLE001
            raise AnalysisError(f'builtin {name} failed at {interp.where(node)}: {ex}') from None

    def _isinstance(self, interp, x, t, node):
        if t is None or type(t) in (int, float, str, bool, bytes, list, dict, set) or isinstance(t, SVar):
            # isinstance(x, 2): Python refuses anything that is not a class (or a tuple / union of classes)
            raise RaiseSignal('TypeError', node, interp.where(node), ('isinstance() arg 2 must be a type, a tuple of types, or a union',))

        def one(t):
            if isinstance(t, tuple):
                rs = [one(s) for s in t]
                if any(r is True for r in rs):
                    return True
                if all(r is False for r in rs):
                    return False
                return None
            if isinstance(t, _TypeUnion):
                return one(tuple(t.members))
            if isinstance(x, ExcValue):
                # an exception object (what `except ... as err` binds, what __exit__ receives)
                tname = t.path.split('.')[-1] if isinstance(t, ExtRef) else (t.ci.name if isinstance(t, ClassRef) else None)
                if tname is not None:
                    return interp.exc_matches(x.exc_type, [tname])
            if x is None and isinstance(t, ExtRef | ClassRef):
                return t.path == 'types.NoneType' if isinstance(t, ExtRef) else False
            if isinstance(t, ExtRef):
                p = t.path
                if p.startswith('builtins.'):
                    n = p.split('.')[-1]
                    py = {'int': int, 'float': float, 'str': str, 'tuple': tuple, 'list': list,
                          'dict': dict, 'bool': bool, 'set': set}.get(n)
                    if py is None:
                        return None
                    if isinstance(x, SVar | SObj | Unit):
                        return False
                    if isinstance(x, Opaque):
                        return None
                    return isinstance(x, py)
                if p.rpartition('.')[0] in ('collections.abc', 'typing') and p.rpartition('.')[2] in _ABCS and not isinstance(x, Opaque | SVar | SObj | BoundModel):
                    import collections.abc as _abc
                    if isinstance(x, GenResult):
                        return p.rpartition('.')[2] in ('Iterable', 'Iterator', 'Generator')
                    if isinstance(x, _MappingProxy):
                        return p.rpartition('.')[2] in ('Mapping', 'Iterable', 'Sized', 'Container', 'Collection')
                    if x is None or type(x) in (str, int, float, bool, bytes, list, tuple, dict, set, frozenset, range) \
                            or type(x).__name__ in ('dict_keys', 'dict_values', 'dict_items'):
                        return isinstance(x, getattr(_abc, p.rpartition('.')[2]))
                if p in ('scipp.Variable',):
                    if isinstance(x, SVar):
                        return x.kind != 'dataarray' and x.kind != 'raw'
                    return None if isinstance(x, Opaque) else False
                if p in ('scipp.DataArray',):
                    if isinstance(x, SVar):
                        return x.kind == 'dataarray'
                    return None if isinstance(x, Opaque) else False
                if p in ('scipp.Unit',):
                    return isinstance(x, Unit)
                if p == 'numpy.ndarray':
                    if isinstance(x, SVar):
                        return x.kind == 'raw' and bool(x.members.get('is_array', True))
                    if isinstance(x, PyArray):
                        return True
                    return None if isinstance(x, Opaque) else False
                if p in ('datetime.datetime', 'datetime.date'):
                    import datetime as _dt
                    if isinstance(x, SVar | SObj | Unit):
                        return False
                    return None if isinstance(x, Opaque) else isinstance(x, _dt.datetime if p.endswith('datetime') else _dt.date)
                return None
            if isinstance(t, ClassRef):
                if isinstance(x, EnumMember):
                    return x.cls.name == t.ci.name
                if isinstance(x, SObj):
                    c = [x.cls]
                    seen = set()
                    while c:
                        k = c.pop()
                        if k.name == t.ci.name:
                            return True
                        if k.name in seen:
                            continue
                        seen.add(k.name)
                        mi = interp.repo.module(k.module)
                        for b in k.bases:
                            if b in mi.classes:
                                c.append(mi.classes[b])
                    return False
                if isinstance(x, Opaque):
                    return None
                return False
            return None
        r = one(t)
        return Opaque('isinstance') if r is None else r


class PyArray(list):
    """A numpy array built from a python list of abstract values (1-d view)."""

    @property
    def shape(self):
        return (len(self),)

    @property
    def size(self):
        return len(self)

    ndim = 1

    def astype(self, *a, **k):
        return self

    def squeeze(self):
        return self


class _Constituent:
    def __init__(self, v: SVar):
        self.dtype = v.dtype
        self.unit = v.unit


class _TypeUnion:
    def __init__(self, members):
        self.members = members


class _DefaultUnit:
    pass


_DEFAULT_UNIT = _DefaultUnit()


class _Partial:
    def __init__(self, fn, args, kwargs):
        self.fn, self.args, self.kwargs = fn, args, kwargs


_ABCS = ('Mapping', 'MutableMapping', 'Sequence', 'MutableSequence', 'Iterable', 'Iterator', 'Generator', 'Sized', 'Container', 'Collection',
         'Hashable', 'Set', 'MutableSet', 'Callable')


TERM_BUDGET = 1_000_000
TERM_SIZE_LIMIT = 4_000  # monomials of one normal form (largest on the code as it is: 181)
_TERM_SIZE_SEEN = [0]


def _term_size(t) -> int:
    if isinstance(t, Rat):
        n = len(t.num) + len(t.den)
    elif isinstance(t, Vec):
        n = sum(len(c.num) + len(c.den) for c in t.terms.values()) + 1
    else:
        n = 1
    if n > _TERM_SIZE_SEEN[0]:
        _TERM_SIZE_SEEN[0] = n
    return n


def items_of_none(x) -> bool:
    return x.members.get('items') is None and x.members.get('rows') is None


def _has_more(reader) -> bool:
    try:
        next(reader)
        return True
    except StopIteration:
        return False


def _concrete_sort_key(k) -> bool:
    if isinstance(k, bool | int | float | str):
        return True
    if isinstance(k, tuple):
        return all(_concrete_sort_key(x) for x in k)
    return False


class ExactImage:
    """An exact, hashable image of abstract data (a part of a unit's serialised form and what is computed from it): equal
    iff built the same way from equal data.  Stands in for the numbers and strings scipp would hand out, for keys of memo tables."""

    __slots__ = ('payload',)

    def __init__(self, *payload):
        self.payload = payload

    def __eq__(self, o):
        return isinstance(o, ExactImage) and self.payload == o.payload

    def __ne__(self, o):
        return not self == o

    def __hash__(self):
        return hash(('ExactImage', self.payload))

    def __lt__(self, o):
        return repr(self) < repr(o)

    def __repr__(self):
        return '‹' + ' '.join(repr(x) if not isinstance(x, str) else x for x in self.payload) + '›'

    def hex(self):
        return ExactImage('hex', self)

    def __add__(self, o):
        if isinstance(o, str | ExactImage):
            return ExactImage('+', self, o)
        return NotImplemented

    def __radd__(self, o):
        if isinstance(o, str):
            return ExactImage('+', o, self)
        return NotImplemented

    def _text_method(self, name, *args):
        if all(isinstance(a, str | int | ExactImage) for a in args):
            return ExactImage('.' + name, self, *args)
        raise AnalysisError(f'{name}{args!r} of the text behind {self!r} is not modelled')

    def ljust(self, *a):
        return self._text_method('ljust', *a)

    def rjust(self, *a):
        return self._text_method('rjust', *a)

    def strip(self, *a):
        return self._text_method('strip', *a)

    def lower(self):
        return self._text_method('lower')

    def upper(self):
        return self._text_method('upper')

    def __float__(self):
        raise AnalysisError(f'the number behind {self!r} is not modelled')


def _plain_with_images(x) -> bool:
    """plain Python data whose leaves may be exact images"""
    if isinstance(x, ExactImage | str | int | float | bool) or x is None:
        return True
    if isinstance(x, list | tuple | set | frozenset):
        return all(_plain_with_images(y) for y in x)
    if isinstance(x, dict):
        return all(_plain_with_images(k) and _plain_with_images(v) for k, v in x.items())
    return False


def _images_to_text(x):
    if isinstance(x, ExactImage):
        return repr(x)
    if isinstance(x, list | tuple):
        return [_images_to_text(y) for y in x]
    if isinstance(x, dict):
        return {(_images_to_text(k) if isinstance(k, ExactImage) else k): _images_to_text(v) for k, v in x.items()}
    return x


class _SortedView:
    """sorted(seq, key=...) with a symbolic key: a permutation-invariant token."""

    def __init__(self, seq, key):
        self.seq, self.key = seq, key


class _Reducer:
    def __init__(self, model, interp, items):
        self.model, self.interp, self.items = model, interp, items


def _is_nan(v) -> bool:
    return isinstance(v, float) and v != v


def _bind(names, args, kwargs, defaults, kwonly=False):
    out = dict(defaults)
    if len(args) > len(names):
        raise AnalysisError(f'too many positional arguments for model function ({names})')
    for n, a in zip(names, args, strict=False):
        out[n] = a
    for k, v in kwargs.items():
        out[k] = v
    for n in names:
        if n not in out:
            raise AnalysisError(f'missing argument {n} for model function')
    return out


def _text(node) -> str:
    import ast

    try:
        return ast.unparse(node)
    except Exception:  # noqa: BLE001
        return '?'


# ---------------------------------------------------------------------------
def _u_same(interp, us, node):
    return us[0]


def _u_angle_to_one(interp, us, node):
    u = us[0]
    if u not in (Unit.named('rad'), Unit.named('deg')):
        try:
            ok = u.dim(interp.param_dims) == Unit.named('rad').dim({})
        except UnitError:
            ok = False
        if not ok:
            interp.event('unit-mismatch', node, op='trig of non-angle', left=repr(u), right='rad', stmt=_text(node))
    return DIMENSIONLESS


def _u_one_to_angle(interp, us, node):
    if us[0] != DIMENSIONLESS:
        interp.event('unit-mismatch', node, op='inverse trig of united value', left=repr(us[0]), right='dimensionless', stmt=_text(node))
    return Unit.named('rad')


def _u_atan2(interp, us, node):
    if us[0] != us[1]:
        interp.event('unit-mismatch', node, op='atan2', left=repr(us[0]), right=repr(us[1]), stmt=_text(node))
    return Unit.named('rad')


def _u_one(interp, us, node):
    if us[0] != DIMENSIONLESS:
        interp.event('unit-mismatch', node, op='exp/log of united value', left=repr(us[0]), right='dimensionless', stmt=_text(node))
    return DIMENSIONLESS


_ELEMENTWISE = {
    'sqrt': dict(params=['x'], float_only=True, unit=lambda i, us, n: us[0] ** F(1, 2), term=lambda x: T.sqrt(x)),
    'reciprocal': dict(params=['x'], float_only=True, unit=lambda i, us, n: us[0] ** -1, term=lambda x: 1 / x),
    'abs': dict(params=['x'], unit=_u_same, term=T.fn_abs,
                vterm=lambda x: (_ for _ in ()).throw(TypeError('abs of vector'))),
    'sin': dict(params=['x'], float_only=True, unit=_u_angle_to_one, term=T.FN_CTORS['sin']),
    'cos': dict(params=['x'], float_only=True, unit=_u_angle_to_one, term=T.FN_CTORS['cos']),
    'tan': dict(params=['x'], float_only=True, unit=_u_angle_to_one, term=T.FN_CTORS['tan']),
    'asin': dict(params=['x'], float_only=True, unit=_u_one_to_angle, term=T.FN_CTORS['asin']),
    'acos': dict(params=['x'], float_only=True, unit=_u_one_to_angle, term=T.FN_CTORS['acos']),
    'atan': dict(params=['x'], float_only=True, unit=_u_one_to_angle, term=lambda x: Rat.fn('atan', x)),
    'atan2': dict(params=['y', 'x'], float_only=True, same_dtype=True, unit=_u_atan2, term=T.fn_atan2),
    'exp': dict(params=['x'], float_only=True, unit=_u_one, term=T.fn_exp),
    'log': dict(params=['x'], float_only=True, unit=_u_one, term=T.FN_CTORS['log']),
    'round': dict(params=['x'], unit=_u_same, term=lambda x: Rat.fn('round', x)),
    'floor': dict(params=['x'], unit=_u_same, term=lambda x: Rat.fn('floor', x)),
    'ceil': dict(params=['x'], unit=_u_same, term=lambda x: Rat.fn('ceil', x)),
    'isnan': dict(params=['x'], unit=lambda i, us, n: DIMENSIONLESS, dtype='bool', term=lambda x: Rat.fn('isnan', x)),
    'isfinite': dict(params=['x'], unit=lambda i, us, n: DIMENSIONLESS, dtype='bool', term=lambda x: Rat.fn('isfinite', x)),
    'nan_to_num': dict(params=['x'], unit=_u_same, term=lambda x: Rat.fn('nan_to_num', x)),
    'erf': dict(params=['x'], float_only=True, unit=_u_one, term=lambda x: Rat.fn('erf', x)),
}
