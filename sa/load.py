"""Parse /repo/src/scippneutron into an index of modules, functions, classes.

Nothing is imported from the repository; everything is `ast`.
"""

from __future__ import annotations

import ast
import hashlib
import os
from dataclasses import dataclass, field

REPO = os.environ.get('VERIF_REPO', '/repo')
PKG = 'scippneutron'


class AnalysisError(Exception):
    """An anchor vanished or the code left the analysable subset (exit 2)."""


@dataclass
class FuncInfo:
    module: str  # dotted, relative to package root, e.g. 'conversion.tof'
    qualname: str  # 'wavelength_from_tof' or 'DiskChopper.time_offset_open'
    node: ast.FunctionDef
    cls: ClassInfo | None = None

    @property
    def fq(self) -> str:
        return f'{self.module}:{self.qualname}'

    @property
    def file(self) -> str:
        return MODULE_FILES.get(self.module, self.module)

    def decorators(self) -> list[str]:
        return [ast.unparse(d) for d in self.node.decorator_list]


@dataclass
class ClassInfo:
    module: str
    name: str
    node: ast.ClassDef
    methods: dict[str, FuncInfo] = field(default_factory=dict)
    bases: list[str] = field(default_factory=list)

    def decorators(self) -> list[str]:
        return [ast.unparse(d) for d in self.node.decorator_list]

    def is_dataclass(self) -> bool:
        return any('dataclass' in d for d in self.decorators())

    def dataclass_fields(self) -> list[tuple[str, ast.expr | None]]:
        out = []
        for st in self.node.body:
            if isinstance(st, ast.AnnAssign) and isinstance(st.target, ast.Name):
                ann = ast.unparse(st.annotation)
                if ann.startswith('ClassVar'):
                    continue
                out.append((st.target.id, st.value))
        return out


@dataclass
class ModuleInfo:
    name: str
    path: str
    tree: ast.Module
    source: str
    functions: dict[str, FuncInfo] = field(default_factory=dict)
    classes: dict[str, ClassInfo] = field(default_factory=dict)
    # local name -> ('module', dotted) | ('attr', dotted module, attr) | ('ext', dotted)
    imports: dict[str, tuple] = field(default_factory=dict)
    assigns: dict[str, ast.expr] = field(default_factory=dict)


MODULE_FILES: dict[str, str] = {}


class Repo:
    def __init__(self, root: str | None = None):
        self.root = root or REPO
        self.src = os.path.join(self.root, 'src', PKG)
        if not os.path.isdir(self.src):
            raise AnalysisError(f'source tree {self.src} not found')
        self.modules: dict[str, ModuleInfo] = {}
        self.digest = hashlib.sha256()
        self._load()

    # ------------------------------------------------------------------
    def _load(self) -> None:
        for dirpath, dirnames, filenames in os.walk(self.src):
            dirnames[:] = sorted(d for d in dirnames if d != '__pycache__')
            for fn in sorted(filenames):
                if not fn.endswith('.py'):
                    continue
                path = os.path.join(dirpath, fn)
                rel = os.path.relpath(path, self.src)
                parts = rel[:-3].split(os.sep)
                if parts[-1] == '__init__':
                    parts = parts[:-1]
                name = '.'.join(parts)
                with open(path, encoding='utf-8') as f:
                    source = f.read()
                self.digest.update(rel.encode())
                self.digest.update(source.encode())
                try:
                    tree = ast.parse(source, filename=path)
                except SyntaxError as e:  # a tree that does not compile
                    raise AnalysisError(f'cannot parse {path}: {e}') from None
                mi = ModuleInfo(name=name, path=path, tree=tree, source=source)
                MODULE_FILES[name] = os.path.relpath(path, self.root)
                self._index(mi, is_pkg=fn == '__init__.py')
                self.modules[name] = mi

    def _index(self, mi: ModuleInfo, is_pkg: bool) -> None:
        pkg_parts = mi.name.split('.') if mi.name else []
        if not is_pkg:
            pkg_parts = pkg_parts[:-1]

        def visit_body(body):
            for st in body:
                if isinstance(st, ast.FunctionDef | ast.AsyncFunctionDef):
                    mi.functions[st.name] = FuncInfo(mi.name, st.name, st)
                elif isinstance(st, ast.ClassDef):
                    ci = ClassInfo(
                        mi.name, st.name, st, bases=[ast.unparse(b) for b in st.bases]
                    )
                    for sub in st.body:
                        if isinstance(sub, ast.FunctionDef):
                            # keep the last definition unless it's a setter/overload
                            decs = [ast.unparse(d) for d in sub.decorator_list]
                            if any(d.endswith('.setter') for d in decs):
                                ci.methods[sub.name + '.setter'] = FuncInfo(
                                    mi.name, f'{st.name}.{sub.name}.setter', sub, ci
                                )
                                continue
                            if any(d.endswith('overload') for d in decs):
                                continue
                            ci.methods[sub.name] = FuncInfo(
                                mi.name, f'{st.name}.{sub.name}', sub, ci
                            )
                    mi.classes[st.name] = ci
                elif isinstance(st, ast.Import):
                    for a in st.names:
                        local = a.asname or a.name.split('.')[0]
                        target = a.name if a.asname else a.name.split('.')[0]
                        mi.imports[local] = self._classify(target)
                elif isinstance(st, ast.ImportFrom):
                    if st.level:
                        base = pkg_parts[: len(pkg_parts) - (st.level - 1)]
                        modparts = base + (st.module.split('.') if st.module else [])
                        dotted = '.'.join(modparts)
                        for a in st.names:
                            mi.imports[a.asname or a.name] = ('rel', dotted, a.name)
                    else:
                        for a in st.names:
                            full = f'{st.module}.{a.name}'
                            if st.module == PKG or st.module.startswith(PKG + '.'):
                                dotted = st.module[len(PKG) :].lstrip('.')
                                mi.imports[a.asname or a.name] = ('rel', dotted, a.name)
                            else:
                                mi.imports[a.asname or a.name] = ('ext', full)
                elif isinstance(st, ast.Assign):
                    for t in st.targets:
                        if isinstance(t, ast.Name):
                            mi.assigns[t.id] = st.value
                elif isinstance(st, ast.AnnAssign):
                    if isinstance(st.target, ast.Name) and st.value is not None:
                        mi.assigns[st.target.id] = st.value
                elif isinstance(st, ast.If | ast.Try):
                    # module-level conditionals (TYPE_CHECKING, try-import)
                    for sub in ast.iter_child_nodes(st):
                        pass
                    visit_body(getattr(st, 'body', []))
                    visit_body(getattr(st, 'orelse', []))
                    for h in getattr(st, 'handlers', []):
                        visit_body(h.body)

        visit_body(mi.tree.body)

    @staticmethod
    def _classify(dotted: str) -> tuple:
        if dotted == PKG or dotted.startswith(PKG + '.'):
            return ('module', dotted[len(PKG) :].lstrip('.'))
        return ('ext', dotted)

    # ------------------------------------------------------------------
    def module(self, name: str) -> ModuleInfo:
        if name not in self.modules:
            raise AnalysisError(f'anchor module {name} not found')
        return self.modules[name]

    def ext_path(self, module: str, expr: ast.expr) -> str | None:
        """Dotted path of an external name as written in `module` (aliases of imports resolved): lru_cache, functools.cache,
        `from functools import cache as _cache` all give functools.<name>."""
        text = ast.unparse(expr)
        head, _, rest = text.partition('.')
        imp = self.modules[module].imports.get(head) if module in self.modules else None
        if imp is None or imp[0] != 'ext':
            return None
        return imp[1] + ('.' + rest if rest else '')

    def memoised(self, fi: FuncInfo) -> bool:
        """Is the function wrapped by functools.lru_cache / functools.cache (under whatever local name)?"""
        for d in fi.node.decorator_list:
            f = d.func if isinstance(d, ast.Call) else d
            if self.ext_path(fi.module, f) in ('functools.lru_cache', 'functools.cache'):
                return True
        return False

    def _follow(self, module: str, name: str, depth: int = 0):
        """(kind, info) of `name` in the namespace of `module`, following imports inside the package:
        a helper that was moved to another module and imported back is still the module's helper."""
        mi = self.module(module)
        if name in mi.functions:
            return ('func', mi.functions[name])
        if name in mi.classes:
            return ('class', mi.classes[name])
        imp = mi.imports.get(name)
        if imp is not None and imp[0] == 'rel' and depth < 8:
            got = self.resolve_rel(imp[1], imp[2])
            if got is not None and got[0] in ('func', 'class'):
                return got
        return None

    def func(self, module: str, qualname: str) -> FuncInfo:
        if '.' in qualname:
            cname, mname = qualname.split('.', 1)
            got = self._follow(module, cname)
            if got is None or got[0] != 'class' or mname not in got[1].methods:
                raise AnalysisError(f'anchor {module}:{qualname} not found')
            return got[1].methods[mname]
        got = self._follow(module, qualname)
        if got is None or got[0] != 'func':
            raise AnalysisError(f'anchor {module}:{qualname} not found')
        return got[1]

    def cls(self, module: str, name: str) -> ClassInfo:
        got = self._follow(module, name)
        if got is None or got[0] != 'class':
            raise AnalysisError(f'anchor class {module}:{name} not found')
        return got[1]

    def resolve_rel(self, dotted: str, attr: str):
        """Resolve `from <dotted> import attr` to a module, function, class or None."""
        sub = f'{dotted}.{attr}' if dotted else attr
        if sub in self.modules:
            return ('module', sub)
        if dotted in self.modules:
            mi = self.modules[dotted]
            if attr in mi.functions:
                return ('func', mi.functions[attr])
            if attr in mi.classes:
                return ('class', mi.classes[attr])
            if attr in mi.assigns:
                return ('global', mi, attr)
            if attr in mi.imports:
                imp = mi.imports[attr]
                if imp[0] == 'rel':
                    return self.resolve_rel(imp[1], imp[2])
                if imp[0] == 'module':
                    return ('module', imp[1])
                return ('ext', imp[1])
            # lazy-loader stubs: look at the .pyi next to the package
            pyi = os.path.join(os.path.dirname(mi.path), '__init__.pyi')
            if os.path.basename(mi.path) == '__init__.py' and os.path.exists(pyi):
                return self._resolve_stub(dotted, pyi, attr)
        return None

    def _resolve_stub(self, dotted: str, pyi: str, attr: str):
        try:
            tree = ast.parse(open(pyi, encoding='utf-8').read())
        except SyntaxError:
            return None
        parts = dotted.split('.') if dotted else []
        for st in tree.body:
            if isinstance(st, ast.ImportFrom) and st.level:
                base = parts[: len(parts) - (st.level - 1)]
                modparts = base + (st.module.split('.') if st.module else [])
                for a in st.names:
                    if (a.asname or a.name) == attr:
                        return self.resolve_rel('.'.join(modparts), a.name)
        return None

    def all_functions(self):
        for mi in self.modules.values():
            yield from mi.functions.values()
            for ci in mi.classes.values():
                yield from ci.methods.values()


def loc(fi: FuncInfo, node: ast.AST | None = None) -> str:
    line = getattr(node, 'lineno', None) or fi.node.lineno
    return f'{fi.file}:{fi.qualname}:{line}'


def where_of(repo, module: str, *qualnames: str) -> str:
    """Location for a report: the first of the named functions that exists (private helpers come and go), else the module."""
    for q in qualnames:
        try:
            return loc(repo.func(module, q))
        except AnalysisError:
            continue
    return f'{repo.module(module).path.split("/src/")[-1]}:<module>'


def norm_text(node: ast.AST) -> str:
    """Normalised statement text: stable across formatting, used in finding keys."""
    return ast.unparse(node)
