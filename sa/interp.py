"""AST abstract interpreter for the loop-poor kernels of scippneutron.

Values: SVar (abstract scipp variable: term, unit, dtype, identity, taint),
Unit, DType (str), concrete Python values, SObj (instances of repo classes),
Opaque (⊤).  Calls into the repository are inlined; calls into scipp/numpy/math
go through the model table in scipp_model.py.  Symbolic branch conditions fork
(all paths are enumerated; the code is loop-free or loops over concrete
iterables).
"""

from __future__ import annotations

import ast
import collections
import operator
from dataclasses import dataclass, field
from fractions import Fraction as F

from . import term as T
from .load import AnalysisError, ClassInfo, FuncInfo, ModuleInfo, Repo
from .term import Mat, Rat, Vec
from .units import Unit


class Opaque:
    """⊤: a value the analysis knows nothing about (but remembers why)."""

    def __init__(self, why: str, cond_term=None, shape_of_events: bool = False):
        self.why = why
        self.cond_term = cond_term
        # a number read off the shape of a possibly-binned operand (size, len, shape): it counts bins for event data and
        # elements for dense data, so a decision taken on it may differ between the two
        self.shape_of_events = shape_of_events

    def __repr__(self):
        return f'⊤({self.why})'


class SVar:
    _next = 0

    def __init__(self, term=None, unit: Unit | None = None, dtype: str | None = None,
                 origin: str | None = None, taint: bool = False, why: str = ''):
        SVar._next += 1
        self.id = SVar._next
        self.term = term  # Rat | Vec | Mat | None
        self.unit = unit
        self.dtype = dtype
        self.origin = origin  # parameter name if this is a parameter object
        self.taint = taint
        self.may_alias: set[int] = set()  # ids of objects that may share memory
        self.view_of: SVar | None = None
        self.why = why  # why term is None
        self.hist: frozenset = frozenset()  # provenance: (seq, op, dtype) of fp operations
        self.kind = 'variable'  # or 'dataarray'
        self.members: dict = {}  # coords / masks / data for data arrays
        self.mag = None  # (lo, hi): log10 bounds of the non-zero magnitude in the stored unit (sa/magdomain.py)

    def __repr__(self):
        return f'SVar#{self.id}(term={T.show(self.term) if self.term is not None else "⊤:" + self.why}, unit={self.unit}, dtype={self.dtype})'


class SObj:
    def __init__(self, cls: ClassInfo, attrs: dict | None = None):
        self.cls = cls
        self.attrs = attrs or {}

    def __repr__(self):
        return f'<{self.cls.name} {self.attrs}>'


@dataclass
class FuncRef:
    fi: FuncInfo
    bound: object = None  # self
    closure: dict | None = None  # enclosing environment of a nested function
    raw: bool = False  # the function itself, as handed to its own decorators
    defaults: tuple | None = None  # (positional defaults, keyword-only defaults) evaluated when the def statement ran

    def __hash__(self):
        return hash((self.fi.fq, id(self.bound)))


class Memoised:
    """functools.lru_cache(...)(f) / functools.cache(f) as an object: one stored result per key, in the world of the interpreter."""

    def __init__(self, fn):
        self.fn = fn

    def vp_call(self, interp, args, kwargs, node):
        return interp.call_through_memo(self, lambda: interp.call(self.fn, list(args), dict(kwargs), node), list(args), kwargs)

    def cache_clear(self):
        return None

    def cache_info(self):
        return Opaque('cache_info')


class MemoDecorator:
    """functools.lru_cache(maxsize=..., typed=...): waits for the function"""

    def vp_call(self, interp, args, kwargs, node):
        return Memoised(args[0])


@dataclass
class ClassRef:
    ci: ClassInfo

    def __hash__(self):  # a class of the package as a dictionary key / set element
        return hash((self.ci.module, self.ci.name))

    def __eq__(self, o):
        return isinstance(o, ClassRef) and (o.ci.module, o.ci.name) == (self.ci.module, self.ci.name)


@dataclass(frozen=True)
class ExtRef:
    path: str  # dotted, e.g. 'scipp.to_unit'


@dataclass
class BoundModel:
    """A scipp/numpy method bound to an abstract value."""
    recv: object
    name: str


@dataclass
class SuperRef:
    obj: object
    cls: ClassInfo


@dataclass
class ModuleRef:
    mi: ModuleInfo


@dataclass
class Lambda:
    node: ast.Lambda
    env: dict
    mi: ModuleInfo
    defaults: tuple | None = None  # default values, evaluated when the lambda expression ran


class PassThrough(Exception):
    """Raised by abstract-domain objects (sa/absio.py); travels through the interpreter unchanged."""


class EnumMember:
    """A member of an enum class of the repository (only with Interp.concrete_enums)."""

    def __init__(self, cls: ClassInfo, name: str, value):
        self.cls, self.name, self.value = cls, name, value

    def __repr__(self):
        return f'{self.cls.name}.{self.name}'


class _NtMethod:
    """Bound helper method of a typing.NamedTuple instance (_asdict, _replace); called through the vp_call protocol."""

    def __init__(self, fn):
        self.fn = fn

    def vp_call(self, interp, args, kwargs, node):
        return self.fn(interp, args, kwargs, node)



_PLAIN_TYPES = (str, int, float, bool, bytes, list, tuple, dict, set, frozenset, range, slice, complex, type(None))


_MUTATING_METHODS = {'append', 'extend', 'insert', 'pop', 'popitem', 'remove', 'clear', 'update', 'setdefault', 'add', 'discard', 'sort', 'reverse',
                     'difference_update', 'intersection_update', 'symmetric_difference_update', '__setitem__', '__delitem__'}


class _NoKey(Exception):
    """an argument of a memoised function that the analysis cannot compare with others"""


class _Identity:
    """an object without __eq__: equal to itself only"""

    def __init__(self, obj):
        self.obj = obj

    def __eq__(self, o):
        return isinstance(o, _Identity) and o.obj is self.obj

    def __hash__(self):
        return id(self.obj)


class _ObjKey:
    """an object of the package as a dictionary key: compared and hashed by its own __eq__ / __hash__"""

    def __init__(self, interp, obj):
        self.interp, self.obj = interp, obj

    def __hash__(self):
        it = self.interp
        m = it.find_method(self.obj.cls, '__hash__')
        if m is None:
            return 0  # all such objects in one bucket: __eq__ decides
        h = it.call_function(m, [], {}, bound=self.obj)
        if not isinstance(h, int):
            raise _NoKey()
        return h

    def __eq__(self, o):
        if not isinstance(o, _ObjKey):
            return False
        if o.obj is self.obj:
            return True
        it = self.interp
        m = it.find_method(self.obj.cls, '__eq__')
        if m is None:
            return False
        r = it.call_function(m, [o.obj], {}, bound=self.obj)
        if isinstance(r, ExtRef) and r.path.endswith('NotImplemented'):
            return False
        if not isinstance(r, bool):
            raise _NoKey()
        return r


def _plain(*vals) -> bool:
    """All operands are plain Python values: what Python does with them is what the package does."""
    return all(type(v) in _PLAIN_TYPES for v in vals)


class GenResult(list):
    """Values a one-shot iterator still has to produce (generator functions and expressions, zip, map, filter, enumerate,
    reversed, itertools.*; evaluated eagerly).  Iterating it (Interp.iterate, next) consumes it, as in Python."""

    context_manager = False


class ExitStackModel:
    """contextlib.ExitStack(): context managers entered through it are left, last first, when the stack is."""

    def __init__(self, interp):
        self.interp = interp
        self.entered: list = []
        self.callbacks: list = []

    def vp_enter(self, interp):
        return self

    def enter_context(self, cm):
        it = self.interp
        self.entered.append(cm)
        if isinstance(cm, GenResult) and cm.context_manager:
            return cm[0] if cm else None
        if isinstance(cm, SObj) and it.find_method(cm.cls, '__enter__') is not None:
            return it.call_function(it.find_method(cm.cls, '__enter__'), [], {}, bound=cm)
        if hasattr(cm, 'vp_enter'):
            return cm.vp_enter(it)
        return cm  # (files and the like: entering gives the object itself)

    def callback(self, fn, *args, **kwargs):
        self.callbacks.append((fn, args, kwargs))
        return fn

    def push(self, cm):
        self.entered.append(cm)
        return cm

    def pop_all(self):
        other = ExitStackModel(self.interp)
        other.entered, other.callbacks = self.entered, self.callbacks
        self.entered, self.callbacks = [], []
        return other

    def close(self):
        self.vp_exit(self.interp, None)

    def vp_exit(self, interp, exc) -> bool:
        swallowed = False
        for fn, args, kwargs in reversed(self.callbacks):
            interp.call(fn, list(args), dict(kwargs), interp.cur_node)
        self.callbacks = []
        for cm in reversed(self.entered):
            if isinstance(cm, Suppress) and exc is not None and interp.exc_matches(exc.exc_type, cm.names):
                swallowed, exc = True, None
            elif interp._exit(cm, exc):
                swallowed, exc = True, None
        self.entered = []
        return swallowed


class Suppress:
    """contextlib.suppress(*exceptions)"""

    context_manager = True

    def __init__(self, names):
        self.names = list(names)


class ReturnSignal(Exception):
    def __init__(self, value):
        self.value = value


class RaiseSignal(Exception):
    def __init__(self, exc_type: str, node, where: str, args: tuple = ()):
        self.exc_type = exc_type
        self.node = node
        self.where = where
        self.exc_args = args


class ExcValue:
    """The object bound by `except E as err`."""

    def __init__(self, exc_type: str, args: tuple):
        self.exc_type = exc_type
        self.args = args


class BreakSignal(Exception):
    pass


class ContinueSignal(Exception):
    pass


@dataclass
class Event:
    kind: str
    where: str
    detail: dict


@dataclass
class Outcome:
    kind: str  # 'return' | 'raise'
    value: object
    conditions: list  # [(cond description/term, taken: bool, where)]
    events: list
    exc_type: str | None = None
    where: str | None = None


class Interp:
    MAX_PATHS = 512
    MAX_DEPTH = 12

    def __init__(self, repo: Repo, model):
        self.repo = repo
        self.model = model
        self.events: list[Event] = []
        self.conditions: list = []
        self._choices: list[bool] = []
        self._choice_idx = 0
        self.depth = 0
        self.call_stack: list[FuncInfo] = []
        self.param_dims: dict[str, str] = {}
        self.objects: dict[int, SVar] = {}
        self._decided: dict = {}
        self.concrete_enums = True
        self._gen_stack: list = []
        self.cur_node = None
        self.steps = 0
        self.stubs: dict = {}  # FuncInfo.fq -> callable(interp, args, kwargs, bound): replaces a repository function
        self.yielded: list = []
        self._enum_cache: dict = {}

    # ------------------------------------------------------------------
    # path enumeration
    def run_all(self, fn, *a, **kw) -> list[Outcome]:
        """Run fn(interp) for every combination of symbolic branch decisions."""
        outcomes = []
        pending = [[]]
        while pending:
            prefix = pending.pop()
            self._choices = list(prefix)
            self._choice_idx = 0
            self.events = []
            self.conditions = []
            self._decided = {}
            self.__dict__.pop('_order_decisions', None)
            self.depth = 0
            self.call_stack = []
            self.steps = 0
            if getattr(self, '_world_dirty', False):
                self.reset_world()  # every path starts in the world the run started in, not in the one the previous path left
            try:
                val = fn(self, *a, **kw)
                out = Outcome('return', val, self.conditions, self.events)
            except ReturnSignal as r:
                out = Outcome('return', r.value, self.conditions, self.events)
            except RaiseSignal as r:
                out = Outcome('raise', None, self.conditions, self.events, r.exc_type, r.where)
                out.exc_args = r.exc_args  # type: ignore[attr-defined]
            outcomes.append(out)
            # schedule alternatives for decisions made beyond the prefix
            for i in range(len(prefix), len(self._choices)):
                alt = self._choices[:i] + [not self._choices[i]]
                pending.append(alt)
            if len(outcomes) > self.MAX_PATHS:
                raise AnalysisError('too many paths')
        return outcomes

    def decide(self, cond, where: str) -> bool:
        """Fork on a symbolic condition (the same condition is decided once per path)."""
        key = None
        t = getattr(cond, 'term', None)
        if t is not None:
            key = T.show(t)
            if key in self._decided:
                return self._decided[key]
        c = self._decide_new(cond, where)
        if key is not None:
            self._decided[key] = c
        return c

    def _decide_new(self, cond, where: str) -> bool:
        if self._choice_idx < len(self._choices):
            c = self._choices[self._choice_idx]
        else:
            c = True
            self._choices.append(c)
        self._choice_idx += 1
        self.conditions.append((cond, c, where))
        return c

    def event(self, kind: str, node, **detail):
        self.events.append(Event(kind, self.where(node), detail))

    def where(self, node) -> str:
        fi = self.call_stack[-1] if self.call_stack else None
        line = getattr(node, 'lineno', 0)
        if fi is None:
            return f'?:{line}'
        return f'{fi.file}:{fi.qualname}:{line}'

    # ------------------------------------------------------------------
    # calling repository functions
    def call_function(self, fi: FuncInfo, args: list, kwargs: dict, bound=None, closure=None, raw=False, defaults=None):
        if self.stubs and fi.fq in self.stubs:
            return self.stubs[fi.fq](self, list(args), dict(kwargs), bound)
        if self.depth >= self.MAX_DEPTH:
            raise AnalysisError(f'inlining depth exceeded at {fi.fq}')
        decs = fi.decorators()
        if decs and not raw and bound is None and fi.cls is None and closure is None:
            wrapped = self.decorated(fi)
            if wrapped is not None:
                return self.call(wrapped, list(args), dict(kwargs), self.cur_node)
        if decs and not getattr(self, '_in_memo', None) == fi.fq and self.repo.memoised(fi):
            return self.call_memoised(fi, args, kwargs, bound, closure)
        if bound is None and fi.cls is None and any(d.split('.')[-1] == 'singledispatch' for d in decs) and (args or kwargs):
            impl = self.single_dispatch(fi, args[0] if args else next(iter(kwargs.values())))
            if impl is not fi:
                return self.call_function(impl, args, kwargs, closure=closure)
        node = fi.node
        if closure is None and fi.cls is not None and getattr(fi.cls, 'closure_env', None) is not None:
            closure = fi.cls.closure_env  # a method of a class defined inside a function
        # the body runs in its own scope in front of the enclosing function's live scope (a closure reads the variables as they
        # are now; `nonlocal` writes go there)
        env: dict = _Scope({}, closure) if closure is not None else {}
        env['__frame__'] = fi
        a = node.args
        pos = list(a.posonlyargs) + list(a.args)
        args = list(args)
        if bound is not None:
            args = [bound, *args]
        elif fi.cls is not None and any(d == 'classmethod' for d in decs):
            args = [ClassRef(fi.cls), *args]
        mi = self.repo.module(fi.module)
        if defaults is None:
            defaults = self.defaults_of(fi, mi)
        pos_defaults, kw_defaults = defaults
        n_nodef = len(pos) - len(pos_defaults)
        for i, p in enumerate(pos):
            if i < len(args):
                env[p.arg] = args[i]
            elif p.arg in kwargs:
                env[p.arg] = kwargs.pop(p.arg)
            elif i >= n_nodef:
                env[p.arg] = pos_defaults[i - n_nodef]
            else:
                raise RaiseSignal('TypeError', node, f'{fi.file}:{fi.qualname}: missing argument {p.arg}')
        if len(args) > len(pos):
            if a.vararg:
                env[a.vararg.arg] = tuple(args[len(pos):])
            else:
                raise AnalysisError(f'too many arguments calling {fi.fq}')
        elif a.vararg:
            env[a.vararg.arg] = ()
        for p, d in zip(a.kwonlyargs, kw_defaults, strict=True):
            if p.arg in kwargs:
                env[p.arg] = kwargs.pop(p.arg)
            elif d is not _MISSING:
                env[p.arg] = d
            else:
                raise RaiseSignal('TypeError', node, f'{fi.file}:{fi.qualname}: missing keyword argument {p.arg}')
        if a.kwarg:
            env[a.kwarg.arg] = dict(kwargs)
        elif kwargs:
            raise RaiseSignal('TypeError', node, f'{fi.file}:{fi.qualname}: unexpected keyword arguments {list(kwargs)}')
        self.depth += 1
        self.call_stack.append(fi)
        gen = _is_generator(node)
        if gen:
            collector = GenResult()
            collector.context_manager = any(d.split('.')[-1] == 'contextmanager' for d in decs)
            self._gen_stack.append(collector)
        try:
            self.exec_body(node.body, env, mi)
            return collector if gen else None
        except ReturnSignal as r:
            return collector if gen else r.value
        finally:
            if gen:
                self._gen_stack.pop()
            self.depth -= 1
            self.call_stack.pop()

    def eval_defaults(self, args: ast.arguments, env, mi) -> tuple:
        """Default values as the def statement / lambda expression computes them: once, in the defining scope."""
        return (tuple(self.eval(d, env, mi) for d in args.defaults),
                tuple(self.eval(d, env, mi) if d is not None else _MISSING for d in args.kw_defaults))

    def defaults_of(self, fi: FuncInfo, mi) -> tuple:
        """Defaults of a module-level function or method: evaluated once per world, when the module is imported (a mutable default
        is state shared by all calls)."""
        a = fi.node.args
        if not a.defaults and not any(d is not None for d in a.kw_defaults):
            return (), tuple(_MISSING for _ in a.kw_defaults)
        cache = self.__dict__.setdefault('_globals', {})
        key = (fi.module, fi.qualname, '#defaults', id(fi.node))
        if key not in cache:
            cache[key] = self.eval_defaults(a, {}, mi)
            self.track_world(cache[key])
        return cache[key]

    # ------------------------------------------------------------------
    # the world: module-level state that outlives a call (memo tables, lru_cache stores, rebinding of globals)
    def call_memoised(self, fi: FuncInfo, args, kwargs, bound, closure):
        """functools.lru_cache / cache: one stored result per key; the key compares the way Python compares the arguments."""
        def through():
            prev = getattr(self, '_in_memo', None)
            self._in_memo = fi.fq
            try:
                return self.call_function(fi, args, kwargs, bound=bound, closure=closure)
            finally:
                self._in_memo = prev
        try:
            key = (tuple(self.memo_key(a) for a in ([bound] if bound is not None else []) + list(args)),
                   tuple((k, self.memo_key(v)) for k, v in kwargs.items()))
            if bound is None and len(args) == 1 and not kwargs and type(args[0]) in (int, str):
                key = ('the argument itself', args[0])  # functools: a lone int / str is its own key (f(2) and f(2.0) differ)
            store = self.__dict__.setdefault('_memo', {}).setdefault(fi.fq, {})
            hit = key in store
        except _NoKey:
            return through()  # an argument the analysis cannot compare: computed anew (what a miss does)
        if hit:
            self.memo_hits = getattr(self, 'memo_hits', 0) + 1
            return store[key]
        val = through()  # an exception is not stored
        store[key] = val
        self._world_dirty = True
        return val

    def call_through_memo(self, owner, compute, args, kwargs):
        try:
            key = (tuple(self.memo_key(a) for a in args), tuple((k, self.memo_key(v)) for k, v in kwargs.items()))
            if len(args) == 1 and not kwargs and type(args[0]) in (int, str):
                key = ('the argument itself', args[0])
            store = self.__dict__.setdefault('_memo', {}).setdefault(id(owner), {})
            self.__dict__.setdefault('_memo_owners', []).append(owner)  # (keeps the owner alive: its id is not reused)
            hit = key in store
        except _NoKey:
            return compute()
        if hit:
            self.memo_hits = getattr(self, 'memo_hits', 0) + 1
            return store[key]
        val = compute()
        store[key] = val
        self._world_dirty = True
        return val

    def package_decorator(self, d, mi) -> bool:
        """Is the decorator expression a function of the package (or a call of one), as opposed to a builtin, an external
        decorator, a property setter or a method of a registry object (those keep their own handling)?"""
        f = d.func if isinstance(d, ast.Call) else d
        if not isinstance(f, ast.Name):
            return False
        if f.id in mi.functions:
            return True
        imp = mi.imports.get(f.id)
        if imp is not None and imp[0] == 'rel':
            r = self.repo.resolve_rel(imp[1], imp[2])
            return bool(r) and r[0] == 'func'
        return False

    def decorated(self, fi: FuncInfo):
        """What the module-level name of `fi` is bound to once its decorators have run (once per world): the decorators that are
        functions of the package are applied to the function, innermost first.  None without such decorators."""
        mi = self.repo.module(fi.module)
        mine = [d for d in fi.node.decorator_list if self.package_decorator(d, mi)]
        if not mine:
            return None
        cache = self.__dict__.setdefault('_globals', {})
        key = (fi.module, fi.qualname, '#decorated')
        if key not in cache:
            val = FuncRef(fi, raw=True)
            cache[key] = val  # (a decorator that calls the function while decorating gets the function itself)
            for d in reversed(mine):
                val = self.call(self.eval(d, {}, mi), [val], {}, d)
            cache[key] = val
            self.track_world(val)
        return cache[key]

    def dict_key(self, k, container=None):
        """The key of a Python dict / set as Python finds it: an abstract number or an object of the package (or a tuple holding
        one) is looked for among the keys already there by what Python compares (equal symbolic values; dataclass fields; the
        object's own __eq__) - the key found is returned, else the key itself (which is what gets stored)."""
        def has_abstract(x):
            return isinstance(x, SVar | SObj | EnumMember) or (isinstance(x, tuple) and any(has_abstract(y) for y in x))
        if container is None or not has_abstract(k):
            return k
        try:
            want = self.memo_key(k)
            for existing in list(container):
                if existing is k:
                    return existing
                if has_abstract(existing) and self.memo_key(existing) == want:
                    return existing
        except _NoKey:
            pass
        return k

    def memo_key(self, v):
        """A Python-hashable stand-in for an argument of a memoised function: equal stand-ins iff Python would find the arguments
        equal (strings, numbers, tuples, units, enum members; objects by their __eq__ / __hash__ or by identity)."""
        if v is None or isinstance(v, str | int | float | bool | bytes | frozenset | EnumMember) or type(v).__name__ in ('ExactImage', 'Unit'):
            return v
        if isinstance(v, tuple):
            return tuple(self.memo_key(x) for x in v)
        if isinstance(v, type) or type(v).__module__ in ('pathlib', 'datetime', 'fractions', 'decimal', 'uuid') \
                or any(c.__module__ == 'pathlib' for c in type(v).__mro__):
            return v  # concrete values of the standard library compare and hash as in Python
        if isinstance(v, FuncRef):
            return ('function', v.fi.fq, id(v.bound) if v.bound is not None else None)
        if isinstance(v, ClassRef):
            return ('class', v.ci.module, v.ci.name)
        if isinstance(v, ExtRef):
            return ('ext', v.path)
        if isinstance(v, list | dict | set):
            raise RaiseSignal('TypeError', self.cur_node, self.where(self.cur_node), (f"unhashable type: '{type(v).__name__}'",))
        if isinstance(v, SVar):
            if v.kind == 'raw' and v.term is not None and not v.members.get('is_array', False) and v.members.get('dims') in (None, []):
                if hasattr(self.model, 'value') and hasattr(self.model, 'val'):
                    # at a witness the number is known: Python compares keys by value (2 == 2.0)
                    try:
                        num = self.model.value(v)
                    except Exception:  # noqa: BLE001
                        num = None
                    if num is not None:
                        return ('number', F(num))
                return ('number', T.show(v.term), v.dtype)  # a bare number: the same symbolic value is the same key
            raise _NoKey()  # (a scipp variable is unhashable: such a call fails on its first use, which the tests see)
        if isinstance(v, SObj):
            if self.find_method(v.cls, '__eq__') is not None or self.find_method(v.cls, '__hash__') is not None:
                return _ObjKey(self, v)
            if v.cls.is_dataclass() or self.is_namedtuple(v.cls):
                return ('fields', v.cls.name, tuple(self.memo_key(self.getattr(v, n, self.cur_node)) for n, _ in v.cls.dataclass_fields()))
            return _Identity(v)
        raise _NoKey()

    def track_world(self, val):
        """Remember the mutable objects reachable from a module-level value: a later write to one of them is a write to the world."""
        track = self.__dict__.setdefault('_gtrack', {})
        stack = [val]
        while stack:
            v = stack.pop()
            if isinstance(v, tuple):
                stack.extend(v)
                continue
            if isinstance(v, FuncRef):
                if v.closure:
                    stack.append(v.closure)
                continue
            if isinstance(v, Lambda):
                stack.append(v.env)
                continue
            if isinstance(v, Memoised):
                stack.append(v.fn)
                continue
            if not isinstance(v, dict | list | set | SObj | SVar) or isinstance(v, GenResult) or id(v) in track:
                continue
            track[id(v)] = v  # (keeps the object alive: its id is not reused)
            if isinstance(v, dict):
                stack.extend(v.values())
            elif isinstance(v, list | set):
                stack.extend(v)
            elif isinstance(v, SObj):
                stack.extend(v.attrs.values())

    def note_store(self, container, *stored):
        """A write into `container`; if it belongs to the world, the world has changed (and what was stored belongs to it now)."""
        track = self.__dict__.get('_gtrack')
        if track and id(container) in track:
            self._world_dirty = True
            self.world_writes = getattr(self, 'world_writes', 0) + 1
            for x in stored:
                self.track_world(x)

    def object_id(self, obj):
        """id(obj): unique among the objects that are alive.  An object that died (end_of_call) gives its id back, and the next
        new object of the same class gets it - which is what CPython's allocator does, and why an id is no key for a table that
        outlives the object."""
        ids = self.__dict__.setdefault('_ids', {'live': {}, 'free': {}, 'next': 140_000_000_000_000})
        if id(obj) in ids['live']:
            return ids['live'][id(obj)][0]
        cls = obj.cls.name if isinstance(obj, SObj) else type(obj).__name__
        free = ids['free'].get(cls)
        if free:
            n = free.pop()
        else:
            n = ids['next']
            ids['next'] += 64
        ids['live'][id(obj)] = (n, obj, cls)  # (the entry keeps the abstract object alive)
        return n

    def end_of_call(self):
        """Between the calls of a history: the objects the caller made for the call and what the call made are garbage now,
        unless the world (module-level state, memo stores) refers to them."""
        ids = self.__dict__.get('_ids')
        if not ids:
            return
        world = self.__dict__.get('_gtrack') or {}
        memo_vals = set()
        for store in (self.__dict__.get('_memo') or {}).values():
            for v in store.values():
                memo_vals.add(id(v))
        for k, (n, obj, cls) in list(ids['live'].items()):
            if k not in world and k not in memo_vals:
                ids['free'].setdefault(cls, []).append(n)
                del ids['live'][k]

    def reset_world(self):
        """Forget everything earlier calls left behind: module-level values are evaluated anew, memo stores are empty."""
        self.__dict__.pop('_globals', None)
        self.__dict__.pop('_gtrack', None)
        self.__dict__.pop('_memo', None)
        self.__dict__.pop('_memo_owners', None)
        self.__dict__.pop('_ids', None)
        self._world_dirty = False

    # ------------------------------------------------------------------
    # statements
    def exec_body(self, body, env, mi):
        for st in body:
            self.exec_stmt(st, env, mi)

    MAX_STEPS = 20_000_000

    def exec_stmt(self, st, env, mi):
        self.steps += 1
        if self.steps > self.MAX_STEPS:
            raise AnalysisError(f'interpretation exceeds {self.MAX_STEPS} statements (non-terminating loop?) at {self.where(st)}')
        m = getattr(self, 'st_' + type(st).__name__, None)
        if m is None:
            raise AnalysisError(f'statement {type(st).__name__} outside the analysable subset at {self.where(st)}')
        return m(st, env, mi)

    def st_Expr(self, st, env, mi):
        if isinstance(st.value, ast.Constant):
            return
        self.eval(st.value, env, mi)

    def st_Pass(self, st, env, mi):
        pass

    def st_Global(self, st, env, mi):
        # assignments to these names go to the module's namespace (kept for the life of this interpreter: module state)
        env.setdefault('__global_names__', set()).update(st.names)

    def st_Nonlocal(self, st, env, mi):
        # assignments to these names go to the enclosing function's scope
        env.setdefault('__nonlocal_names__', set()).update(st.names)

    def st_Import(self, st, env, mi):
        # a local `import a.b [as c]`: the name is bound in the function's namespace
        for a in st.names:
            local = a.asname or a.name.split('.')[0]
            target = a.name if a.asname else a.name.split('.')[0]
            kind = self.repo._classify(target) if hasattr(self.repo, '_classify') else ('ext', target)
            if kind[0] == 'module' and kind[1] in self.repo.modules:
                env[local] = ModuleRef(self.repo.modules[kind[1]])
            else:
                env[local] = ExtRef(target)

    def st_ImportFrom(self, st, env, mi):
        for a in st.names:
            val = Opaque(f'local import {a.name}')
            if st.level:
                cur = self.call_stack[-1].module if self.call_stack else mi.name
                cmi = self.repo.module(cur)
                parts = cur.split('.') if cur else []
                if not cmi.path.endswith('__init__.py'):
                    parts = parts[:-1]
                base = parts[: len(parts) - (st.level - 1)]
                dotted = '.'.join(base + (st.module.split('.') if st.module else []))
                r = self.repo.resolve_rel(dotted, a.name)
                if r is not None:
                    val = self.resolved(r, a.name)
            env[a.asname or a.name] = val

    def st_Return(self, st, env, mi):
        raise ReturnSignal(self.eval(st.value, env, mi) if st.value is not None else None)

    def st_Raise(self, st, env, mi):
        exc = 'Exception'
        args: tuple = ()
        if st.exc is not None:
            e = st.exc
            if isinstance(e, ast.Call):
                helper = isinstance(e.func, ast.Name) and (e.func.id in mi.functions or isinstance(env.get(e.func.id), FuncRef))
                if not helper and isinstance(e.func, ast.Attribute | ast.Name):
                    try:
                        helper = isinstance(self.eval(e.func, env, mi), FuncRef | Lambda)  # raise self._error(...), raise mod.helper(...)
                    except AnalysisError:
                        helper = False
                if helper:
                    # raise helper(...): the helper builds the exception object
                    v = self.eval(e, env, mi)
                    if isinstance(v, ExcValue):
                        raise RaiseSignal(v.exc_type, st, self.where(st), v.args)
                    if isinstance(v, Opaque) and v.why.startswith('exception '):
                        raise RaiseSignal(v.why.split()[1], st, self.where(st), ())
                    raise AnalysisError(f'raise of a value that is not an exception object at {self.where(st)}: {v!r}')
                try:
                    args = tuple(self.eval(a, env, mi) for a in e.args if not isinstance(a, ast.Starred))
                except AnalysisError:
                    args = ()
                e = e.func
            elif isinstance(e, ast.Name) and isinstance(env.get(e.id), ExcValue):
                ev = env[e.id]
                raise RaiseSignal(ev.exc_type, st, self.where(st), ev.args)
            exc = ast.unparse(e).split('.')[-1]
        elif isinstance(env.get('__active_exception__'), ExcValue):
            ev = env['__active_exception__']
            raise RaiseSignal(ev.exc_type, st, self.where(st), ev.args)
        raise RaiseSignal(exc, st, self.where(st), args)

    def st_Assert(self, st, env, mi):
        pass

    def st_Delete(self, st, env, mi):
        for t in st.targets:
            if isinstance(t, ast.Name):
                env.pop(t.id, None)
            elif isinstance(t, ast.Subscript):
                obj = self.eval(t.value, env, mi)
                key = self.eval(t.slice, env, mi)
                if isinstance(obj, dict):
                    obj.pop(key, None)
                    self.note_store(obj)
                else:
                    self.mutate(obj, t, 'del item')
            else:
                raise AnalysisError(f'del target at {self.where(st)}')

    def st_Assign(self, st, env, mi):
        val = self.eval(st.value, env, mi)
        for t in st.targets:
            self.assign(t, val, env, mi)

    def st_AnnAssign(self, st, env, mi):
        if st.value is not None:
            self.assign(st.target, self.eval(st.value, env, mi), env, mi)

    def assign(self, t, val, env, mi):
        if isinstance(t, ast.Name):
            if t.id in env.get('__global_names__', ()):
                self.__dict__.setdefault('_globals', {})[(mi.name, t.id)] = val
                self.track_world(val)
                self._world_dirty = True
                self.event('module-state-write', t, name=f'{mi.name}:{t.id}')
            elif isinstance(env, _Scope) and t.id in env.maps[0].get('__nonlocal_names__', ()):
                for m_ in env.maps[1:]:
                    if t.id in m_:
                        m_[t.id] = val
                        break
                else:
                    env.maps[-1][t.id] = val
            else:
                env[t.id] = val
        elif isinstance(t, ast.Tuple | ast.List):
            if isinstance(val, Opaque):
                for sub in t.elts:
                    self.assign(sub.value if isinstance(sub, ast.Starred) else sub, Opaque(f'{val.why}[i]'), env, mi)
                return
            vals = self.iterate(val, t)
            stars = [i for i, sub in enumerate(t.elts) if isinstance(sub, ast.Starred)]
            if len(stars) == 1 and len(vals) >= len(t.elts) - 1:
                i = stars[0]
                n_after = len(t.elts) - i - 1
                for sub, v in zip(t.elts[:i], vals[:i], strict=True):
                    self.assign(sub, v, env, mi)
                self.assign(t.elts[i].value, list(vals[i:len(vals) - n_after]), env, mi)
                for sub, v in zip(t.elts[i + 1:], vals[len(vals) - n_after:], strict=True):
                    self.assign(sub, v, env, mi)
                return
            if len(vals) != len(t.elts):
                if isinstance(val, list | tuple | str):
                    raise RaiseSignal('ValueError', t, self.where(t), (f'unpack: expected {len(t.elts)} values, got {len(vals)}',))
                raise AnalysisError(f'unpack mismatch at {self.where(t)}')
            for sub, v in zip(t.elts, vals, strict=True):
                self.assign(sub, v, env, mi)
        elif isinstance(t, ast.Attribute):
            obj = self.eval(t.value, env, mi)
            if isinstance(obj, SObj):
                setter = self.find_method(obj.cls, t.attr + '.setter')
                if setter is not None:
                    self.call_function(setter, [val], {}, bound=obj)
                    return
                obj.attrs[t.attr] = val
                self.note_store(obj, val)
            elif isinstance(obj, SVar):
                self.mutate(obj, t, f'attribute store .{t.attr}')
                if hasattr(self.model, 'var_setattr'):
                    self.model.var_setattr(self, obj, t.attr, val, t)
            elif hasattr(obj, '__dict__') and not isinstance(obj, Opaque | BoundModel | ExtRef | FuncRef | ClassRef):
                try:
                    setattr(obj, t.attr, val)
                except AttributeError:
                    raise RaiseSignal('AttributeError', t, self.where(t), (t.attr,)) from None
            else:
                pass
        elif isinstance(t, ast.Subscript):
            obj = self.eval(t.value, env, mi)
            key = self.eval(t.slice, env, mi)
            if isinstance(obj, dict) and not isinstance(key, Opaque):
                key = self.dict_key(key, obj)
            if isinstance(obj, dict | list) and not isinstance(key, Opaque | SVar):
                try:
                    obj[key] = val
                except (IndexError, KeyError, TypeError):
                    raise AnalysisError(f'subscript store at {self.where(t)}') from None
                self.note_store(obj, val)
            elif isinstance(obj, SVar):
                self.mutate(obj, t, 'item store')
                if hasattr(self.model, 'var_store'):
                    self.model.var_store(self, obj, key, val, t)
            elif isinstance(obj, SObj):
                si = self.find_method(obj.cls, '__setitem__')
                if si is None:
                    raise AnalysisError(f'item store on {obj.cls.name} without __setitem__ at {self.where(t)}')
                self.call_function(si, [key, val], {}, bound=obj)
            elif isinstance(obj, BoundModel | Opaque):
                base = obj.recv if isinstance(obj, BoundModel) else None
                if isinstance(base, SVar):
                    self.mutate(base, t, f'store into .{obj.name}[...]')
                    if hasattr(self.model, 'bound_store'):
                        self.model.bound_store(self, obj, key, val, t)
            elif hasattr(obj, '__setitem__') and not isinstance(obj, dict | list):
                obj[key] = val
        else:
            raise AnalysisError(f'assignment target {type(t).__name__} at {self.where(t)}')

    _AUG = {
        ast.Add: ('add', operator.add), ast.Sub: ('sub', operator.sub),
        ast.Mult: ('mul', operator.mul), ast.Div: ('div', operator.truediv),
        ast.Pow: ('pow', operator.pow), ast.Mod: ('mod', operator.mod),
        ast.FloorDiv: ('floordiv', operator.floordiv), ast.BitAnd: ('and', operator.and_),
        ast.BitOr: ('or', operator.or_), ast.BitXor: ('xor', operator.xor),
        ast.MatMult: ('matmul', operator.matmul),
        ast.LShift: ('lshift', operator.lshift), ast.RShift: ('rshift', operator.rshift),
    }

    def st_AugAssign(self, st, env, mi):
        target = self.eval(st.target, env, mi)
        val = self.eval(st.value, env, mi)
        opname, pyop = self._AUG[type(st.op)]
        if isinstance(target, SVar):
            res = self.model.binop(self, opname, target, val, st, inplace=True)
            # the object is updated in place; the name keeps pointing to it
            self.assign(st.target, res, env, mi) if not isinstance(st.target, ast.Name) else env.__setitem__(st.target.id, res)
            return
        if isinstance(target, list) and opname == 'add':
            more = self.iterate(val, st)
            target.extend(more)
            self.note_store(target, *more)
            return
        if isinstance(target, Opaque) or isinstance(val, Opaque | SVar):
            res = self.binop(opname, pyop, target, val, st)
        else:
            # concrete python objects: the in-place operator (mutable objects are updated in place)
            iop = getattr(operator, 'i' + pyop.__name__.strip('_'), pyop)
            try:
                res = iop(target, val)
            except (RaiseSignal, AnalysisError, PassThrough):
                raise
            except Exception as ex:  # noqa: BLE001
                raise AnalysisError(f'concrete in-place {opname} failed at {self.where(st)}: {ex}') from None
        self.assign(st.target, res, env, mi)

    def st_If(self, st, env, mi):
        c = self.truth(self.eval(st.test, env, mi), st.test)
        self.exec_body(st.body if c else st.orelse, env, mi)

    def st_For(self, st, env, mi):
        it = self.iterate(self.eval(st.iter, env, mi), st.iter)
        broke = False
        for v in it:
            self.assign(st.target, v, env, mi)
            try:
                self.exec_body(st.body, env, mi)
            except BreakSignal:
                broke = True
                break
            except ContinueSignal:
                continue
        if not broke:
            self.exec_body(st.orelse, env, mi)

    MAX_LOOP = 200_000

    def st_While(self, st, env, mi):
        n = 0
        while True:
            c = self.eval(st.test, env, mi)
            if isinstance(c, Opaque | SVar):
                raise AnalysisError(f'while loop on a symbolic condition at {self.where(st)}')
            if not self.truth(c, st.test):
                self.exec_body(st.orelse, env, mi)
                return
            n += 1
            if n > self.MAX_LOOP:
                raise AnalysisError(f'while loop exceeds {self.MAX_LOOP} iterations at {self.where(st)}')
            try:
                self.exec_body(st.body, env, mi)
            except BreakSignal:
                return
            except ContinueSignal:
                continue

    def st_Break(self, st, env, mi):
        raise BreakSignal()

    def st_Continue(self, st, env, mi):
        raise ContinueSignal()

    def st_Try(self, st, env, mi):
        try:
            try:
                self.exec_body(st.body, env, mi)
            except RaiseSignal as r:
                for h in st.handlers:
                    if h.type is None:
                        names = [r.exc_type]
                    elif isinstance(h.type, ast.Tuple):
                        names = [ast.unparse(e).split('.')[-1] for e in h.type.elts]
                    else:
                        names = [ast.unparse(h.type).split('.')[-1]]
                    if self.exc_matches(r.exc_type, names):
                        ev = ExcValue(r.exc_type, r.exc_args)
                        if h.name:
                            env[h.name] = ev
                        env['__active_exception__'] = ev
                        try:
                            self.exec_body(h.body, env, mi)
                        finally:
                            if h.name:
                                env.pop(h.name, None)  # `except E as name`: the name is unbound again when the handler ends
                        break
                else:
                    raise
            else:
                self.exec_body(st.orelse, env, mi)
        except (RaiseSignal, ReturnSignal, BreakSignal, ContinueSignal):
            # the finally clause runs on every way out (a return or raise inside it replaces the pending one)
            self.exec_body(st.finalbody, env, mi)
            raise
        self.exec_body(st.finalbody, env, mi)

    _EXC_BASES = {
        'KeyError': 'LookupError', 'IndexError': 'LookupError', 'LookupError': 'Exception',
        'FileNotFoundError': 'OSError', 'PermissionError': 'OSError', 'FileExistsError': 'OSError', 'IsADirectoryError': 'OSError',
        'IOError': 'OSError', 'EnvironmentError': 'OSError', 'OSError': 'Exception',
        'ZeroDivisionError': 'ArithmeticError', 'OverflowError': 'ArithmeticError', 'FloatingPointError': 'ArithmeticError',
        'ArithmeticError': 'Exception', 'UnicodeDecodeError': 'UnicodeError', 'UnicodeEncodeError': 'UnicodeError',
        'UnicodeError': 'ValueError', 'NotImplementedError': 'RuntimeError', 'RecursionError': 'RuntimeError',
        'ModuleNotFoundError': 'ImportError', 'StopIteration': 'Exception', 'EOFError': 'Exception',
        'DTypeError': 'TypeError', 'BinEdgeError': 'RuntimeError', 'BinnedDataError': 'RuntimeError', 'CoordError': 'RuntimeError',
        'DataArrayError': 'RuntimeError', 'DatasetError': 'RuntimeError', 'DimensionError': 'RuntimeError', 'UnitError': 'RuntimeError',
        'VariableError': 'RuntimeError', 'VariancesError': 'RuntimeError',
    }

    def exc_matches(self, raised: str, names) -> bool:
        """Does `except <names>` catch an exception of class `raised`?  Builtin and scipp classes by their hierarchy, classes of
        the package by their bases."""
        seen = set()
        cur = raised
        while cur is not None and cur not in seen:
            if cur in names or (cur == 'OSError' and ('IOError' in names or 'EnvironmentError' in names)):
                return True
            seen.add(cur)
            nxt = self._EXC_BASES.get(cur)
            if nxt is None:
                for m in self.repo.modules.values():
                    ci = m.classes.get(cur)
                    if ci is not None and ci.bases:
                        nxt = ci.bases[0].split('[')[0].split('.')[-1]
                        break
            if nxt is None and cur not in ('Exception', 'BaseException'):
                nxt = 'Exception'
            cur = nxt
        return 'BaseException' in names

    def st_With(self, st, env, mi):
        managers = []
        for item in st.items:
            v = self.eval(item.context_expr, env, mi)
            managers.append(v)
            if isinstance(v, GenResult) and v.context_manager:
                v = v[0] if v else None
            elif isinstance(v, SObj) and self.find_method(v.cls, '__enter__') is not None:
                v = self.call_function(self.find_method(v.cls, '__enter__'), [], {}, bound=v)
            elif hasattr(v, 'vp_enter'):
                v = v.vp_enter(self)
            if item.optional_vars is not None:
                self.assign(item.optional_vars, v, env, mi)
        try:
            self.exec_body(st.body, env, mi)
        except RaiseSignal as r:
            for m in reversed(managers):
                if isinstance(m, Suppress) and self.exc_matches(r.exc_type, m.names):
                    return  # contextlib.suppress: the statement ends here
                if self._exit(m, ExcValue(r.exc_type, r.exc_args)):
                    return
            raise
        except (ReturnSignal, BreakSignal, ContinueSignal):
            for m in reversed(managers):
                self._exit(m, None)
            raise
        for m in reversed(managers):
            self._exit(m, None)

    def _exit(self, manager, exc) -> bool:
        """__exit__ of a context manager class of the package; True if it swallows the exception"""
        if isinstance(manager, SObj):
            ex = self.find_method(manager.cls, '__exit__')
            if ex is not None:
                args = [Opaque('exception type'), exc, Opaque('traceback')] if exc is not None else [None, None, None]
                r = self.call_function(ex, args, {}, bound=manager)
                return exc is not None and r is True
        if hasattr(manager, 'vp_exit'):
            return bool(manager.vp_exit(self, exc)) and exc is not None
        return False

    def st_Match(self, st, env, mi):
        subject = self.eval(st.subject, env, mi)
        for case in st.cases:
            binds: dict = {}
            m = self.match_pattern(case.pattern, subject, binds, env, mi)
            if m is None:
                raise AnalysisError(f'match on an abstract value at {self.where(st)}')
            if not m:
                continue
            env.update(binds)
            if case.guard is not None and not self.truth(self.eval(case.guard, env, mi), case.guard):
                continue
            self.exec_body(case.body, env, mi)
            return

    def match_pattern(self, p, v, binds, env, mi):
        """True / False / None (undecidable)."""
        if isinstance(p, ast.MatchAs):
            if p.pattern is not None:
                r = self.match_pattern(p.pattern, v, binds, env, mi)
                if not r:
                    return r
            if p.name is not None:
                binds[p.name] = v
            return True
        if isinstance(v, SVar) and isinstance(p, ast.MatchClass) and not p.patterns and not p.kwd_patterns:
            r = self.model._isinstance(self, v, self.eval(p.cls, env, mi), p)  # `case int():` on a variable is decided by its kind
            return r if isinstance(r, bool) else None
        if isinstance(v, Opaque | SVar):
            return None
        if isinstance(p, ast.MatchValue):
            r = self.compare(ast.Eq(), v, self.eval(p.value, env, mi), p)
            return r if isinstance(r, bool) else None
        if isinstance(p, ast.MatchSingleton):
            return v is p.value
        if isinstance(p, ast.MatchOr):
            for sub in p.patterns:
                r = self.match_pattern(sub, v, binds, env, mi)
                if r is None or r:
                    return r
            return False
        if isinstance(p, ast.MatchSequence):
            if not isinstance(v, list | tuple) or any(isinstance(x, ast.MatchStar) for x in p.patterns):
                return False if not isinstance(v, list | tuple) else None
            if len(v) != len(p.patterns):
                return False
            for sub, x in zip(p.patterns, v, strict=True):
                r = self.match_pattern(sub, x, binds, env, mi)
                if not r:
                    return r
            return True
        if isinstance(p, ast.MatchClass):
            cls = self.eval(p.cls, env, mi)
            r = self.model._isinstance(self, v, cls, p)
            if r is not True:
                return False if r is False else None  # Opaque: undecidable
            if isinstance(v, SObj):
                names = [n for n, _ in v.cls.dataclass_fields()]
                if len(p.patterns) > len(names):
                    return None
                for sub, name in list(zip(p.patterns, names, strict=False)) + list(zip(p.kwd_patterns, p.kwd_attrs, strict=True)):
                    try:
                        attr = self.getattr(v, name, p)
                    except AnalysisError:
                        return False
                    r2 = self.match_pattern(sub, attr, binds, env, mi)
                    if not r2:
                        return r2
                return True
            if p.kwd_patterns or len(p.patterns) > 1:
                return None
            if p.patterns:
                return self.match_pattern(p.patterns[0], v, binds, env, mi)
            return True
        return None

    def ex_Yield(self, e, env, mi):
        v = self.eval(e.value, env, mi) if e.value is not None else None
        self.yielded.append(v)
        if self._gen_stack:
            self._gen_stack[-1].append(v)
        return None

    def ex_YieldFrom(self, e, env, mi):
        vals = self.iterate(self.eval(e.value, env, mi), e)
        if self._gen_stack:
            self._gen_stack[-1].extend(vals)
        return None

    def st_ClassDef(self, st, env, mi):
        """A class defined inside a function: its methods see the variables of that function."""
        module = self.call_stack[-1].module if self.call_stack else mi.name
        ci = ClassInfo(module, st.name, st, bases=[ast.unparse(b) for b in st.bases])
        for sub in st.body:
            if isinstance(sub, ast.FunctionDef):
                decs = [ast.unparse(d) for d in sub.decorator_list]
                if any(d.endswith('.setter') for d in decs):
                    ci.methods[sub.name + '.setter'] = FuncInfo(module, f'{st.name}.{sub.name}.setter', sub, ci)
                    continue
                ci.methods[sub.name] = FuncInfo(module, f'{st.name}.{sub.name}', sub, ci)
        ci.closure_env = env  # type: ignore[attr-defined]
        env[st.name] = ClassRef(ci)

    _DECORATORS_WITH_THEIR_OWN_HANDLING = ('contextmanager', 'staticmethod', 'classmethod', 'property', 'overload', 'abstractmethod', 'singledispatch')

    def st_FunctionDef(self, st, env, mi):
        fi = FuncInfo(self.call_stack[-1].module if self.call_stack else mi.name, st.name, st)
        val = FuncRef(fi, closure=env, defaults=self.eval_defaults(st.args, env, mi), raw=bool(st.decorator_list))
        for d in reversed(st.decorator_list):
            if ast.unparse(d.func if isinstance(d, ast.Call) else d).split('.')[-1] in self._DECORATORS_WITH_THEIR_OWN_HANDLING:
                continue
            val = self.call(self.eval(d, env, mi), [val], {}, d)  # the name is bound to what the decorators make of the function
        env[st.name] = val

    # ------------------------------------------------------------------
    def truth(self, v, node) -> bool:
        if isinstance(v, Opaque):
            ct = v.cond_term
            if isinstance(ct, tuple) and len(ct) == 2 and ct[0] == 'not':
                return not self.truth(ct[1], node)
            return self.decide(v, self.where(node))
        if isinstance(v, SVar):
            return self.decide(v, self.where(node))
        if isinstance(v, SObj):
            ln = v.cls.methods.get('__len__') or v.cls.methods.get('__bool__')
            if ln is not None:
                return self.truth(self.call_function(ln, [], {}, bound=v), node)
            return True
        return bool(v)

    def iterate(self, v, node) -> list:
        if isinstance(v, GenResult):
            # a one-shot iterator (generator, zip, map, itertools.product, ...): whoever iterates it, empties it
            items = list(v)
            v.clear()
            return items
        if isinstance(v, range):
            return v  # lazily: a range read from corrupt data may be astronomically long
        if isinstance(v, list | tuple | set | frozenset | dict | str):
            return list(v)
        if isinstance(v, type({}.keys()) | type({}.values()) | type({}.items())):
            return list(v)
        if hasattr(v, '__iter__') and not isinstance(v, Opaque | SVar | SObj):
            return list(v)
        if isinstance(v, SVar) and hasattr(self.model, 'var_iter'):
            items = self.model.var_iter(self, v, node)
            if items is not None:
                return items
        if isinstance(v, SObj):
            it = v.cls.methods.get('__iter__')
            if it is not None:
                return self.iterate(self.call_function(it, [], {}, bound=v), node)
            gi = v.cls.methods.get('__getitem__')
            ln = v.cls.methods.get('__len__')
            if gi is not None and ln is not None:
                n = self.call_function(ln, [], {}, bound=v)
                if isinstance(n, int):
                    return [self.call_function(gi, [i], {}, bound=v) for i in range(n)]
            if self.is_namedtuple(v.cls):
                return self.namedtuple_items(v, node)
        raise AnalysisError(f'iteration over a non-concrete value {v!r} at {self.where(node)}')

    def mutate(self, obj, node, how: str):
        """Record an in-place write to obj (and everything it may alias)."""
        if not isinstance(obj, SVar):
            return
        self.note_store(obj)
        seen = set()
        stack = [obj]
        while stack:
            o = stack.pop()
            if o.id in seen:
                continue
            seen.add(o.id)
            if o.view_of is not None:
                stack.append(o.view_of)
            for i in o.may_alias:
                if i in self.objects:
                    stack.append(self.objects[i])
        for i in seen:
            o = self.objects.get(i, obj if i == obj.id else None)
            if o is None:
                continue
            if o.origin is not None:
                self.event('mutates-param', node, param=o.origin, how=how,
                           definite=(o is obj or _definite_view(obj, o)),
                           stmt=_stmt_text(node))
            if o is not obj:
                # value of an aliased object is no longer known
                o.term = None
                o.why = f'overwritten through an alias ({how})'

    def track(self, v: SVar) -> SVar:
        self.objects[v.id] = v
        return v

    # ------------------------------------------------------------------
    # expressions
    def eval(self, e, env, mi):
        self.cur_node = e
        self.steps += 1
        if self.steps > self.MAX_STEPS:
            raise AnalysisError(f'interpretation exceeds {self.MAX_STEPS} steps (non-terminating loop?) at {self.where(e)}')
        m = getattr(self, 'ex_' + type(e).__name__, None)
        if m is None:
            raise AnalysisError(f'expression {type(e).__name__} outside the analysable subset at {self.where(e)}')
        return m(e, env, mi)

    def ex_Constant(self, e, env, mi):
        return e.value

    def ex_Name(self, e, env, mi):
        if e.id in env and e.id not in env.get('__global_names__', ()):
            return env[e.id]
        if self.call_stack and env.get('__frame__') is self.call_stack[-1] and e.id in self.locals_of(self.call_stack[-1]) \
                and e.id not in env.get('__global_names__', ()):
            # a local variable of the running function that is not bound (not yet, not on this path, or unbound again)
            raise RaiseSignal('UnboundLocalError', e, self.where(e), (f"cannot access local variable '{e.id}' where it is not associated with a value",))
        return self.global_name(e.id, mi, e)

    def locals_of(self, fi: FuncInfo) -> set:
        """Names the function binds somewhere in its body (assignment, loop / with / except targets, imports, nested definitions,
        parameters): its local variables, wherever they are read."""
        cache = self.__dict__.setdefault('_locals_cache', {})
        key = id(fi.node)
        if key not in cache:
            names = set()
            a = fi.node.args
            for p_ in a.posonlyargs + a.args + a.kwonlyargs + ([a.vararg] if a.vararg else []) + ([a.kwarg] if a.kwarg else []):
                names.add(p_.arg)
            declared = set()

            def walk(node, top=False):
                for ch in ast.iter_child_nodes(node):
                    if isinstance(ch, ast.FunctionDef | ast.AsyncFunctionDef | ast.ClassDef):
                        names.add(ch.name)
                        continue  # another scope
                    if isinstance(ch, ast.Lambda | ast.ListComp | ast.SetComp | ast.DictComp | ast.GeneratorExp):
                        for sub in ast.walk(ch):
                            if isinstance(sub, ast.NamedExpr) and isinstance(sub.target, ast.Name):
                                names.add(sub.target.id)  # the walrus binds in the enclosing function
                        continue
                    if isinstance(ch, ast.Name) and isinstance(ch.ctx, ast.Store | ast.Del):
                        names.add(ch.id)
                    elif isinstance(ch, ast.ExceptHandler) and ch.name:
                        names.add(ch.name)
                    elif isinstance(ch, ast.Import | ast.ImportFrom):
                        for al in ch.names:
                            names.add((al.asname or al.name).split('.')[0])
                    elif isinstance(ch, ast.Global | ast.Nonlocal):
                        declared.update(ch.names)
                    elif isinstance(ch, ast.MatchAs | ast.MatchStar) and ch.name:
                        names.add(ch.name)
                    elif isinstance(ch, ast.MatchMapping) and ch.rest:
                        names.add(ch.rest)
                    walk(ch)
            walk(fi.node)
            cache[key] = (names - declared, fi.node)  # (the node is kept alive: its id is the key)
        return cache[key][0]

    def global_name(self, name: str, mi: ModuleInfo, node):
        if name in mi.functions:
            return FuncRef(mi.functions[name])
        if name in mi.classes:
            return ClassRef(mi.classes[name])
        if name in mi.imports:
            imp = mi.imports[name]
            if imp[0] == 'ext':
                return ExtRef(imp[1])
            if imp[0] == 'module':
                return ModuleRef(self.repo.module(imp[1])) if imp[1] in self.repo.modules else Opaque(f'module {imp[1]}')
            r = self.repo.resolve_rel(imp[1], imp[2])
            return self.resolved(r, name)
        if name in mi.assigns:
            key = (mi.name, name)
            cache = self.__dict__.setdefault('_globals', {})
            if key not in cache:
                cache[key] = Opaque('global under evaluation')
                cache[key] = self.eval(mi.assigns[name], {}, mi)
                self.track_world(cache[key])
            return cache[key]
        if name in _PY_BUILTINS:
            return ExtRef('builtins.' + name)
        if name == '__name__':
            return 'scippneutron' + ('.' + mi.name if mi.name else '')
        if name == '__file__':
            return mi.path
        raise AnalysisError(f'unresolved name {name!r} at {self.where(node)}')

    def resolved(self, r, name):
        if r is None:
            return Opaque(f'unresolved import {name}')
        if r[0] == 'module':
            return ModuleRef(self.repo.module(r[1]))
        if r[0] == 'func':
            return FuncRef(r[1])
        if r[0] == 'class':
            return ClassRef(r[1])
        if r[0] == 'global':
            return self.global_name(r[2], r[1], None)
        if r[0] == 'ext':
            return ExtRef(r[1])
        return Opaque(f'import {name}')

    def ex_Attribute(self, e, env, mi):
        obj = self.eval(e.value, env, mi)
        return self.getattr(obj, e.attr, e)

    def getattr(self, obj, attr: str, node):
        if isinstance(obj, ExtRef):
            if attr in ('__name__', '__qualname__') and obj.path.startswith('builtins.'):
                return obj.path.split('.')[-1]
            path = f'{obj.path}.{attr}'
            return self.model.ext_attr(self, path, node)
        if isinstance(obj, ModuleRef):
            r = self.repo.resolve_rel(obj.mi.name, attr)
            if r is None:
                # package attribute (submodule)
                sub = f'{obj.mi.name}.{attr}' if obj.mi.name else attr
                if sub in self.repo.modules:
                    return ModuleRef(self.repo.modules[sub])
                raise AnalysisError(f'unresolved attribute {obj.mi.name}.{attr} at {self.where(node)}')
            return self.resolved(r, attr)
        if isinstance(obj, SVar):
            return self.model.var_attr(self, obj, attr, node)
        if isinstance(obj, SObj):
            if attr in obj.attrs:
                return obj.attrs[attr]
            meth = self.find_method(obj.cls, attr)
            if meth is not None:
                decs = meth.decorators()
                if any(d.endswith('cached_property') for d in decs):
                    # evaluated once; the value is stored on the instance (and travels with copies of the instance)
                    v = self.call_function(meth, [], {}, bound=obj)
                    obj.attrs[attr] = v
                    return v
                if 'property' in decs:
                    return self.call_function(meth, [], {}, bound=obj)
                if 'staticmethod' in decs:
                    return FuncRef(meth)
                if 'classmethod' in decs:
                    return FuncRef(meth)
                return FuncRef(meth, bound=obj)
            if attr == '__class__':
                return ClassRef(obj.cls)
            # class-level default / ClassVar
            v = self.class_attr(obj.cls, attr)
            if v is not _MISSING:
                return v
            if self.is_namedtuple(obj.cls) and attr in ('_asdict', '_replace', '_fields'):
                names = [n for n, _ in obj.cls.dataclass_fields()]
                if attr == '_fields':
                    return tuple(names)
                if attr == '_asdict':
                    return _NtMethod(lambda it_, args, kwargs, n_: {k: it_.getattr(obj, k, n_) for k in names})
                return _NtMethod(lambda it_, args, kwargs, n_: SObj(obj.cls, {**{k: it_.getattr(obj, k, n_) for k in names}, **kwargs}))
            raise AnalysisError(f'unknown attribute {obj.cls.name}.{attr} at {self.where(node)}')
        if isinstance(obj, EnumMember):
            if attr in ('name', 'value'):
                return getattr(obj, attr)
            meth = self.find_method(obj.cls, attr)
            if meth is not None:
                decs = meth.decorators()
                if 'property' in decs:
                    return self.call_function(meth, [], {}, bound=obj)
                if 'classmethod' in decs or 'staticmethod' in decs:
                    return FuncRef(meth)
                return FuncRef(meth, bound=obj)
            raise AnalysisError(f'unknown attribute {obj!r}.{attr} at {self.where(node)}')
        if isinstance(obj, ClassRef):
            if self.concrete_enums and self.is_enum(obj.ci) and attr in self.enum_members(obj.ci):
                return self.enum_members(obj.ci)[attr]
            meth = self.find_method(obj.ci, attr)
            if meth is not None:
                return FuncRef(meth)
            if attr == '__name__':
                return obj.ci.name
            v = self.class_attr(obj.ci, attr)
            if v is not _MISSING:
                return v
            raise AnalysisError(f'unknown class attribute {obj.ci.name}.{attr} at {self.where(node)}')
        if isinstance(obj, SuperRef):
            cmi = self.repo.module(obj.cls.module)
            for b in obj.cls.bases:
                b = b.split('[')[0]
                base = cmi.classes.get(b)
                if base is None and b in cmi.imports and cmi.imports[b][0] == 'rel':
                    r = self.repo.resolve_rel(cmi.imports[b][1], cmi.imports[b][2])
                    base = r[1] if r and r[0] == 'class' else None
                if base is not None:
                    m = self.find_method(base, attr)
                    if m is not None:
                        if 'property' in m.decorators():
                            return self.call_function(m, [], {}, bound=obj.obj)
                        return FuncRef(m, bound=obj.obj)
            return Opaque(f'super().{attr}')
        if isinstance(obj, Opaque):
            return Opaque(f'{obj.why}.{attr}')
        if isinstance(obj, Unit | BoundModel):
            return self.model.misc_attr(self, obj, attr, node)
        # concrete python value
        try:
            val = getattr(obj, attr)
            if not callable(val):
                return val
            return _PyBound(obj, attr, val)
        except AttributeError:
            if obj is None or type(obj) in (str, int, float, bool, bytes, list, tuple, dict, set, frozenset, range, slice, complex):
                # a plain Python value: the attribute is missing in the language itself, the program raises here
                raise RaiseSignal('AttributeError', node, self.where(node), (f"'{type(obj).__name__}' object has no attribute '{attr}'",)) from None
            raise AnalysisError(f'attribute {attr} of {type(obj).__name__} at {self.where(node)}') from None

    def base_names(self, ci: ClassInfo) -> list[str]:
        """Last components of the base classes, with import aliases of the defining module resolved."""
        out = []
        try:
            imports = self.repo.module(ci.module).imports
        except Exception:  # noqa: BLE001
            imports = {}
        for b in ci.bases:
            b = b.split('[')[0]
            imp = imports.get(b)
            if imp is not None and imp[0] in ('ext', 'attr'):
                b = imp[-1] if imp[0] == 'attr' else imp[1]
            out.append(b.split('.')[-1])
        return out

    def is_namedtuple(self, ci: ClassInfo) -> bool:
        return 'NamedTuple' in self.base_names(ci)

    def namedtuple_items(self, obj: SObj, node) -> list:
        """The fields of a typing.NamedTuple instance in declaration order."""
        return [self.getattr(obj, name, node) for name, _ in obj.cls.dataclass_fields()]

    def is_enum(self, ci: ClassInfo) -> bool:
        return any(b in ('Enum', 'IntEnum', 'StrEnum', 'Flag', 'IntFlag') for b in self.base_names(ci))

    def enum_members(self, ci: ClassInfo) -> dict:
        key = (ci.module, ci.name)
        if key not in self._enum_cache:
            cmi = self.repo.module(ci.module)
            out = {}
            for st in ci.node.body:
                if isinstance(st, ast.Assign) and len(st.targets) == 1 and isinstance(st.targets[0], ast.Name) \
                        and not st.targets[0].id.startswith('_'):
                    val = st.value
                    fname = ast.unparse(val.func) if isinstance(val, ast.Call) else ''
                    imp = cmi.imports.get(fname.split('.')[0])
                    if imp is not None and imp[0] == 'ext':
                        fname = '.'.join([imp[1], *fname.split('.')[1:]])
                    if isinstance(val, ast.Call) and not val.args and fname in ('enum.auto', 'auto'):
                        value = len(out) + 1  # enum.auto(): 1, 2, ... for plain Enum classes
                    else:
                        value = self.eval(val, {}, cmi)
                    out[st.targets[0].id] = EnumMember(ci, st.targets[0].id, value)
            self._enum_cache[key] = out
        return self._enum_cache[key]

    def class_attr(self, ci: ClassInfo, attr: str):
        stack = [ci]
        seen = set()
        while stack:
            c = stack.pop(0)
            if (c.module, c.name) in seen:
                continue
            seen.add((c.module, c.name))
            cmi = self.repo.module(c.module)
            for st in c.node.body:
                if (isinstance(st, ast.Assign) and any(isinstance(t, ast.Name) and t.id == attr for t in st.targets)) or \
                        (isinstance(st, ast.AnnAssign) and isinstance(st.target, ast.Name) and st.target.id == attr and st.value is not None):
                    # the class body runs once: every access sees the same object (a mutable class attribute is shared state)
                    cache = self.__dict__.setdefault('_globals', {})
                    key = (c.module, 'class ' + c.name, attr)
                    if key not in cache:
                        cache[key] = self.eval(st.value, {}, cmi)
                        self.track_world(cache[key])
                    return cache[key]
            for b in c.bases:
                b = b.split('[')[0]
                if b in cmi.classes:
                    stack.append(cmi.classes[b])
        return _MISSING

    def single_dispatch(self, fi: FuncInfo, value):
        """functools.singledispatch: the implementation registered for the most specific class `value` is an instance of."""
        mi = self.repo.module(fi.module)
        matches = []
        for other in mi.functions.values():
            for d in other.node.decorator_list:
                call = d if isinstance(d, ast.Call) else None
                f = call.func if call else d
                if not (isinstance(f, ast.Attribute) and f.attr == 'register' and isinstance(f.value, ast.Name) and f.value.id == fi.qualname):
                    continue
                if call and call.args:
                    texpr = call.args[0]
                else:
                    params = other.node.args.posonlyargs + other.node.args.args
                    texpr = params[0].annotation if params and params[0].annotation is not None else None
                    if isinstance(texpr, ast.Constant) and isinstance(texpr.value, str):
                        texpr = ast.parse(texpr.value, mode='eval').body
                if texpr is None:
                    raise AnalysisError(f'{other.fq}: singledispatch registration without a class')
                t = self.eval(texpr, {}, mi)
                r = self.model._isinstance(self, value, t, d)
                if r is None or isinstance(r, Opaque):
                    raise AnalysisError(f'{fi.fq}: cannot decide which implementation handles {value!r}')
                if r:
                    matches.append((t, other))
        if not matches:
            return fi
        if len(matches) > 1:
            # the most specific registered class: the one whose instances are instances of every other match
            def sub(a, b):
                return isinstance(a, ClassRef) and isinstance(b, ClassRef) and self.model._isinstance(self, SObj(a.ci, {}), b, None) is True
            best = [m for m in matches if all(m is o or sub(m[0], o[0]) for o in matches)]
            if len(best) != 1:
                raise AnalysisError(f'{fi.fq}: ambiguous singledispatch for {value!r}')
            return best[0][1]
        return matches[0][1]

    def find_method(self, ci: ClassInfo, name: str):
        seen = set()
        stack = [ci]
        while stack:
            c = stack.pop(0)
            if c.name in seen:
                continue
            seen.add(c.name)
            if name in c.methods:
                return c.methods[name]
            mi = self.repo.module(c.module)
            for b in c.bases:
                b = b.split('[')[0]
                if b in mi.classes:
                    stack.append(mi.classes[b])
                elif b in mi.imports and mi.imports[b][0] == 'rel':
                    r = self.repo.resolve_rel(mi.imports[b][1], mi.imports[b][2])
                    if r and r[0] == 'class':
                        stack.append(r[1])
                elif '.' in b:
                    head, _, tail = b.partition('.')
                    if head in mi.imports and mi.imports[head][0] == 'rel':
                        r = self.repo.resolve_rel(mi.imports[head][1], mi.imports[head][2])
                        if r and r[0] == 'module' and tail in self.repo.modules[r[1]].classes:
                            stack.append(self.repo.modules[r[1]].classes[tail])
        return None

    def ex_Call(self, e, env, mi):
        if isinstance(e.func, ast.Name) and e.func.id == 'super' and not e.args and self.call_stack:
            fi = self.call_stack[-1]
            a = fi.node.args
            first = (a.posonlyargs + a.args)[0].arg if (a.posonlyargs + a.args) else None
            if fi.cls is not None and first in env:
                return SuperRef(env[first], fi.cls)
        fn = self.eval(e.func, env, mi)
        args = []
        for a in e.args:
            if isinstance(a, ast.Starred):
                args.extend(self.iterate(self.eval(a.value, env, mi), a))
            else:
                args.append(self.eval(a, env, mi))
        kwargs = {}
        for k in e.keywords:
            if k.arg is None:
                d = self.eval(k.value, env, mi)
                if not isinstance(d, dict | type(type.__dict__)):
                    raise AnalysisError(f'**kwargs of non-dict at {self.where(e)}')
                kwargs.update(d)
            else:
                kwargs[k.arg] = self.eval(k.value, env, mi)
        return self.call(fn, args, kwargs, e)

    def call(self, fn, args, kwargs, node):
        if isinstance(fn, FuncRef):
            return self.call_function(fn.fi, args, kwargs, bound=fn.bound, closure=fn.closure, raw=fn.raw, defaults=fn.defaults)
        if isinstance(fn, ClassRef):
            return self.construct(fn.ci, args, kwargs, node)
        if isinstance(fn, ExtRef):
            out = kwargs.get('out')
            if fn.path.startswith('numpy.') and isinstance(out, SVar) and out.kind == 'raw':
                # a numpy ufunc writing into the buffer of a variable (x.values): the variable holds the result afterwards
                r = self.model.call_ext(self, fn.path, args, {k: v for k, v in kwargs.items() if k != 'out'}, node)
                self.mutate(out, node, f'{fn.path}(out=)')
                owner = out.view_of
                rt = r.term if isinstance(r, SVar) else None
                out.term = rt
                if isinstance(r, SVar):
                    out.hist = getattr(r, 'hist', out.hist)
                if isinstance(owner, SVar):
                    owner.term = rt * owner.unit.scale() if (rt is not None and owner.unit is not None) else None
                    if rt is None:
                        owner.why = f'buffer overwritten by {fn.path}(out=)'
                return out
            return self.model.call_ext(self, fn.path, args, kwargs, node)
        if isinstance(fn, BoundModel):
            return self.model.call_method(self, fn.recv, fn.name, args, kwargs, node)
        if isinstance(fn, _PyBound):
            # a container stores an unknown value like any other (cells.append(⊤)); an unknown position or key is not modelled
            storing = isinstance(fn.obj, list | dict | set) and fn.name in ('append', 'insert', 'add', 'setdefault')
            key_unknown = fn.name in ('insert', 'setdefault') and args and isinstance(args[0], Opaque)
            if any(isinstance(a, Opaque) for a in args) and not (storing and not key_unknown):
                return Opaque(f'{fn.name}(⊤)')
            if isinstance(fn.obj, str | bytes) and any(isinstance(a, list | tuple) and any(isinstance(x, Opaque | SVar | SObj) or type(x).__name__ == 'ExactImage' for x in a) for a in args):
                return Opaque(f'{fn.name}(sequence with ⊤)')  # e.g. ', '.join of formatted abstract values
            if isinstance(fn.obj, dict) and fn.name in ('get', 'pop', 'setdefault', '__getitem__', '__contains__', '__setitem__') and args:
                args = [self.dict_key(args[0], fn.obj), *args[1:]]
            elif isinstance(fn.obj, set) and fn.name in ('add', 'discard', 'remove', '__contains__') and args:
                args = [self.dict_key(args[0], fn.obj), *args[1:]]
            if isinstance(fn.obj, list | dict | set) and fn.name in _MUTATING_METHODS:
                self.note_store(fn.obj, *args, *kwargs.values())
            try:
                return fn.fn(*args, **kwargs)
            except (RaiseSignal, ReturnSignal, AnalysisError, PassThrough):
                raise
            except Exception as ex:  # noqa: BLE001
                if isinstance(fn.obj, str | bytes | int | float | list | dict | tuple | set) and isinstance(ex, ValueError | TypeError | KeyError | IndexError | OverflowError):
                    # a method of a concrete builtin value fails the same way in the package
                    raise RaiseSignal(type(ex).__name__, node, self.where(node), (str(ex),)) from None
                raise AnalysisError(f'concrete call {fn.name} failed at {self.where(node)}: {ex}') from None
        if hasattr(fn, 'vp_call'):
            return fn.vp_call(self, args, kwargs, node)
        if type(fn).__name__ == '_Partial':
            return self.call(fn.fn, [*fn.args, *args], {**fn.kwargs, **kwargs}, node)
        if isinstance(fn, Lambda):
            lenv = _Scope({}, fn.env)  # the enclosing scope is read as it is now
            la = fn.node.args
            params = la.posonlyargs + la.args
            if fn.defaults is not None:
                pd, kd = fn.defaults
                for p, dv in zip(params[len(params) - len(pd):], pd, strict=True):
                    lenv[p.arg] = dv
                for p, dv in zip(la.kwonlyargs, kd, strict=True):
                    if dv is not _MISSING:
                        lenv[p.arg] = dv
            for p, a in zip(params, args, strict=False):
                lenv[p.arg] = a
            if la.vararg is not None:
                lenv[la.vararg.arg] = tuple(args[len(params):])
            if la.kwarg is not None:
                known = {p.arg for p in params + la.kwonlyargs}
                lenv[la.kwarg.arg] = {k: v for k, v in kwargs.items() if k not in known}
                kwargs = {k: v for k, v in kwargs.items() if k in known}
            lenv.update(kwargs)
            return self.eval(fn.node.body, lenv, fn.mi)
        if isinstance(fn, SObj):
            m = self.find_method(fn.cls, '__call__')
            if m is not None:
                return self.call_function(m, args, kwargs, bound=fn)
        if isinstance(fn, Opaque):
            for a in list(args) + list(kwargs.values()):
                if isinstance(a, SVar) and a.origin is not None:
                    self.event('escapes-to-unknown', node, param=a.origin, callee=fn.why)
            return Opaque(f'{fn.why}(...)')
        if callable(fn) and not isinstance(fn, type):
            # a python-level stub object handed in by a check
            try:
                return fn(*args, **kwargs)
            except (RaiseSignal, ReturnSignal, AnalysisError, PassThrough):
                raise
            except Exception as ex:  # noqa: BLE001
                raise AnalysisError(f'stub call failed at {self.where(node)}: {type(ex).__name__}: {ex}') from None
        raise AnalysisError(f'call of {fn!r} at {self.where(node)}')

    def construct(self, ci: ClassInfo, args, kwargs, node):
        if self.is_enum(ci):
            if not self.concrete_enums:
                return Opaque(f'{ci.name}(...) enum member')
            if len(args) != 1 or isinstance(args[0], Opaque | SVar):
                return Opaque(f'{ci.name}(⊤) enum member')
            for m in self.enum_members(ci).values():
                if m.value == args[0] and type(m.value) is type(args[0]) or (m.value == args[0] and isinstance(args[0], int | float)):
                    return m
            if isinstance(args[0], EnumMember) and args[0].cls is ci:
                return args[0]
            raise RaiseSignal('ValueError', node, self.where(node), (f'{args[0]!r} is not a valid {ci.name}',))
        obj = SObj(ci)
        init = self.find_method(ci, '__init__')
        if init is not None:
            self.call_function(init, args, kwargs, bound=obj)
            return obj
        if ci.is_dataclass() or True:
            fields = []
            # include inherited dataclass fields
            chain = [ci]
            mi = self.repo.module(ci.module)
            for b in ci.bases:
                if b in mi.classes:
                    chain.insert(0, mi.classes[b])
            for c in chain:
                fields.extend(c.dataclass_fields())
            names = [n for n, _ in fields]
            for i, a in enumerate(args):
                if i >= len(names):
                    raise AnalysisError(f'too many arguments constructing {ci.name} at {self.where(node)}')
                obj.attrs[names[i]] = a
            for k, v in kwargs.items():
                obj.attrs[k] = v
            for n, d in fields:
                if n not in obj.attrs:
                    if d is None:
                        raise AnalysisError(f'missing field {n} constructing {ci.name} at {self.where(node)}')
                    obj.attrs[n] = self.eval(d, {}, mi)
            post = self.find_method(ci, '__post_init__')
            if post is not None:
                self.call_function(post, [], {}, bound=obj)
        return obj

    def ex_BinOp(self, e, env, mi):
        a = self.eval(e.left, env, mi)
        b = self.eval(e.right, env, mi)
        opname, pyop = self._AUG[type(e.op)]
        return self.binop(opname, pyop, a, b, e)

    def binop(self, opname, pyop, a, b, node):
        if isinstance(a, SVar | Unit) or isinstance(b, SVar | Unit):
            return self.model.binop(self, opname, a, b, node)
        if opname == 'or' and all(isinstance(x, ClassRef | ExtRef | tuple) for x in (a, b)):
            # X | Y on types: a union, used by isinstance
            flat = []
            for x in (a, b):
                flat.extend(x if isinstance(x, tuple) else (x,))
            return tuple(flat)
        if isinstance(a, Opaque) or isinstance(b, Opaque):
            return Opaque(f'{opname} on ⊤')
        if isinstance(a, SObj):
            meth = self.find_method(a.cls, {'add': '__add__', 'mul': '__mul__', 'sub': '__sub__'}.get(opname, '__nope__'))
            if meth is not None:
                return self.call_function(meth, [b], {}, bound=a)
        try:
            return pyop(a, b)
        except Exception as ex:  # noqa: BLE001
            if _plain(a, b) and isinstance(ex, TypeError | ValueError | ZeroDivisionError | OverflowError):
                raise RaiseSignal(type(ex).__name__, node, self.where(node), (str(ex),)) from None  # the program's own error
            raise AnalysisError(f'concrete {opname} failed at {self.where(node)}: {ex}') from None

    def ex_UnaryOp(self, e, env, mi):
        v = self.eval(e.operand, env, mi)
        if isinstance(e.op, ast.Not):
            if isinstance(v, Opaque | SVar):
                return Opaque('not ⊤', cond_term=('not', v))
            return not self.truth(v, e)
        if isinstance(v, SVar):
            return self.model.unop(self, type(e.op).__name__, v, e)
        if isinstance(v, Opaque):
            return Opaque('unary on ⊤')
        if isinstance(e.op, ast.USub):
            return -v
        if isinstance(e.op, ast.UAdd):
            return +v
        if isinstance(e.op, ast.Invert):
            return ~v
        raise AnalysisError(f'unary op at {self.where(e)}')

    def ex_BoolOp(self, e, env, mi):
        is_and = isinstance(e.op, ast.And)
        last = None
        for sub in e.values:
            last = self.eval(sub, env, mi)
            t = self.truth(last, sub)
            if is_and and not t:
                return last if not isinstance(last, Opaque | SVar) else False
            if not is_and and t:
                return last if not isinstance(last, Opaque | SVar) else True
        return last if not isinstance(last, Opaque | SVar) else (is_and)

    def ex_Compare(self, e, env, mi):
        left = self.eval(e.left, env, mi)
        result = True
        for op, right_node in zip(e.ops, e.comparators, strict=True):
            right = self.eval(right_node, env, mi)
            r = self.compare(op, left, right, e)
            if len(e.ops) == 1:
                return r
            if not self.truth(r, e):
                return False
            left = right
        return result

    _CMP = {ast.Eq: '==', ast.NotEq: '!=', ast.Lt: '<', ast.LtE: '<=', ast.Gt: '>', ast.GtE: '>='}

    def compare(self, op, a, b, node):
        if isinstance(op, ast.Is | ast.IsNot):
            if a is None or b is None or isinstance(a, bool) or isinstance(b, bool):
                if isinstance(a, Opaque) or isinstance(b, Opaque):
                    return Opaque('is on ⊤')
                r = a is b
            else:
                r = a is b
            return r if isinstance(op, ast.Is) else not r
        if isinstance(op, ast.In | ast.NotIn):
            if isinstance(b, Opaque) or isinstance(a, Opaque):
                return Opaque('in on ⊤')
            if isinstance(b, dict | set | frozenset) and not isinstance(a, Opaque):
                a = self.dict_key(a, b)
            if isinstance(b, SVar | SObj) or isinstance(a, SVar):
                return Opaque('in on abstract value')
            try:
                r = a in b
            except TypeError:
                return Opaque('in: unhashable')
            return r if isinstance(op, ast.In) else not r
        sym = self._CMP[type(op)]
        if sym in ('==', '!=') and (isinstance(a, bool) or isinstance(b, bool)):
            # a predicate compared with a known truth value is the predicate or its negation
            p, k = (b, a) if isinstance(a, bool) else (a, b)
            if (isinstance(p, SVar) and p.dtype == 'bool') or (isinstance(p, Opaque) and p.cond_term is not None):
                return p if k == (sym == '==') else Opaque('not ⊤', cond_term=('not', p))
        if isinstance(a, SVar) or isinstance(b, SVar):
            return self.model.compare(self, sym, a, b, node)
        if isinstance(a, Opaque) or isinstance(b, Opaque):
            return Opaque(f'{sym} on ⊤', shape_of_events=any(getattr(x, 'shape_of_events', False) for x in (a, b)))
        if isinstance(a, Unit) or isinstance(b, Unit):
            if sym == '==':
                return self.model.unit_eq(self, a, b, node)
            if sym == '!=':
                r = self.model.unit_eq(self, a, b, node)
                return (not r) if isinstance(r, bool) else Opaque('unit !=')
        if isinstance(a, SObj) and sym in ('==', '!='):
            meth = self.find_method(a.cls, '__eq__')
            if meth is not None:
                r = self.call_function(meth, [b], {}, bound=a)
                return r if sym == '==' else (not r if isinstance(r, bool) else Opaque('!='))
        try:
            return {'==': operator.eq, '!=': operator.ne, '<': operator.lt, '<=': operator.le,
                    '>': operator.gt, '>=': operator.ge}[sym](a, b)
        except TypeError as ex:
            if _plain(a, b):
                raise RaiseSignal('TypeError', node, self.where(node), (str(ex),)) from None  # the program's own error
            raise AnalysisError(f'concrete compare failed at {self.where(node)}: {ex}') from None

    def ex_IfExp(self, e, env, mi):
        c = self.truth(self.eval(e.test, env, mi), e.test)
        return self.eval(e.body if c else e.orelse, env, mi)

    def ex_Tuple(self, e, env, mi):
        try:
            return tuple(self._elts(e.elts, env, mi))
        except _OpaqueElts:
            return Opaque('tuple with ⊤ elements')

    def ex_List(self, e, env, mi):
        try:
            return list(self._elts(e.elts, env, mi))
        except _OpaqueElts:
            return Opaque('list with ⊤ elements')

    def ex_Set(self, e, env, mi):
        try:
            return set(self._elts(e.elts, env, mi))
        except _OpaqueElts:
            return Opaque('set with ⊤ elements')

    def _elts(self, elts, env, mi):
        out = []
        for x in elts:
            if isinstance(x, ast.Starred):
                v = self.eval(x.value, env, mi)
                if isinstance(v, Opaque):
                    raise _OpaqueElts()
                out.extend(self.iterate(v, x))
            else:
                out.append(self.eval(x, env, mi))
        return out

    def ex_Dict(self, e, env, mi):
        d = {}
        for k, v in zip(e.keys, e.values, strict=True):
            if k is None:
                sub = self.eval(v, env, mi)
                if isinstance(sub, SObj | Opaque):
                    raise AnalysisError(f'** of abstract value at {self.where(e)}')
                d.update(sub)
            else:
                d[self.eval(k, env, mi)] = self.eval(v, env, mi)
        return d

    def ex_Subscript(self, e, env, mi):
        obj = self.eval(e.value, env, mi)
        key = self.eval(e.slice, env, mi)
        return self.subscript(obj, key, e)

    def subscript(self, obj, key, node):
        if isinstance(obj, SVar):
            return self.model.var_index(self, obj, key, node)
        if isinstance(obj, Opaque):
            return Opaque(f'{obj.why}[...]')
        if isinstance(obj, BoundModel):
            return self.model.bound_index(self, obj, key, node)
        if isinstance(obj, ExtRef) and hasattr(self.model, 'ext_index'):
            return self.model.ext_index(self, obj.path, key, node)
        if isinstance(obj, SObj):
            gi = self.find_method(obj.cls, '__getitem__')
            if gi is not None:
                return self.call_function(gi, [key], {}, bound=obj)
            if self.is_namedtuple(obj.cls) and isinstance(key, int | slice):
                try:
                    return self.namedtuple_items(obj, node)[key]
                except IndexError:
                    raise RaiseSignal('IndexError', node, self.where(node), ('tuple index out of range',)) from None
        if hasattr(obj, 'vp_index'):
            return obj.vp_index(key)  # an object provided by a model: it knows how to be indexed by abstract keys
        if isinstance(obj, dict) and not isinstance(key, Opaque):
            key = self.dict_key(key, obj)
        if isinstance(key, Opaque | SVar):
            return Opaque('⊤ index')
        if obj is None:
            raise RaiseSignal('TypeError', node, self.where(node), ("'NoneType' object is not subscriptable",))
        try:
            return obj[key]
        except (KeyError, IndexError):
            raise RaiseSignal('KeyError' if isinstance(obj, dict) else 'IndexError', node, self.where(node), (key,)) from None
        except TypeError as ex:
            if _plain(obj, key):
                raise RaiseSignal('TypeError', node, self.where(node), (str(ex),)) from None  # the program's own error
            raise AnalysisError(f'subscript at {self.where(node)}: {ex}') from None

    def ex_Slice(self, e, env, mi):
        ev = lambda x: self.eval(x, env, mi) if x is not None else None  # noqa: E731
        lo, hi, st = ev(e.lower), ev(e.upper), ev(e.step)
        if any(isinstance(x, Opaque | SVar) for x in (lo, hi, st)):
            if getattr(self.model, 'symbolic_slices', False) and not any(isinstance(x, Opaque) for x in (lo, hi, st)):
                return slice(lo, hi, st)  # label-based slice with variable bounds
            return Opaque('slice with ⊤')
        return slice(lo, hi, st)

    def ex_JoinedStr(self, e, env, mi):
        parts = []
        for v in e.values:
            if isinstance(v, ast.Constant):
                parts.append(str(v.value))
            else:
                val = self.eval(v.value, env, mi)
                if isinstance(val, str | int | float | bool) or val is None:
                    parts.append(format(val, '') if not v.format_spec else str(val))
                else:
                    # a model may know how the abstract value prints (e.g. scipp's compact value(uncertainty) notation)
                    fmt = getattr(self.model, 'format_value', None)
                    spec = self.eval(v.format_spec, env, mi) if v.format_spec is not None else ''
                    text = fmt(self, val, spec if isinstance(spec, str) else None, v.conversion, v) if fmt is not None else None
                    if not isinstance(text, str):
                        return Opaque('f-string of abstract value')
                    parts.append(text)
        return ''.join(parts)

    def ex_FormattedValue(self, e, env, mi):
        return Opaque('formatted value')

    def ex_Lambda(self, e, env, mi):
        a = e.args
        return Lambda(e, env, mi, self.eval_defaults(a, env, mi) if (a.defaults or any(d is not None for d in a.kw_defaults)) else None)

    def ex_NamedExpr(self, e, env, mi):
        v = self.eval(e.value, env, mi)
        scope = env
        while isinstance(scope, _Scope) and scope.comprehension:
            scope = scope.maps[1] if len(scope.maps) == 2 else _Scope(*scope.maps[1:])  # the walrus binds in the enclosing function
        self.assign(e.target, v, scope, mi)
        return v

    def ex_Starred(self, e, env, mi):
        raise AnalysisError(f'starred expression at {self.where(e)}')

    _NOT_EVALUATED = object()

    def _comp(self, gens, env, mi, emit, first=_NOT_EVALUATED):
        def rec(i, env):
            if i == len(gens):
                emit(env)
                return
            g = gens[i]
            # the first iterable may have been evaluated by the caller already: never evaluate it twice
            # (it may be a file or an iterator that is consumed by the evaluation)
            itv = first if i == 0 and first is not Interp._NOT_EVALUATED else self.eval(g.iter, env, mi)
            if isinstance(itv, Opaque):
                raise _OpaqueElts()
            for v in self.iterate(itv, g.iter):
                self.assign(g.target, v, env, mi)
                if all(self.truth(self.eval(c, env, mi), c) for c in g.ifs):
                    rec(i + 1, env)
        # one scope for the whole comprehension, on top of the live enclosing scope: a lambda made in it sees the loop variable
        # as it is when the lambda is called (the last value, once the comprehension has finished)
        rec(0, _CompScope({}, env))

    def _first_iter(self, e, env, mi):
        """The first iterable of a comprehension, evaluated exactly once."""
        return self.eval(e.generators[0].iter, env, mi)

    def ex_ListComp(self, e, env, mi, first=_NOT_EVALUATED):
        if first is Interp._NOT_EVALUATED:
            first = self._first_iter(e, env, mi)
        if isinstance(first, Opaque):
            return Opaque('comprehension over ⊤')
        out = []
        try:
            self._comp(e.generators, env, mi, lambda en: out.append(self.eval(e.elt, en, mi)), first)
        except _OpaqueElts:
            return Opaque('comprehension over ⊤')
        return out

    def ex_GeneratorExp(self, e, env, mi):
        # a generator over a long concrete range stays lazy (id generators and the like)
        itv = self._first_iter(e, env, mi)
        if len(e.generators) == 1 and not e.generators[0].ifs:
            g = e.generators[0]
            if isinstance(itv, range) and len(itv) > 10000:
                def lazy():
                    for v in itv:
                        sub = dict(env)
                        self.assign(g.target, v, sub, mi)
                        yield self.eval(e.elt, sub, mi)
                return lazy()
        if isinstance(itv, Opaque):
            return Opaque('comprehension over ⊤')
        # the first iterable is evaluated now, the rest when the generator is consumed (next() / a loop consume it)
        scope = _CompScope({}, env)

        def produce(i):
            if i == len(e.generators):
                yield self.eval(e.elt, scope, mi)
                return
            g = e.generators[i]
            src = itv if i == 0 else self.eval(g.iter, scope, mi)
            if isinstance(src, Opaque):
                raise AnalysisError(f'generator over an unknown sequence at {self.where(e)}')
            for v in self.pulling(src, g.iter):
                self.assign(g.target, v, scope, mi)
                if all(self.truth(self.eval(c, scope, mi), c) for c in g.ifs):
                    yield from produce(i + 1)
        return LazyGen(produce(0))

    def pulling(self, v, node):
        """Iterate `v` the way a for loop does: a one-shot iterator gives up one element per step (what is not asked for stays in
        it), anything else is read from a snapshot."""
        if isinstance(v, GenResult):
            while v:
                yield v.pop(0)
            return
        yield from self.iterate(v, node)

    def ex_SetComp(self, e, env, mi):
        first = self._first_iter(e, env, mi)
        if isinstance(first, Opaque):
            return Opaque('comprehension over ⊤')
        out = set()
        try:
            self._comp(e.generators, env, mi, lambda en: out.add(self.eval(e.elt, en, mi)), first)
        except _OpaqueElts:
            return Opaque('comprehension over ⊤')
        return out

    def ex_DictComp(self, e, env, mi):
        first = self._first_iter(e, env, mi)
        if isinstance(first, Opaque):
            return Opaque('comprehension over ⊤')
        out = {}
        try:
            self._comp(e.generators, env, mi,
                       lambda en: out.__setitem__(self.eval(e.key, en, mi), self.eval(e.value, en, mi)), first)
        except _OpaqueElts:
            return Opaque('comprehension over ⊤')
        return out


_MISSING = object()


class _OpaqueElts(Exception):
    pass


class _Scope(collections.ChainMap):
    """A scope in front of the enclosing one, which is read live: the body of a closure, a comprehension, a generator expression."""

    comprehension = False

    def copy(self):
        return dict(self)


class _CompScope(_Scope):
    comprehension = True


class LazyGen(GenResult):
    """A generator expression: its body runs as it is consumed, one element at a time, with the variables of the enclosing
    scope as they are then; a one-shot source it reads from is consumed only as far as the reader goes."""

    def __init__(self, gen):
        super().__init__()
        self._gen = gen  # a Python generator producing the elements

    def _pull(self) -> bool:
        g = self.__dict__.get('_gen')
        if g is None:
            return False
        try:
            list.append(self, next(g))
            return True
        except StopIteration:
            self._gen = None
            return False

    def _force(self):
        while self._pull():
            pass

    def __iter__(self):
        self._force()
        return list.__iter__(self)

    def __len__(self):
        self._force()
        return list.__len__(self)

    def __bool__(self):
        return list.__len__(self) > 0 or self._pull()

    def __getitem__(self, k):
        self._force()
        return list.__getitem__(self, k)

    def __delitem__(self, k):
        self._force()
        return list.__delitem__(self, k)

    def pop(self, *a):
        if a == (0,) and list.__len__(self) == 0:
            self._pull()
        elif a != (0,):
            self._force()
        return list.pop(self, *a)

    def clear(self):
        self._gen = None
        return list.clear(self)

    def __repr__(self):
        return '<generator>' if self.__dict__.get('_gen') is not None else list.__repr__(self)


class _PyBound:
    """A method of a concrete Python value."""

    def __init__(self, obj, name, fn):
        self.obj = obj
        self.name = name
        self.fn = fn

    def __call__(self, *a, **k):
        return self.fn(*a, **k)


_PY_BUILTINS = {
    'len', 'set', 'dict', 'list', 'tuple', 'zip', 'enumerate', 'range', 'min', 'max', 'abs',
    'isinstance', 'round', 'float', 'int', 'str', 'bool', 'sorted', 'sum', 'all', 'any',
    'getattr', 'hasattr', 'type', 'super', 'object', 'ValueError', 'TypeError', 'KeyError',
    'RuntimeError', 'NotImplementedError', 'NotImplemented', 'print', 'frozenset', 'reversed',
    'map', 'filter', 'iter', 'next', 'repr', 'id', 'callable', 'Exception', 'IndexError',
    'AttributeError', 'divmod', 'pow', 'slice', 'complex', 'bytes', 'open', 'UserWarning', 'DeprecationWarning',
    'RuntimeWarning', 'Warning', 'FutureWarning', 'OverflowError', 'ZeroDivisionError', 'StopIteration', 'LookupError',
    'UnicodeDecodeError', 'UnicodeEncodeError', 'OSError', 'FileNotFoundError', 'memoryview', 'bytearray', 'chr', 'ord', 'hash', 'format',
}


_GEN_CACHE: dict = {}


def _is_generator(fn_node) -> bool:
    k = id(fn_node)
    if k not in _GEN_CACHE:
        found = False
        stack = list(fn_node.body)
        while stack and not found:
            n = stack.pop()
            if isinstance(n, ast.Yield | ast.YieldFrom):
                found = True
            elif not isinstance(n, ast.FunctionDef | ast.AsyncFunctionDef | ast.Lambda | ast.ClassDef):
                stack.extend(ast.iter_child_nodes(n))
        _GEN_CACHE[k] = found
    return _GEN_CACHE[k]


def _definite_view(obj: SVar, o: SVar) -> bool:
    x = obj
    while x is not None:
        if x is o:
            return True
        x = x.view_of
    return False


def _stmt_text(node) -> str:
    try:
        return ast.unparse(node)
    except Exception:  # noqa: BLE001
        return '?'
