"""Exact algebraic normal forms: scalars (rational functions over atoms with
rational exponents), vectors (linear forms over vector atoms), matrices
(non-commutative words).  Equality of scalars is decided by cross-multiplication.

Assumption (stated in DESIGN.md 2.2): an atom under a fractional power is a
positive quantity, so sqrt(x**2) == x.
"""

from __future__ import annotations

from fractions import Fraction as F
from math import isqrt


class Atom:
    __slots__ = ('id', 'kind', 'name', 'args', 'positive')

    def __init__(self, id_, kind, name, args, positive):
        self.id = id_
        self.kind = kind
        self.name = name
        self.args = args
        self.positive = positive

    def __repr__(self):
        return show_atom(self)


class AtomTable:
    def __init__(self):
        self.atoms: list[Atom] = []
        self.by_key: dict = {}

    def reset(self):
        self.atoms.clear()
        self.by_key.clear()


TABLE = AtomTable()


def reset():
    TABLE.reset()


def _arg_eq(a, b) -> bool:
    if isinstance(a, Rat) and isinstance(b, Rat):
        return a.eq(b)
    if isinstance(a, Vec) and isinstance(b, Vec):
        return a.eq(b)
    if isinstance(a, tuple) and isinstance(b, tuple):
        return len(a) == len(b) and all(_arg_eq(x, y) for x, y in zip(a, b, strict=True))
    if type(a) is not type(b):
        return False
    return a == b


def atom(kind: str, name: str, args: tuple = (), positive: bool = False) -> Atom:
    """Intern an atom; arguments are compared semantically."""
    for a in TABLE.by_key.get((kind, name), ()):
        if _arg_eq(a.args, args):
            if positive and not a.positive:
                a.positive = True
            return a
    a = Atom(len(TABLE.atoms), kind, name, args, positive)
    TABLE.atoms.append(a)
    TABLE.by_key.setdefault((kind, name), []).append(a)
    return a


def A(i: int) -> Atom:
    return TABLE.atoms[i]


# ---------------------------------------------------------------------------
# monomials: tuple of (atom id, exponent) sorted by atom id; polys: dict mono -> F

ONE_M = ()


def _mono_mul(a, b):
    if not a:
        return b
    if not b:
        return a
    d = dict(a)
    for k, e in b:
        v = d.get(k, 0) + e
        if v == 0:
            d.pop(k, None)
        else:
            d[k] = v
    return tuple(sorted(d.items()))


def _mono_pow(a, e):
    return tuple((k, x * e) for k, x in a) if e != 0 else ONE_M


def _poly_add(p, q, sign=1):
    r = dict(p)
    for m, c in q.items():
        v = r.get(m, 0) + sign * c
        if v == 0:
            r.pop(m, None)
        else:
            r[m] = v
    return r


def _poly_mul(p, q):
    r: dict = {}
    for m1, c1 in p.items():
        for m2, c2 in q.items():
            m = _mono_mul(m1, m2)
            v = r.get(m, 0) + c1 * c2
            if v == 0:
                r.pop(m, None)
            else:
                r[m] = v
    return r


ONE_P = {ONE_M: F(1)}


def _prime_factors(n: int) -> dict[int, int]:
    out = {}
    p = 2
    while p * p <= n:
        while n % p == 0:
            out[p] = out.get(p, 0) + 1
            n //= p
        p += 1 if p == 2 else 2
    if n > 1:
        out[n] = out.get(n, 0) + 1
    return out


class Rat:
    """Rational function num/den in normal form (see module docstring)."""

    __slots__ = ('num', 'den')

    def __init__(self, num: dict, den: dict | None = None, _norm=True):
        self.num = num
        self.den = den if den is not None else ONE_P
        if _norm:
            self._normalise()

    # -- construction -------------------------------------------------
    @staticmethod
    def const(c) -> Rat:
        if isinstance(c, float):
            if c != c:
                return Rat.atom(atom('nan', 'nan'))
            if c in (float('inf'), float('-inf')):
                r = Rat.atom(atom('sym', 'inf', (), True))
                return r if c > 0 else -r
            c = F(repr(c))
        c = F(c)
        if c == 0:
            return Rat({}, None, _norm=False)
        return Rat({ONE_M: c}, None, _norm=False)

    @staticmethod
    def atom(a: Atom, e=1) -> Rat:
        return Rat({((a.id, F(e)),): F(1)})

    @staticmethod
    def sym(name: str, positive: bool = False) -> Rat:
        return Rat.atom(atom('sym', name, (), positive))

    @staticmethod
    def fn(name: str, *args, positive: bool = False) -> Rat:
        return Rat.atom(atom('fn', name, tuple(args), positive))

    # -- normalisation ------------------------------------------------
    def _normalise(self):
        num, den = self.num, self.den
        if not num:
            self.num, self.den = {}, ONE_P
            return
        if len(den) == 1:
            (m, c), = den.items()
            if m or c != 1:
                inv = _mono_pow(m, -1)
                num = {_mono_mul(k, inv): v / c for k, v in num.items()}
            den = ONE_P
        # expand integer parts of 'base' atoms and primes
        if _needs_expand(num) or (den is not ONE_P and _needs_expand(den)):
            r = _expand(num) / _expand(den) if den is not ONE_P else _expand(num)
            self.num, self.den = r.num, r.den
            return
        if den is not ONE_P:
            # strip common monomial content of the denominator, make it monic
            atoms = {}
            first = True
            for m in den:
                d = dict(m)
                if first:
                    atoms = dict(d)
                    first = False
                else:
                    for k in list(atoms):
                        if k in d:
                            atoms[k] = min(atoms[k], d[k])
                        else:
                            atoms[k] = min(atoms[k], 0)
                    for k in d:
                        if k not in atoms:
                            atoms[k] = min(0, d[k])
            g = tuple(sorted((k, e) for k, e in atoms.items() if e != 0))
            lead = den[min(den)]
            if g or lead != 1:
                inv = _mono_pow(g, -1)
                den = {_mono_mul(k, inv): v / lead for k, v in den.items()}
                num = {_mono_mul(k, inv): v / lead for k, v in num.items()}
                if _needs_expand(num) or _needs_expand(den):
                    r = _expand(num) / _expand(den)
                    self.num, self.den = r.num, r.den
                    return
            # exact division num / den when it leaves no remainder
            q = _poly_divide(num, den)
            if q is not None:
                num, den = q, ONE_P
                if _needs_expand(num):
                    r = _expand(num)
                    num, den = r.num, r.den
        self.num, self.den = num, den

    # -- arithmetic ---------------------------------------------------
    def __add__(self, o):
        o = _rat(o)
        if self.den is ONE_P and o.den is ONE_P:
            return Rat(_poly_add(self.num, o.num))
        if _poly_eq(self.den, o.den):
            return Rat(_poly_add(self.num, o.num), self.den)
        return Rat(
            _poly_add(_poly_mul(self.num, o.den), _poly_mul(o.num, self.den)),
            _poly_mul(self.den, o.den),
        )

    __radd__ = __add__

    def __neg__(self):
        return Rat({m: -c for m, c in self.num.items()}, self.den, _norm=False)

    def __sub__(self, o):
        return self + (-_rat(o))

    def __rsub__(self, o):
        return _rat(o) + (-self)

    def __mul__(self, o):
        if isinstance(o, Vec):
            return o * self
        o = _rat(o)
        den = ONE_P if (self.den is ONE_P and o.den is ONE_P) else _poly_mul(
            self.den, o.den
        )
        return Rat(_poly_mul(self.num, o.num), den)

    __rmul__ = __mul__

    def __truediv__(self, o):
        o = _rat(o)
        if not o.num:
            raise ZeroDivisionError('symbolic division by zero')
        return Rat(_poly_mul(self.num, o.den), _poly_mul(self.den, o.num))

    def __rtruediv__(self, o):
        return _rat(o) / self

    def __pow__(self, e):
        e = F(e)
        if e == 0:
            return Rat.const(1)
        if e.denominator == 1:
            n = int(e)
            if n < 0:
                return Rat.const(1) / (self ** (-n))
            if self.den is ONE_P and len(self.num) == 1:
                (m, c), = self.num.items()
                return Rat({_mono_pow(m, n): c**n})
            r = Rat.const(1)
            for _ in range(n):
                r = r * self
            return r
        # fractional power
        if not self.num:
            return self
        if self.den is ONE_P and len(self.num) == 1:
            (m, c), = self.num.items()
            if c < 0:
                base = atom('base', 'base', (self,), True)
                return Rat.atom(base, e)
            out = Rat({_mono_pow(m, e): F(1)})
            for p, k in _prime_factors(c.numerator).items():
                out = out * Rat.atom(atom('prime', str(p), (), True), k * e)
            for p, k in _prime_factors(c.denominator).items():
                out = out * Rat.atom(atom('prime', str(p), (), True), -k * e)
            return out
        if self.den is not ONE_P:
            return Rat(self.num) ** e / Rat(self.den) ** e
        # pull out monomial content and rational content so that e.g.
        # sqrt(4*a*a + 4*a*a*b) == 2*a*sqrt(1+b)
        base = atom('base', 'base', (self,), True)
        return Rat.atom(base, e)

    # -- queries ------------------------------------------------------
    def is_zero(self) -> bool:
        return not self.num

    def eq(self, o) -> bool:
        o = _rat(o)
        if self.den is ONE_P and o.den is ONE_P:
            return _poly_eq(self.num, o.num)
        return _poly_eq(_poly_mul(self.num, o.den), _poly_mul(o.num, self.den))

    def as_const(self):
        if not self.num:
            return F(0)
        if self.den is ONE_P and len(self.num) == 1 and ONE_M in self.num:
            return self.num[ONE_M]
        return None

    def atoms(self) -> set[int]:
        out = set()
        stack = [self]

        def visit(k):
            if k not in out:
                out.add(k)
                stack.extend(_atom_children(A(k)))

        while stack:
            x = stack.pop()
            if isinstance(x, Rat):
                for poly in (x.num, x.den):
                    for m in poly:
                        for k, _ in m:
                            visit(k)
            elif isinstance(x, Vec):
                for k, c in x.terms.items():
                    visit(k)
                    stack.append(c)
            elif isinstance(x, Atom):
                visit(x.id)
            elif isinstance(x, tuple):
                stack.extend(x)
            elif isinstance(x, Mat):
                stack.append(x.coef)
                for k, _ in x.word:
                    visit(k)
        return out

    def sign(self):
        """+1/-1/0 if decidable from positivity flags, else None."""
        if not self.num:
            return 0
        if self.den is not ONE_P:
            sn, sd = Rat(self.num).sign(), Rat(self.den).sign()
            return None if sn is None or sd is None else sn * sd
        signs = set()
        for m, c in self.num.items():
            for k, e in m:
                if not A(k).positive and F(e).denominator == 1 and int(e) % 2 != 0:
                    return None
                if not A(k).positive and F(e).denominator != 1:
                    return None
            signs.add(1 if c > 0 else -1)
        return signs.pop() if len(signs) == 1 else None

    def subst(self, mapping: dict) -> Rat:
        """Substitute atoms (by id) with Rat/Vec values, recursively."""
        return _subst(self, mapping)

    def degree_in(self, a: Atom):
        """(min, max) exponent of atom a across numerator terms; den must be free."""
        if self.den is not ONE_P:
            for m in self.den:
                if any(k == a.id for k, _ in m):
                    return None
        es = []
        for m in self.num:
            es.append(dict(m).get(a.id, F(0)))
        return (min(es), max(es)) if es else (F(0), F(0))

    def __repr__(self):
        return show(self)


def _fold_primes(m, c):
    """Normalise one term: integer parts of prime powers go to the coefficient."""
    out = []
    for k, e in m:
        a = TABLE.atoms[k]
        if a.kind == 'prime' and (e >= 1 or e < 0):
            n = e.numerator // e.denominator
            c = c * F(int(a.name)) ** n
            e = e - n
            if e:
                out.append((k, e))
        elif a.kind == 'base' and (e >= 1 or e <= -1):
            return None, None
        else:
            out.append((k, e))
    return tuple(out), c


def _poly_divide(num: dict, den: dict, limit: int = 400):
    """Quotient of num by den if the division is exact, else None."""
    atoms = sorted({k for p in (num, den) for m in p for k, _ in m})

    def key(m):
        d = dict(m)
        return tuple(d.get(a, 0) for a in atoms)

    lead_d = max(den, key=key)
    cd = den[lead_d]
    inv = _mono_pow(lead_d, -1)
    rem = dict(num)
    quo: dict = {}
    for _ in range(limit):
        if not rem:
            return quo
        lead_r = max(rem, key=key)
        qm = _mono_mul(lead_r, inv)
        qc = rem[lead_r] / cd
        # the quotient term times den must cancel the leading remainder term
        # and every product monomial must be ordered below it
        for m, c in den.items():
            pm, pc = _fold_primes(_mono_mul(m, qm), qc * c)
            if pm is None:
                return None
            v = rem.get(pm, 0) - pc
            if v == 0:
                rem.pop(pm, None)
            else:
                rem[pm] = v
        nqm, nqc = _fold_primes(qm, qc)
        if nqm is None:
            return None
        quo[nqm] = quo.get(nqm, 0) + nqc
        if len(rem) > 4 * (len(num) + len(den)) + 8:
            return None
    return None


def _needs_expand(poly) -> bool:
    for m in poly:
        for k, e in m:
            kind = TABLE.atoms[k].kind
            if kind == 'base' and (e >= 1 or e <= -1):
                return True
            if kind == 'prime' and (e >= 1 or e < 0):
                return True
    return False


def _atom_children(a: Atom) -> list:
    if a.kind in ('norm', 'dot', 'cross', 'comp'):
        return [A(k) for k in a.args]
    if a.kind == 'matvec':
        return [A(k) for k, _ in a.args[0]] + [A(a.args[1])]
    return list(a.args)


def _poly_eq(p, q) -> bool:
    return p == q


def _expand(poly) -> Rat:
    """Rewrite base**(k+f) -> arg**k * base**f and fold prime integer powers."""
    total = Rat({}, None, _norm=False)
    for m, c in poly.items():
        term = Rat.const(c)
        rest = []
        for k, e in m:
            a = A(k)
            if a.kind == 'base' and (e >= 1 or e <= -1):
                n = int(e) if e > 0 else -int(-e)
                frac = e - n
                term = term * (a.args[0] ** n)
                if frac:
                    rest.append((k, frac))
            elif a.kind == 'prime' and (e >= 1 or e < 0):
                n = e.numerator // e.denominator  # floor
                frac = e - n
                term = term * Rat.const(F(int(a.name)) ** n)
                if frac:
                    rest.append((k, frac))
            else:
                rest.append((k, e))
        if rest:
            term = term * Rat({tuple(sorted(rest)): F(1)}, None, _norm=False)
        total = total + term
    return total


def _rat(x) -> Rat:
    if isinstance(x, Rat):
        return x
    if isinstance(x, int | float | F):
        return Rat.const(x)
    raise TypeError(f'not a scalar term: {x!r}')


def sqrt(x: Rat) -> Rat:
    return x ** F(1, 2)


# ---------------------------------------------------------------------------
class Vec:
    """Linear form over vector atoms with Rat coefficients."""

    __slots__ = ('terms',)

    def __init__(self, terms: dict[int, Rat]):
        self.terms = {k: c for k, c in terms.items() if not c.is_zero()}

    @staticmethod
    def sym(name: str) -> Vec:
        return Vec({atom('vsym', name).id: Rat.const(1)})

    @staticmethod
    def of(a: Atom) -> Vec:
        return Vec({a.id: Rat.const(1)})

    @staticmethod
    def basis(c: str) -> Vec:
        return Vec({atom('basis', c).id: Rat.const(1)})

    @staticmethod
    def literal(x, y, z) -> Vec:
        return Vec.basis('x') * _rat(x) + Vec.basis('y') * _rat(y) + Vec.basis('z') * _rat(z)

    def __add__(self, o):
        if not isinstance(o, Vec):
            return NotImplemented
        t = dict(self.terms)
        for k, c in o.terms.items():
            t[k] = t[k] + c if k in t else c
        return Vec(t)

    def __neg__(self):
        return Vec({k: -c for k, c in self.terms.items()})

    def __sub__(self, o):
        return self + (-o)

    def __mul__(self, s):
        s = _rat(s)
        return Vec({k: c * s for k, c in self.terms.items()})

    __rmul__ = __mul__

    def __truediv__(self, s):
        s = _rat(s)
        return Vec({k: c / s for k, c in self.terms.items()})

    def is_zero(self):
        return not self.terms

    def eq(self, o) -> bool:
        if not isinstance(o, Vec) or set(self.terms) != set(o.terms):
            return False
        return all(c.eq(o.terms[k]) for k, c in self.terms.items())

    def subst(self, mapping):
        return _subst(self, mapping)

    def atoms(self):
        return Rat.atoms(self)  # type: ignore[arg-type]

    def __repr__(self):
        return show(self)


def dot(a: Vec, b: Vec) -> Rat:
    total = Rat.const(0)
    for k1, c1 in a.terms.items():
        for k2, c2 in b.terms.items():
            total = total + c1 * c2 * _dot_atoms(A(k1), A(k2))
    return total


def _dot_atoms(a: Atom, b: Atom) -> Rat:
    if a.kind == 'basis' and b.kind == 'basis':
        return Rat.const(1 if a.name == b.name else 0)
    if a.id == b.id:
        return _norm_atom(a) ** 2
    for p, q in ((a, b), (b, a)):
        if p.kind == 'cross' and q.id in p.args:
            return Rat.const(0)
        if p.kind == 'basis':
            return comp(Vec.of(q), p.name)
    if a.id > b.id:
        a, b = b, a
    return Rat.atom(atom('dot', 'dot', (a.id, b.id)))


def _norm_atom(a: Atom) -> Rat:
    if a.kind == 'basis':
        return Rat.const(1)
    if a.kind == 'unitvec':
        return Rat.const(1)
    return Rat.atom(atom('norm', 'norm', (a.id,), True))


def norm(v: Vec) -> Rat:
    if v.is_zero():
        return Rat.const(0)
    if len(v.terms) == 1:
        (k, c), = v.terms.items()
        s = c.sign()
        if s is not None:
            return (c if s > 0 else -c) * _norm_atom(A(k))
    # canonical up to sign
    for a in TABLE.by_key.get(('normL', 'normL'), ()):
        if a.args[0].eq(v) or a.args[0].eq(-v):
            return Rat.atom(a)
    return Rat.atom(atom('normL', 'normL', (v,), True))


def cross(a: Vec, b: Vec) -> Vec:
    out = Vec({})
    for k1, c1 in a.terms.items():
        for k2, c2 in b.terms.items():
            out = out + _cross_atoms(A(k1), A(k2)) * (c1 * c2)
    return out


_BASIS_CROSS = {('x', 'y'): 'z', ('y', 'z'): 'x', ('z', 'x'): 'y'}


def _cross_atoms(a: Atom, b: Atom) -> Vec:
    if a.id == b.id:
        return Vec({})
    if a.kind == 'basis' and b.kind == 'basis':
        if (a.name, b.name) in _BASIS_CROSS:
            return Vec.basis(_BASIS_CROSS[(a.name, b.name)])
        return -Vec.basis(_BASIS_CROSS[(b.name, a.name)])
    if a.id < b.id:
        return Vec.of(atom('cross', 'cross', (a.id, b.id)))
    return -Vec.of(atom('cross', 'cross', (b.id, a.id)))


def comp(v: Vec, c: str) -> Rat:
    total = Rat.const(0)
    for k, coef in v.terms.items():
        a = A(k)
        if a.kind == 'basis':
            total = total + (coef if a.name == c else Rat.const(0))
        elif a.kind == 'asvec':
            total = total + coef * a.args['xyz'.index(c)]
        else:
            total = total + coef * Rat.atom(atom('comp', c, (k,)))
    return total


def as_vectors(x: Rat, y: Rat, z: Rat) -> Vec:
    """Inverse of comp where possible, else an opaque 'asvec' atom."""

    def decompose(r: Rat, c: str):
        if r.den is not ONE_P:
            return None
        out: dict[int, Rat] = {}
        for m, coef in r.num.items():
            comps = [(k, e) for k, e in m if A(k).kind == 'comp' and A(k).name == c]
            if len(comps) != 1 or comps[0][1] != 1:
                return None
            k = comps[0][0]
            rest = tuple(p for p in m if p[0] != k)
            v = A(k).args[0]
            term = Rat({rest: coef})
            out[v] = out[v] + term if v in out else term
        return Vec(out)

    dx, dy, dz = decompose(x, 'x'), decompose(y, 'y'), decompose(z, 'z')
    if dx is not None and dy is not None and dz is not None and dx.eq(dy) and dx.eq(dz):
        return dx
    return Vec.of(atom('asvec', 'asvec', (x, y, z)))


# ---------------------------------------------------------------------------
class Mat:
    """coef * product of matrix atoms (each possibly inverted)."""

    __slots__ = ('coef', 'word')

    def __init__(self, coef: Rat, word: tuple):
        self.coef = coef
        self.word = _cancel(word)

    @staticmethod
    def sym(name: str) -> Mat:
        return Mat(Rat.const(1), ((atom('msym', name).id, False),))

    @staticmethod
    def of(a: Atom) -> Mat:
        return Mat(Rat.const(1), ((a.id, False),))

    def __mul__(self, o):
        if isinstance(o, Mat):
            return Mat(self.coef * o.coef, self.word + o.word)
        if isinstance(o, Vec):
            out = Vec({})
            for k, c in o.terms.items():
                a = A(k)
                word, base = self.word, k
                if a.kind == 'matvec':
                    word = _cancel(self.word + a.args[0])
                    base = a.args[1]
                if word:
                    va = atom('matvec', 'matvec', (word, base))
                    out = out + Vec.of(va) * (c * self.coef)
                else:
                    out = out + Vec({base: c * self.coef})
            return out
        return Mat(self.coef * _rat(o), self.word)

    def __rmul__(self, o):
        return Mat(self.coef * _rat(o), self.word)

    def __truediv__(self, o):
        return Mat(self.coef / _rat(o), self.word)

    def inv(self) -> Mat:
        return Mat(1 / self.coef, tuple((k, not i) for k, i in reversed(self.word)))

    def eq(self, o) -> bool:
        return isinstance(o, Mat) and self.word == o.word and self.coef.eq(o.coef)

    def subst(self, mapping):
        return _subst(self, mapping)

    def atoms(self):
        return Rat.atoms(self)  # type: ignore[arg-type]

    def __repr__(self):
        return show(self)


def _cancel(word: tuple) -> tuple:
    out: list = []
    for k, inv in word:
        if out and out[-1][0] == k and out[-1][1] != inv:
            out.pop()
        else:
            out.append((k, inv))
    return tuple(out)


# ---------------------------------------------------------------------------
def _subst(x, mapping: dict):
    """mapping: atom id -> Rat | Vec | Mat."""
    if isinstance(x, Rat):
        if not (x.atoms() & set(mapping)):
            return x
        def poly(p):
            total = Rat.const(0)
            for m, c in p.items():
                t = Rat.const(c)
                for k, e in m:
                    t = t * (_subst_atom(A(k), mapping) ** e)
                total = total + t
            return total
        n = poly(x.num)
        return n if x.den is ONE_P else n / poly(x.den)
    if isinstance(x, Vec):
        out = Vec({})
        for k, c in x.terms.items():
            out = out + _subst_vatom(A(k), mapping) * _subst(c, mapping)
        return out
    if isinstance(x, Mat):
        m = Mat(_subst(x.coef, mapping), ())
        for k, inv in x.word:
            sub = mapping.get(k, Mat.of(A(k)))
            m = m * (sub.inv() if inv else sub)
        return m
    if isinstance(x, tuple):
        return tuple(_subst(i, mapping) for i in x)
    return x


def _subst_atom(a: Atom, mapping) -> Rat:
    if a.id in mapping:
        return mapping[a.id]
    if not a.args:
        return Rat.atom(a)
    if a.kind == 'norm':
        v = _subst_vatom(A(a.args[0]), mapping)
        return norm(v)
    if a.kind == 'dot':
        return dot(_subst_vatom(A(a.args[0]), mapping), _subst_vatom(A(a.args[1]), mapping))
    if a.kind == 'comp':
        return comp(_subst_vatom(A(a.args[0]), mapping), a.name)
    if a.kind == 'normL':
        return norm(_subst(a.args[0], mapping))
    if a.kind == 'base':
        return _subst(a.args[0], mapping)  # caller applies the exponent
    args = tuple(_subst(x, mapping) for x in a.args)
    return make_fn(a.kind, a.name, args, a.positive)


def _subst_vatom(a: Atom, mapping) -> Vec:
    if a.id in mapping:
        return mapping[a.id]
    if a.kind == 'cross':
        return cross(_subst_vatom(A(a.args[0]), mapping), _subst_vatom(A(a.args[1]), mapping))
    if a.kind == 'matvec':
        m = Mat(Rat.const(1), ())
        for k, inv in a.args[0]:
            sub = mapping.get(k, Mat.of(A(k)))
            m = m * (sub.inv() if inv else sub)
        return m * _subst_vatom(A(a.args[1]), mapping)
    if a.kind == 'asvec':
        return as_vectors(*(_subst(x, mapping) for x in a.args))
    if a.kind == 'vfn':
        return Vec.of(atom('vfn', a.name, tuple(_subst(x, mapping) for x in a.args)))
    return Vec.of(a)


def make_fn(kind, name, args, positive=False) -> Rat:
    """Re-create a function atom through the smart constructors."""
    if kind == 'fn':
        ctor = FN_CTORS.get(name)
        if ctor is not None:
            return ctor(*args)
    return Rat.atom(atom(kind, name, args, positive))


# ---------------------------------------------------------------------------
# smart constructors for function atoms

def fn_abs(x: Rat) -> Rat:
    s = x.sign()
    if s is not None:
        return x if s >= 0 else -x
    for a in TABLE.by_key.get(('fn', 'abs'), ()):
        if a.args[0].eq(x) or a.args[0].eq(-x):
            return Rat.atom(a)
    return Rat.fn('abs', x, positive=True)


def fn_simple(name, positive=False, odd=False):
    def ctor(x: Rat) -> Rat:
        if odd:
            # canonical sign: sin(-x) = -sin(x)
            for a in TABLE.by_key.get(('fn', name), ()):
                if a.args[0].eq(x):
                    return Rat.atom(a)
                if a.args[0].eq(-x):
                    return -Rat.atom(a)
        return Rat.fn(name, x, positive=positive)
    return ctor


def _positive_content(r: Rat) -> dict | None:
    """Exponents of positive atoms common to every term of r (den must be 1)."""
    if r.den is not ONE_P or not r.num:
        return None
    common = None
    for m in r.num:
        d = {k: e for k, e in m if A(k).positive}
        if common is None:
            common = d
        else:
            common = {k: min(e, d[k]) for k, e in common.items() if k in d and (e > 0) == (d[k] > 0)}
    return common or {}


def fn_atan2(y: Rat, x: Rat) -> Rat:
    # atan2(k*y, k*x) == atan2(y, x) for k > 0: strip the common positive content
    cy, cx = _positive_content(y), _positive_content(x)
    if cy and cx:
        common = {}
        for k, e in cy.items():
            if k in cx and (e > 0) == (cx[k] > 0):
                common[k] = min(e, cx[k], key=abs)
        if common:
            g = Rat({tuple(sorted(common.items())): F(1)})
            y, x = y / g, x / g
    return Rat.fn('atan2', y, x)


def fn_exp(x: Rat) -> Rat:
    if x.is_zero():
        return Rat.const(1)
    # exp(c * log(k)) == k**c for a rational constant k
    if x.den is ONE_P and len(x.num) == 1:
        (m, c), = x.num.items()
        if len(m) == 1 and m[0][1] == 1:
            a = A(m[0][0])
            if a.kind == 'fn' and a.name == 'log' and isinstance(a.args[0], Rat) and a.args[0].as_const() is not None \
                    and a.args[0].as_const() > 0:
                return Rat.const(a.args[0].as_const()) ** c
    return Rat.fn('exp', x, positive=True)


def fn_cmp(op: str, lhs: Rat, rhs: Rat) -> Rat:
    """Canonical comparison atom cmp(op, d) meaning `d op 0` with op in <=,<,==,!=."""
    d = lhs - rhs
    if op in ('>', '>='):
        d = -d
        op = '<' if op == '>' else '<='
    if op in ('==', '!='):
        for a in TABLE.by_key.get(('fn', 'cmp' + op), ()):
            if a.args[0].eq(-d):
                return Rat.atom(a)
    return Rat.fn('cmp' + op, d)


def _single_atom(r: Rat):
    if r.den is ONE_P and len(r.num) == 1:
        (m, c), = r.num.items()
        if c == 1 and len(m) == 1 and m[0][1] == 1:
            return A(m[0][0])
    return None


def fn_not(c: Rat) -> Rat:
    a = _single_atom(c)
    if a is not None and a.kind == 'fn' and a.name == 'not':
        return a.args[0]  # double negation
    return Rat.fn('not', c)


def fn_where(c: Rat, a: Rat, b: Rat) -> Rat:
    # where(~c, a, b) is where(c, b, a) exactly
    at = _single_atom(c)
    if at is not None and at.kind == 'fn' and at.name == 'not':
        return fn_where(at.args[0], b, a)
    return Rat.fn('where', c, a, b)


def fn_bool(name: str, *args: Rat) -> Rat:
    if name in ('and', 'or'):
        ids = sorted(args, key=lambda r: show(r))
        return Rat.fn(name, *ids)
    return Rat.fn(name, *args)


FN_CTORS = {
    'abs': fn_abs,
    'sin': fn_simple('sin', odd=True),
    'tan': fn_simple('tan', odd=True),
    'asin': fn_simple('asin', odd=True),
    'cos': fn_simple('cos'),
    'acos': fn_simple('acos'),
    'exp': fn_exp,
    'log': fn_simple('log'),
    'atan2': fn_atan2,
    'where': fn_where,
}


# ---------------------------------------------------------------------------
# printing

def show_atom(a: Atom) -> str:
    if a.kind in ('sym', 'vsym', 'msym'):
        return a.name
    if a.kind == 'prime':
        return a.name
    if a.kind == 'basis':
        return f'e_{a.name}'
    if a.kind == 'nan':
        return 'NaN'
    if a.kind == 'norm':
        return f'|{show_atom(A(a.args[0]))}|'
    if a.kind == 'normL':
        return f'|{show(a.args[0])}|'
    if a.kind == 'dot':
        return f'({show_atom(A(a.args[0]))}·{show_atom(A(a.args[1]))})'
    if a.kind == 'cross':
        return f'({show_atom(A(a.args[0]))}×{show_atom(A(a.args[1]))})'
    if a.kind == 'comp':
        return f'{show_atom(A(a.args[0]))}.{a.name}'
    if a.kind == 'base':
        return f'[{show(a.args[0])}]'
    if a.kind == 'matvec':
        w = '·'.join(
            (f'inv({show_atom(A(k))})' if inv else show_atom(A(k))) for k, inv in a.args[0]
        )
        return f'({w}·{show_atom(A(a.args[1]))})'
    return f'{a.name}(' + ', '.join(show(x) for x in a.args) + ')'


def _show_exp(e) -> str:
    e = F(e)
    if e == 1:
        return ''
    if e.denominator == 1:
        return f'^{e.numerator}'
    return f'^({e})'


def _show_poly(p) -> str:
    if not p:
        return '0'
    parts = []
    for m, c in sorted(p.items(), key=lambda kv: [(A(k).kind, show_atom(A(k)), e) for k, e in kv[0]]):
        fs = [f'{show_atom(A(k))}{_show_exp(e)}' for k, e in m]
        if c != 1 or not fs:
            if c == -1 and fs:
                fs[0] = '-' + fs[0]
            else:
                fs.insert(0, str(c))
        parts.append('*'.join(fs))
    return ' + '.join(parts).replace('+ -', '- ')


def show(x) -> str:
    if isinstance(x, Rat):
        n = _show_poly(x.num)
        if x.den is ONE_P or x.den == ONE_P:
            return n
        return f'({n}) / ({_show_poly(x.den)})'
    if isinstance(x, Vec):
        if not x.terms:
            return '0⃗'
        return ' + '.join(f'({show(c)})*{show_atom(A(k))}' for k, c in sorted(x.terms.items()))
    if isinstance(x, Mat):
        w = '·'.join((f'inv({show_atom(A(k))})' if inv else show_atom(A(k))) for k, inv in x.word)
        return f'({show(x.coef)})*{w or "I"}'
    if isinstance(x, Atom):
        return show_atom(x)
    if isinstance(x, tuple):
        return '(' + ', '.join(show(i) for i in x) + ')'
    return repr(x)


# ---------------------------------------------------------------------------
# evaluation at a witness point (used to decide comparisons in finite-domain analyses)

class EvalError(Exception):
    pass


def evaluate(r: Rat, val: dict, fns: dict | None = None):
    """Value of the scalar term at the point `val` (symbol name -> Fraction).  Exact (Fraction)
    whenever every power that occurs is rational-valued; EvalError for anything else."""
    def power(b, e: F):
        if e.denominator == 1:
            if b == 0 and e < 0:
                raise EvalError('division by zero')
            return F(b) ** int(e)
        b = F(b)
        if b < 0:
            raise EvalError('fractional power of a negative number')
        n, d = b.numerator, b.denominator
        k = e.denominator
        rn, rd = round(n ** (1 / k)), round(d ** (1 / k))
        if rn ** k == n and rd ** k == d:
            return F(rn, rd) ** e.numerator
        raise EvalError(f'irrational power {b}^{e}')

    def atom_value(a: Atom):
        if a.kind == 'sym':
            if a.name in val:
                return F(val[a.name])
            raise EvalError(f'no witness value for {a.name}')
        if a.kind == 'prime':
            return F(int(a.name))
        if a.kind == 'base':
            return evaluate(a.args[0], val, fns)
        if a.kind == 'fn':
            args = [evaluate(x, val, fns) if isinstance(x, Rat) else x for x in a.args]
            if fns and a.name in fns:
                return F(fns[a.name](*args))
            if a.name == 'abs':
                return abs(args[0])
            if a.name == 'round':
                return F(round(args[0]))
            if a.name == 'floor':
                return F(args[0].__floor__())
            if a.name == 'ceil':
                return F(args[0].__ceil__())
            if a.name in ('pymax', 'max2'):
                return max(args)
            if a.name in ('pymin', 'min2'):
                return min(args)
            if a.name.startswith('cmp'):
                op = a.name[3:]
                d = args[0]
                return F(int({'<': d < 0, '<=': d <= 0, '==': d == 0, '!=': d != 0}[op]))
            if a.name == 'not':
                return F(int(not args[0]))
            if a.name == 'where':
                return args[1] if args[0] else args[2]
            if a.name in ('and', 'or'):
                return F(int(all(args) if a.name == 'and' else any(args)))
        if a.kind == 'comp':
            return vec_atom(A(a.args[0]))['xyz'.index(a.name)]
        if a.kind == 'dot':
            u_, v_ = vec_atom(A(a.args[0])), vec_atom(A(a.args[1]))
            return sum((x_ * y_ for x_, y_ in zip(u_, v_, strict=True)), F(0))
        if a.kind == 'norm':
            u_ = vec_atom(A(a.args[0]))
            return power(sum((x_ * x_ for x_ in u_), F(0)), F(1, 2))
        if a.kind == 'normL':
            u_ = vec_form(a.args[0])
            return power(sum((x_ * x_ for x_ in u_), F(0)), F(1, 2))
        raise EvalError(f'atom {show_atom(a)} has no witness value')

    def vec_atom(a: Atom):
        """(x, y, z) of a vector atom at the witness"""
        if a.kind == 'basis':
            return tuple(F(1) if c_ == a.name else F(0) for c_ in 'xyz')
        if a.kind == 'asvec':
            return tuple(evaluate(x_, val, fns) for x_ in a.args)
        if a.kind == 'cross':
            (ux, uy, uz), (vx, vy, vz) = vec_atom(A(a.args[0])), vec_atom(A(a.args[1]))
            return (uy * vz - uz * vy, uz * vx - ux * vz, ux * vy - uy * vx)
        if a.kind == 'vsym' and isinstance(val.get(a.name), tuple | list) and len(val[a.name]) == 3:
            return tuple(F(x_) for x_ in val[a.name])
        raise EvalError(f'vector atom {show_atom(a)} has no witness value')

    def vec_form(v: Vec):
        out = [F(0), F(0), F(0)]
        for k_, coef in v.terms.items():
            c_ = evaluate(coef, val, fns)
            for i_, x_ in enumerate(vec_atom(A(k_))):
                out[i_] += c_ * x_
        return tuple(out)

    def poly(p):
        total = F(0)
        for mono, c in p.items():
            t = F(c)
            for aid, e in mono:
                t *= power(atom_value(A(aid)), F(e))
            total += t
        return total

    n = poly(r.num)
    if r.den is ONE_P:
        return n
    d = poly(r.den)
    if d == 0:
        raise EvalError('division by zero')
    return n / d
