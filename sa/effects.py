"""Who-may-mutate / returns-alias-of summaries over the intra-package call graph.

A flow-sensitive (per function), field-insensitive-but-for-local-objects may-alias
analysis.  Roots are parameter tokens `p:<name>` (the object / its buffer) and
`p:<name>[]` (anything reachable inside it), and module-level tables
`g:<module>.<name>` / `g:...[]`.  Summaries are computed to a fixpoint.
"""

from __future__ import annotations

import ast
from dataclasses import dataclass, field

from .load import AnalysisError, ClassInfo, FuncInfo, ModuleInfo, Repo

BUFFER_VIEW_ATTRS = {
    'values', 'value', 'data', 'fields', 'bins', 'variances', 'variance', 'T',
    'real', 'imag', 'flat', 'constituents', 'x', 'y', 'z',
}
# metadata dicts belong to the container: a shallow copy has its own
DICT_ATTRS = {'coords', 'masks', 'attrs', 'meta', 'deprecated_attrs'}
SCALAR_ATTRS = {
    'unit', 'dtype', 'dims', 'dim', 'shape', 'sizes', 'ndim', 'size', 'name', 'aligned', '__name__',
    '__class__', 'start', 'stop', 'step',
}
MUTATOR_METHODS = {
    'append', 'extend', 'insert', 'remove', 'pop', 'clear', 'sort', 'reverse', 'update', 'setdefault',
    'popitem', 'add', 'discard', 'fill', 'resize', 'put', 'itemset', 'setflags', '__setitem__',
    '__delitem__', 'set_aligned', 'difference_update', 'intersection_update', 'symmetric_difference_update',
    '__setattr__', 'partition', 'byteswap_inplace',
}
VIEW_METHODS = {
    'broadcast', 'transpose', 'flatten', 'fold', 'rename_dims', 'rename', 'squeeze', 'assign_coords',
    'assign_masks', 'drop_coords', 'drop_masks', 'assign_attrs', 'view', 'reshape', 'ravel', 'items',
    'values', 'keys', 'get', '__getitem__', 'assign', 'swapaxes', 'underlying',
}
FRESH_METHODS = {
    'sum', 'mean', 'min', 'max', 'any', 'all', 'nansum', 'nanmean', 'nanmin', 'nanmax', 'std', 'var',
    'format', 'split', 'rsplit', 'strip', 'rstrip', 'lstrip', 'join', 'lower', 'upper', 'startswith',
    'endswith', 'replace', 'encode', 'decode', 'index', 'count', 'find', 'tolist', 'tobytes', 'item',
    'hist', 'rebin', 'bin', 'tell', 'read', 'readline', 'readlines', 'isdigit', 'isalpha', 'match', 'search',
    'fullmatch', 'group', 'groups', 'issubset', 'issuperset', 'union', 'intersection', 'difference',
    'total_seconds', 'isoformat', 'as_posix', 'resolve', 'exists', 'joinpath', 'with_suffix', 'title',
    'capitalize', 'splitlines', 'partition', 'zfill', 'ljust', 'rjust', 'center', 'expandtabs',
    'isspace', 'isascii', 'isidentifier', 'casefold', 'removeprefix', 'removesuffix', 'most_common',
    'ppf', 'cdf', 'pdf', 'sf', 'searchsorted', 'nonzero', 'argsort', 'argmax', 'argmin', 'cumsum',
    'dot', 'round', 'clip', 'conj', 'astimezone', 'timestamp', 'get_lock', 'is_regular',
}
COPY_FALSE_METHODS = {'to', 'astype'}
SHALLOW_COPY_FUNCS = {
    'dict', 'list', 'set', 'tuple', 'sorted', 'reversed', 'frozenset', 'zip', 'enumerate', 'map',
    'filter', 'iter', 'next', 'copy.copy', 'itertools.chain', 'itertools.product', 'collections.OrderedDict',
    'collections.deque', 'itertools.chain.from_iterable', 'functools.reduce', 'sum', 'max', 'min',
}
ALIAS_FUNCS = {
    'numpy.asarray', 'numpy.asanyarray', 'numpy.ravel', 'numpy.reshape', 'numpy.squeeze',
    'numpy.transpose', 'numpy.atleast_1d', 'numpy.atleast_2d', 'numpy.broadcast_to', 'numpy.ascontiguousarray',
    'numpy.frombuffer', 'numpy.broadcast_arrays', 'numpy.moveaxis', 'numpy.swapaxes', 'numpy.expand_dims',
    'scipp.DataArray', 'scipp.Dataset', 'scipp.DataGroup', 'scipp.to_unit?', 'getattr', 'memoryview',
    'scipp.bins', 'scipp.fold', 'scipp.flatten', 'scipp.transpose', 'scipp.broadcast', 'scipp.squeeze',
    'scipp.bins_like',
}
MUTATING_FUNCS = {  # name -> index of the argument written
    'numpy.copyto': 0, 'numpy.put': 0, 'numpy.place': 0, 'numpy.putmask': 0, 'numpy.fill_diagonal': 0,
    'random.shuffle': 0, 'numpy.random.shuffle': 0, 'setattr': 0, 'delattr': 0, 'object.__setattr__': 0,
    'heapq.heappush': 0, 'heapq.heappop': 0, 'bisect.insort': 0,
    'next': 0,  # advances the iterator it is given: a write to that object (a fresh iter(...) has no owner)
}
IMMUTABLE_ANN = {'int', 'float', 'str', 'bool', 'bytes', 'None', 'complex', 'sc.Unit', 'Unit', 'sc.DType',
                 'DType', 'type', 'Path', 'os.PathLike', 'PathLike', 'Callable', 'Byteorder', 'datetime',
                 'np.dtype', 'slice', 'range', 'Enum', 'sc.DType | str', 'str | sc.Unit'}
GENERIC_METHOD_NAMES = {
    'copy', 'to', 'write', 'read', 'size', 'get', 'items', 'values', 'keys', '__init__', '__eq__',
    '__repr__', '__str__', '__len__', '__iter__', '__getitem__', '__call__', 'close', 'open', 'save',
    'add', 'name', 'update', 'pop', 'append', 'min', 'max', 'sum', 'mean',
}


@dataclass(frozen=True)
class AV:
    cont: frozenset = frozenset()
    elem: frozenset = frozenset()
    imm: bool = False  # definitely an immutable python value
    fields: tuple | None = None  # ((name, AV), ...) for locally built objects

    def join(self, o: AV) -> AV:
        if self is o:
            return self
        f = None
        if self.fields is not None and o.fields is not None and dict(self.fields).keys() == dict(o.fields).keys():
            d1, d2 = dict(self.fields), dict(o.fields)
            f = tuple((k, d1[k].join(d2[k])) for k in d1)
        return AV(self.cont | o.cont, self.elem | o.elem, self.imm and o.imm, f)

    def all(self) -> frozenset:
        return self.cont | self.elem

    def element(self) -> AV:
        """An item / attribute / iteration element of this value."""
        return AV(self.cont | self.elem, self.elem)

    def fresh(self) -> bool:
        return not self.cont and not self.elem


FRESH = AV()
IMM = AV(imm=True)


@dataclass
class Mutation:
    tokens: frozenset
    where: str
    how: str
    stmt: str
    via: str = ''


@dataclass
class Summary:
    mutates: dict = field(default_factory=dict)  # token -> Mutation (first witness)
    ret: AV = FRESH
    ret_fields: list = field(default_factory=list)  # one entry per return statement
    self_fields: dict = field(default_factory=dict)  # attr -> AV, from __init__-like methods
    done: bool = False

    def key(self):
        return (frozenset(self.mutates), self.ret.cont, self.ret.elem, repr(self.ret.fields), repr(sorted(self.self_fields.items())))


class Effects:
    def bases_of(self, c: ClassInfo) -> list:
        out = []
        mi = self.repo.module(c.module)
        for b in c.bases:
            b = b.split('[')[0]
            if b in mi.classes:
                out.append(mi.classes[b])
            elif b in mi.imports and mi.imports[b][0] == 'rel':
                r = self.repo.resolve_rel(mi.imports[b][1], mi.imports[b][2])
                if r and r[0] == 'class':
                    out.append(r[1])
            elif '.' in b:
                head, _, tail = b.partition('.')
                if head in mi.imports and mi.imports[head][0] == 'rel':
                    r = self.repo.resolve_rel(mi.imports[head][1], mi.imports[head][2])
                    if r and r[0] == 'module' and tail in self.repo.modules[r[1]].classes:
                        out.append(self.repo.modules[r[1]].classes[tail])
        return out

    def find_method(self, ci: ClassInfo, name: str):
        seen = set()
        stack = [ci]
        while stack:
            c = stack.pop(0)
            if (c.module, c.name) in seen:
                continue
            seen.add((c.module, c.name))
            if name in c.methods:
                return c.methods[name]
            stack.extend(self.bases_of(c))
        return None

    def dispatch_impls(self, fi):
        """Implementations registered on a functools.singledispatch function (same module)."""
        if fi.cls is not None or not any(d.split('.')[-1] == 'singledispatch' for d in fi.decorators()):
            return []
        out = []
        for other in self.repo.module(fi.module).functions.values():
            if any(d.split('(')[0] == f'{fi.qualname}.register' for d in other.decorators()):
                out.append(other)
        return out

    def subclasses_of(self, ci: ClassInfo) -> list:
        if self._subclasses is None:
            direct: dict = {}
            for mi in self.repo.modules.values():
                for c in mi.classes.values():
                    for b in self.bases_of(c):
                        direct.setdefault((b.module, b.name), []).append(c)
            self._subclasses = direct
        out, stack, seen = [], [ci], set()
        while stack:
            c = stack.pop()
            for sub in self._subclasses.get((c.module, c.name), []):
                if (sub.module, sub.name) not in seen:
                    seen.add((sub.module, sub.name))
                    out.append(sub)
                    stack.append(sub)
        return out

    def __init__(self, repo: Repo):
        self._subclasses = None
        self.repo = repo
        self.summaries: dict[str, Summary] = {}
        self.funcs: dict[str, FuncInfo] = {fi.fq: fi for fi in repo.all_functions()}
        self.method_index: dict[str, list[FuncInfo]] = {}
        for fi in self.funcs.values():
            if fi.cls is not None:
                self.method_index.setdefault(fi.qualname.split('.')[-1], []).append(fi)
        self.unresolved_calls = 0
        self.resolved_calls = 0
        # (class module, class name, attribute) -> ClassInfo of the object stored there
        self.attr_class: dict[tuple, ClassInfo] = {}
        for mi in repo.modules.values():
            for ci in mi.classes.values():
                probe = FunctionAnalysis.__new__(FunctionAnalysis)
                probe.eff, probe.mi = self, mi
                for name, _default in ci.dataclass_fields():
                    for st in ci.node.body:
                        if isinstance(st, ast.AnnAssign) and isinstance(st.target, ast.Name) and st.target.id == name:
                            c = probe._class_of_ann(ast.unparse(st.annotation))
                            if c is not None:
                                self.attr_class[(ci.module, ci.name, name)] = c
                for m in ci.methods.values():
                    for n in ast.walk(m.node):
                        tgt = val = ann = None
                        if isinstance(n, ast.Assign) and len(n.targets) == 1:
                            tgt, val = n.targets[0], n.value
                        elif isinstance(n, ast.AnnAssign):
                            tgt, val, ann = n.target, n.value, n.annotation
                        if not (isinstance(tgt, ast.Attribute) and isinstance(tgt.value, ast.Name) and tgt.value.id == 'self'):
                            continue
                        c = None
                        if ann is not None:
                            c = probe._class_of_ann(ast.unparse(ann))
                        if c is None and isinstance(val, ast.Call) and isinstance(val.func, ast.Name):
                            nm = val.func.id
                            if nm in mi.classes:
                                c = mi.classes[nm]
                            elif nm in mi.imports and mi.imports[nm][0] == 'rel':
                                r = repo.resolve_rel(mi.imports[nm][1], mi.imports[nm][2])
                                if r and r[0] == 'class':
                                    c = r[1]
                        if c is not None:
                            self.attr_class.setdefault((ci.module, ci.name, tgt.attr), c)

    # ------------------------------------------------------------------
    def solve(self, max_rounds: int = 12):
        for fq in self.funcs:
            self.summaries[fq] = Summary()
        for rnd in range(max_rounds):
            changed = False
            for fq, fi in self.funcs.items():
                prev = self.summaries[fq]
                old = prev.key()
                new = FunctionAnalysis(self, fi).run()
                if rnd >= 3:
                    # widening: keep everything found so far (forces monotone convergence)
                    for tok, m in prev.mutates.items():
                        new.mutates.setdefault(tok, m)
                    new.ret = AV(new.ret.cont | prev.ret.cont, new.ret.elem | prev.ret.elem, False,
                                 new.ret.fields if repr(new.ret.fields) == repr(prev.ret.fields) else None)
                    for k, v in prev.self_fields.items():
                        new.self_fields[k] = new.self_fields[k].join(v) if k in new.self_fields else v
                self.summaries[fq] = new
                if new.key() != old:
                    changed = True
            if not changed:
                self.rounds = rnd + 1
                return
        raise AnalysisError('effect summaries did not reach a fixpoint')

    def summary(self, fi: FuncInfo) -> Summary:
        return self.summaries.get(fi.fq, Summary())


class FunctionAnalysis:
    def __init__(self, eff: Effects, fi: FuncInfo):
        self.eff = eff
        self.fi = fi
        self.mi: ModuleInfo = eff.repo.module(fi.module)
        self.summary = Summary()
        self.self_name = None
        self.param_class: dict[str, ClassInfo] = {}
        self.data_array_params: set[str] = set()

    def where(self, node) -> str:
        return f'{self.fi.file}:{self.fi.qualname}:{getattr(node, "lineno", self.fi.node.lineno)}'

    def run(self) -> Summary:
        node = self.fi.node
        env: dict[str, AV] = {}
        a = node.args
        params = list(a.posonlyargs) + list(a.args) + list(a.kwonlyargs)
        decs = self.fi.decorators()
        is_method = self.fi.cls is not None and 'staticmethod' not in decs
        for i, p in enumerate(params):
            ann = ast.unparse(p.annotation) if p.annotation is not None else ''
            if is_method and i == 0:
                self.self_name = p.arg
                if 'classmethod' in decs:
                    env[p.arg] = IMM
                    continue
            if self._immutable_ann(ann):
                env[p.arg] = IMM
            else:
                env[p.arg] = AV(frozenset({f'p:{p.arg}'}), frozenset({f'p:{p.arg}[]'}))
            ci = self._class_of_ann(ann)
            if ci is not None:
                self.param_class[p.arg] = ci
            if ann.replace('scipp.', 'sc.') in ('sc.DataArray', 'DataArray'):
                self.data_array_params.add(p.arg)
        if is_method and self.self_name and 'classmethod' not in decs:
            self.param_class[self.self_name] = self.fi.cls
        if a.vararg:
            env[a.vararg.arg] = AV(frozenset(), frozenset({f'p:*{a.vararg.arg}[]'}))
        if a.kwarg:
            env[a.kwarg.arg] = AV(frozenset(), frozenset({f'p:**{a.kwarg.arg}[]'}))
        self.exec_body(node.body, env)
        self.summary.done = True
        rf = self.summary.ret_fields
        if rf and all(f is not None for f in rf) and all(dict(f).keys() == dict(rf[0]).keys() for f in rf):
            merged = dict(rf[0])
            for f in rf[1:]:
                for k, v in f:
                    merged[k] = merged[k].join(v)
            self.summary.ret = AV(self.summary.ret.cont, self.summary.ret.elem, False, tuple(merged.items()))
        return self.summary

    @staticmethod
    def _immutable_ann(ann: str) -> bool:
        if not ann:
            return False
        ann = ann.strip('\'"')
        parts = [p.strip() for p in ann.split('|')]
        return all(p in IMMUTABLE_ANN or p.startswith(('Literal', 'type[', 'Callable', 'tuple[str', 'tuple[int'))
                   for p in parts)

    def _class_of_ann(self, ann: str):
        ann = ann.strip('\'"').split('|')[0].strip()
        if ann in self.mi.classes:
            return self.mi.classes[ann]
        if ann in self.mi.imports and self.mi.imports[ann][0] == 'rel':
            r = self.eff.repo.resolve_rel(self.mi.imports[ann][1], self.mi.imports[ann][2])
            if r and r[0] == 'class':
                return r[1]
        return None

    # ------------------------------------------------------------------
    def mutate(self, av: AV, node, how: str, via: str = '', stmt_node=None):
        toks = av.cont
        if self.self_name and self.fi.qualname.split('.')[-1] in ('__init__', '__post_init__', '__new__'):
            toks = frozenset(t for t in toks if t not in (f'p:{self.self_name}', f'p:{self.self_name}[]'))
        if not toks or av.imm:
            return
        m = Mutation(frozenset(toks), self.where(node), how, _text(stmt_node or node), via)
        for t in toks:
            self.summary.mutates.setdefault(t, m)

    # ------------------------------------------------------------------
    def exec_body(self, body, env):
        for st in body:
            self.exec_stmt(st, env)

    def join_env(self, env, *branches):
        keys = set()
        for b in branches:
            keys |= set(b)
        for k in keys:
            vals = [b[k] for b in branches if k in b]
            v = vals[0]
            for o in vals[1:]:
                v = v.join(o)
            if len(vals) < len(branches) and k in env:
                v = v.join(env[k])
            env[k] = v

    def exec_stmt(self, st, env):
        if isinstance(st, ast.Expr):
            self.eval(st.value, env)
        elif isinstance(st, ast.Assign):
            v = self.eval(st.value, env)
            for t in st.targets:
                self.assign(t, v, env, st)
        elif isinstance(st, ast.AnnAssign):
            if st.value is not None:
                self.assign(st.target, self.eval(st.value, env), env, st)
        elif isinstance(st, ast.AugAssign):
            v = self.eval(st.value, env)
            t = st.target
            if isinstance(t, ast.Name):
                cur = env.get(t.id, self.global_av(t.id))
                if cur.imm or (v.imm and cur.fresh()):
                    env[t.id] = IMM if cur.imm else cur
                else:
                    self.mutate(cur, st, f'in-place {type(st.op).__name__}')
                    if isinstance(st.op, ast.Add) and not v.fresh():
                        env[t.id] = AV(cur.cont, cur.elem | v.all(), False, None)
            else:
                base = self.eval(t.value, env)
                tv = self.eval(t, env)
                if not tv.imm:
                    self.mutate(AV(base.cont | tv.cont), st, f'in-place {type(st.op).__name__} on item/attribute')
        elif isinstance(st, ast.Return):
            if st.value is not None:
                v = self.eval(st.value, env)
                self.summary.ret = self.summary.ret.join(AV(v.cont, v.elem))
                self.summary.ret_fields.append(v.fields)
        elif isinstance(st, ast.If):
            self.eval(st.test, env)
            e1, e2 = dict(env), dict(env)
            self.exec_body(st.body, e1)
            self.exec_body(st.orelse, e2)
            self.join_env(env, e1, e2)
        elif isinstance(st, ast.For | ast.AsyncFor):
            it = self.eval(st.iter, env)
            for _ in range(2):
                e1 = dict(env)
                self.assign(st.target, it.element() if not it.imm else IMM, e1, st)
                self.exec_body(st.body, e1)
                self.join_env(env, e1, dict(env))
            self.exec_body(st.orelse, env)
        elif isinstance(st, ast.While):
            for _ in range(2):
                self.eval(st.test, env)
                e1 = dict(env)
                self.exec_body(st.body, e1)
                self.join_env(env, e1, dict(env))
            self.exec_body(st.orelse, env)
        elif isinstance(st, ast.Try):
            e1 = dict(env)
            self.exec_body(st.body, e1)
            branches = [e1]
            for h in st.handlers:
                eh = dict(env)
                self.join_env(eh, e1, dict(env))
                if h.name:
                    eh[h.name] = FRESH
                self.exec_body(h.body, eh)
                branches.append(eh)
            self.exec_body(st.orelse, e1)
            self.join_env(env, *branches)
            self.exec_body(st.finalbody, env)
        elif isinstance(st, ast.With | ast.AsyncWith):
            for item in st.items:
                v = self.eval(item.context_expr, env)
                if item.optional_vars is not None:
                    self.assign(item.optional_vars, v, env, st)
            self.exec_body(st.body, env)
        elif isinstance(st, ast.Delete):
            for t in st.targets:
                if isinstance(t, ast.Name):
                    env.pop(t.id, None)
                elif isinstance(t, ast.Subscript | ast.Attribute):
                    self.mutate(self.eval(t.value, env), st, 'del item/attribute')
        elif isinstance(st, ast.Match):
            subj = self.eval(st.subject, env)
            branches = []
            for case in st.cases:
                e1 = dict(env)
                for n in ast.walk(case.pattern):
                    if isinstance(n, ast.MatchAs | ast.MatchStar) and n.name:
                        e1[n.name] = subj.element()
                    if isinstance(n, ast.MatchMapping) and n.rest:
                        e1[n.rest] = subj.element()
                self.exec_body(case.body, e1)
                branches.append(e1)
            self.join_env(env, *branches, dict(env))
        elif isinstance(st, ast.FunctionDef | ast.AsyncFunctionDef | ast.ClassDef):
            env[st.name] = IMM
        elif isinstance(st, ast.Raise):
            if st.exc is not None:
                self.eval(st.exc, env)
        elif isinstance(st, ast.Assert):
            self.eval(st.test, env)
        elif isinstance(st, ast.Import | ast.ImportFrom):
            for a in st.names:
                env[(a.asname or a.name).split('.')[0]] = IMM
        elif isinstance(st, ast.Global):
            # rebinding these names writes the module's namespace: state that outlives the call
            self.__dict__.setdefault('global_names', set()).update(st.names)
        elif isinstance(st, ast.Pass | ast.Break | ast.Continue | ast.Nonlocal):
            pass
        else:
            raise AnalysisError(f'effects: unsupported statement {type(st).__name__} at {self.where(st)}')

    def assign(self, t, v: AV, env, st):
        if isinstance(t, ast.Name) and t.id in self.__dict__.get('global_names', ()):
            tok = f'g:{self.mi.name}.{t.id}'
            self.mutate(AV(frozenset({tok}), frozenset()), t, f'global {t.id} rebound', stmt_node=st)
            # what is read back from the name later is that shared object (and whatever was stored in it)
            env[t.id] = AV(frozenset({tok}), frozenset({tok + '[]'}) | v.all())
        elif isinstance(t, ast.Name):
            env[t.id] = v
        elif isinstance(t, ast.Tuple | ast.List):
            for i, sub in enumerate(t.elts):
                if isinstance(sub, ast.Starred):
                    self.assign(sub.value, AV(frozenset(), v.all()), env, st)
                elif v.fields is not None and i < len(v.fields) and all(k.isdigit() for k, _ in v.fields):
                    self.assign(sub, dict(v.fields).get(str(i), v.element()), env, st)
                else:
                    self.assign(sub, IMM if v.imm else v.element(), env, st)
        elif isinstance(t, ast.Attribute):
            base = self.eval(t.value, env)
            if self._is_self_init(t.value):
                old = self.summary.self_fields.get(t.attr)
                self.summary.self_fields[t.attr] = v if old is None else old.join(v)
                return
            self.mutate(base, t, f'attribute store .{t.attr}', stmt_node=st)
            self._update_field(t.value, t.attr, v, env)
        elif isinstance(t, ast.Subscript):
            base = self.eval(t.value, env)
            self.eval(t.slice, env)
            if isinstance(t.value, ast.Attribute) and t.value.attr in DICT_ATTRS and isinstance(t.value.value, ast.Attribute) and t.value.value.attr == 'bins':
                # x.bins.coords[k] = v writes the event buffer, which a shallow copy of x shares with x
                self.mutate(base, t, 'item store into the event coordinates', stmt_node=st)
            elif isinstance(t.value, ast.Attribute) and t.value.attr in DICT_ATTRS:
                # x.coords[k] = v inserts into the metadata dict of the object x itself.  A view, a shallow copy or a new
                # DataArray around the same buffers has its own dict: the insertion does not reach the object it was made from.
                owner = self.eval(t.value.value, env)
                itself = bool(owner.cont) and all(not tok.endswith('[]') for tok in owner.cont) \
                    and owner.elem == frozenset(tok + '[]' for tok in owner.cont)
                if itself:
                    self.mutate(AV(owner.cont, frozenset()), t, f'item store into .{t.value.attr}', stmt_node=st)
            else:
                self.mutate(base, t, 'item store', stmt_node=st)
            if isinstance(t.value, ast.Name) and t.value.id in env and not env[t.value.id].cont:
                cur = env[t.value.id]
                f = None
                if cur.fields is not None and isinstance(t.slice, ast.Constant):
                    f = dict(cur.fields)
                    f[str(t.slice.value)] = v
                    f = tuple(f.items())
                env[t.value.id] = AV(cur.cont, cur.elem | v.all(), False, f)
        elif isinstance(t, ast.Starred):
            self.assign(t.value, v, env, st)

    def _update_field(self, obj_node, attr, v: AV, env):
        if isinstance(obj_node, ast.Name) and obj_node.id in env:
            cur = env[obj_node.id]
            f = dict(cur.fields) if cur.fields is not None else ({} if not cur.cont else None)
            if f is not None:
                f[attr] = v
            if cur.cont:
                # a parameter / global object: keep its root tokens apart from what is stored in it
                return
            env[obj_node.id] = AV(cur.cont, cur.elem | v.all(), False, tuple(f.items()) if f is not None else None)

    def _is_self_init(self, node) -> bool:
        name = self.fi.qualname.split('.')[-1]
        return (isinstance(node, ast.Name) and node.id == self.self_name
                and name in ('__init__', '__post_init__', '__new__', '__set_name__', '__init_subclass__'))

    # ------------------------------------------------------------------
    def global_av(self, name: str) -> AV:
        mi = self.mi
        if name in mi.functions or name in mi.classes or name in mi.imports:
            return IMM
        if name in mi.assigns:
            val = mi.assigns[name]
            if isinstance(val, ast.Dict | ast.List | ast.Set | ast.ListComp | ast.DictComp | ast.SetComp):
                tok = f'g:{mi.name}.{name}'
                return AV(frozenset({tok}), frozenset({tok + '[]'}))
            if isinstance(val, ast.Call):
                fn = ast.unparse(val.func)
                if fn.split('.')[-1] in ('compile', 'TypeVar', 'getLogger', 'namedtuple', 'NewType', 'Struct', 'frozenset', 'attach_stub'):
                    return IMM
                tok = f'g:{mi.name}.{name}'
                return AV(frozenset({tok}), frozenset({tok + '[]'}))
            return IMM
        return IMM

    def eval(self, e, env) -> AV:
        if e is None:
            return IMM
        if isinstance(e, ast.Constant):
            return IMM
        if isinstance(e, ast.Name):
            if e.id in env:
                return env[e.id]
            if e.id in self.__dict__.get('global_names', ()):
                tok = f'g:{self.mi.name}.{e.id}'
                return AV(frozenset({tok}), frozenset({tok + '[]'}))
            return self.global_av(e.id)
        if isinstance(e, ast.Attribute):
            base = self.eval(e.value, env)
            if isinstance(e.value, ast.Name) and e.value.id == 'self' and self.fi.cls is not None:
                meth = self.eff.find_method(self.fi.cls, e.attr)
                if meth is not None and any(d.split('(')[0].split('.')[-1] == 'cached_property' for d in meth.decorators()):
                    # reading a cached_property stores its value on the instance: later reads do not see changes of the fields it was computed from
                    self.mutate(base, e, f'cached_property .{e.attr} stores its value on the instance')
            if base.imm:
                return IMM
            if base.fields is not None:
                f = dict(base.fields)
                if e.attr in f:
                    return f[e.attr]
            if e.attr in SCALAR_ATTRS:
                return IMM
            if e.attr in BUFFER_VIEW_ATTRS:
                return AV(base.cont | base.elem, base.elem)
            if e.attr in DICT_ATTRS:
                return AV(base.cont, base.elem)
            # attribute of a parameter object itself: a one-level access path
            if len(base.cont) == 1:
                (tok,) = base.cont
                if tok.startswith('p:') and '.' not in tok and not tok.endswith('[]') and base.elem == frozenset({tok + '[]'}):
                    return AV(frozenset({f'{tok}.{e.attr}'}), frozenset({f'{tok}.{e.attr}[]'}))
            # attribute of any other object: one of its elements
            return AV(base.elem, base.elem)
        if isinstance(e, ast.Subscript):
            base = self.eval(e.value, env)
            self.eval(e.slice, env)
            if base.imm:
                return IMM
            if len(base.cont) == 1 and base.fields is None:
                (tok,) = base.cont
                if tok.startswith('p:') and tok[2:] in self.data_array_params and base.elem == frozenset({tok + '[]'}):
                    # a slice of a data array parameter is a view; in-place arithmetic on it writes
                    # the .data buffer of the parameter (coords and masks are not written)
                    return AV(frozenset({f'{tok}.data'}), frozenset({f'{tok}.data[]'}))
            if base.fields is not None and isinstance(e.slice, ast.Constant):
                f = dict(base.fields)
                if str(e.slice.value) in f:
                    return f[str(e.slice.value)]
            if base.fields is not None and not base.cont and 'data' in dict(base.fields):
                # slice of a local data array whose .data buffer was replaced: in-place
                # arithmetic on the slice writes that buffer only
                d = dict(base.fields)['data']
                return AV(d.cont | d.elem, base.elem)
            return base.element()
        if isinstance(e, ast.Slice):
            for x in (e.lower, e.upper, e.step):
                if x is not None:
                    self.eval(x, env)
            return IMM
        if isinstance(e, ast.BinOp):
            a, b = self.eval(e.left, env), self.eval(e.right, env)
            if isinstance(e.op, ast.Add | ast.BitOr) and (not a.imm or not b.imm):
                # list + list, dict | dict: fresh container holding the same elements
                return AV(frozenset(), a.elem | b.elem, False)
            return AV(imm=a.imm and b.imm)
        if isinstance(e, ast.UnaryOp):
            v = self.eval(e.operand, env)
            return AV(imm=v.imm or isinstance(e.op, ast.Not))
        if isinstance(e, ast.BoolOp):
            v = None
            for x in e.values:
                w = self.eval(x, env)
                v = w if v is None else v.join(w)
            return v
        if isinstance(e, ast.Compare):
            self.eval(e.left, env)
            for c in e.comparators:
                self.eval(c, env)
            return FRESH
        if isinstance(e, ast.IfExp):
            self.eval(e.test, env)
            return self.eval(e.body, env).join(self.eval(e.orelse, env))
        if isinstance(e, ast.Tuple | ast.List | ast.Set):
            items = []
            elem = frozenset()
            for i, x in enumerate(e.elts):
                if isinstance(x, ast.Starred):
                    v = self.eval(x.value, env)
                    elem |= v.elem | v.cont
                    items = None
                else:
                    v = self.eval(x, env)
                    elem |= v.all()
                    if items is not None:
                        items.append((str(i), v))
            imm = isinstance(e, ast.Tuple) and not elem
            return AV(frozenset(), elem, imm, tuple(items) if items is not None else None)
        if isinstance(e, ast.Dict):
            elem = frozenset()
            items = []
            for k, x in zip(e.keys, e.values, strict=True):
                v = self.eval(x, env)
                if k is None:
                    elem |= v.elem  # {**d}: shallow copy
                    items = None
                else:
                    self.eval(k, env)
                    elem |= v.all()
                    if items is not None and isinstance(k, ast.Constant):
                        items.append((str(k.value), v))
                    else:
                        items = None
            return AV(frozenset(), elem, False, tuple(items) if items is not None else None)
        if isinstance(e, ast.ListComp | ast.SetComp | ast.GeneratorExp | ast.DictComp):
            env2 = dict(env)
            for g in e.generators:
                it = self.eval(g.iter, env2)
                self.assign(g.target, IMM if it.imm else it.element(), env2, e)
                for c in g.ifs:
                    self.eval(c, env2)
            if isinstance(e, ast.DictComp):
                self.eval(e.key, env2)
                v = self.eval(e.value, env2)
            else:
                v = self.eval(e.elt, env2)
            return AV(frozenset(), v.all())
        if isinstance(e, ast.JoinedStr | ast.FormattedValue):
            for n in ast.iter_child_nodes(e):
                if isinstance(n, ast.expr):
                    self.eval(n, env)
            return IMM
        if isinstance(e, ast.Lambda):
            return IMM
        if isinstance(e, ast.NamedExpr):
            v = self.eval(e.value, env)
            self.assign(e.target, v, env, e)
            return v
        if isinstance(e, ast.Starred):
            return self.eval(e.value, env)
        if isinstance(e, ast.Await):
            return self.eval(e.value, env)
        if isinstance(e, ast.Yield | ast.YieldFrom):
            if e.value is not None:
                v = self.eval(e.value, env)
                self.summary.ret = self.summary.ret.join(AV(frozenset(), v.all()))
            return FRESH
        if isinstance(e, ast.Call):
            return self.call(e, env)
        raise AnalysisError(f'effects: unsupported expression {type(e).__name__} at {self.where(e)}')

    # ------------------------------------------------------------------
    def resolve_callee(self, fn, env):
        """-> ('func', FuncInfo, self_av|None) | ('class', ClassInfo) | ('ext', dotted) | ('method', recv_av, name, [FuncInfo])"""
        if isinstance(fn, ast.Name):
            if fn.id in env and not env[fn.id].imm:
                return ('unknown', fn.id)
            r = self._resolve_name(fn.id)
            if r is not None:
                return r
            return ('ext', fn.id)
        if isinstance(fn, ast.Attribute):
            dotted = _dotted(fn)
            if dotted is not None:
                head = dotted.split('.')[0]
                if head not in env:
                    r = self._resolve_dotted(dotted)
                    if r is not None:
                        return r
            recv = self.eval(fn.value, env)
            cands = []
            ci = None
            if isinstance(fn.value, ast.Name) and fn.value.id in self.param_class:
                ci = self.param_class[fn.value.id]
            elif isinstance(fn.value, ast.Attribute) and isinstance(fn.value.value, ast.Name) \
                    and fn.value.value.id in self.param_class:
                owner = self.param_class[fn.value.value.id]
                ci = self.eff.attr_class.get((owner.module, owner.name, fn.value.attr))
            elif isinstance(fn.value, ast.Call):
                r = self.resolve_callee(fn.value.func, env)
                if r[0] == 'class':
                    ci = r[1]
                elif r[0] == 'func':
                    ret_ann = r[1].node.returns
                    if ret_ann is not None:
                        ci = self._class_of_ann(ast.unparse(ret_ann))
            if ci is not None:
                m = self._find_method(ci, fn.attr)
                if m is not None:
                    cands = [m]
                    # virtual dispatch: the receiver may be an instance of any subclass that overrides the method
                    for sub in self.eff.subclasses_of(ci):
                        if fn.attr in sub.methods and sub.methods[fn.attr] is not m:
                            cands.append(sub.methods[fn.attr])
            if not cands and fn.attr not in GENERIC_METHOD_NAMES and fn.attr not in MUTATOR_METHODS \
                    and fn.attr not in VIEW_METHODS and fn.attr not in FRESH_METHODS and fn.attr not in COPY_FALSE_METHODS:
                cands = list(self.eff.method_index.get(fn.attr, []))
            return ('method', recv, fn.attr, cands)
        return ('unknown', ast.unparse(fn)[:40])

    def _find_method(self, ci: ClassInfo, name: str):
        return self.eff.find_method(ci, name)

    def _find_method_unused(self, ci: ClassInfo, name: str):
        seen = set()
        stack = [ci]
        while stack:
            c = stack.pop(0)
            if (c.module, c.name) in seen:
                continue
            seen.add((c.module, c.name))
            if name in c.methods:
                return c.methods[name]
            mi = self.eff.repo.module(c.module)
            for b in c.bases:
                b = b.split('[')[0]
                if b in mi.classes:
                    stack.append(mi.classes[b])
                elif b in mi.imports and mi.imports[b][0] == 'rel':
                    r = self.eff.repo.resolve_rel(mi.imports[b][1], mi.imports[b][2])
                    if r and r[0] == 'class':
                        stack.append(r[1])
                elif '.' in b:
                    head, _, tail = b.partition('.')
                    if head in mi.imports and mi.imports[head][0] == 'rel':
                        r = self.eff.repo.resolve_rel(mi.imports[head][1], mi.imports[head][2])
                        if r and r[0] == 'module' and tail in self.eff.repo.modules[r[1]].classes:
                            stack.append(self.eff.repo.modules[r[1]].classes[tail])
        return None

    def _resolve_name(self, name: str):
        mi = self.mi
        if name in mi.functions:
            return ('func', mi.functions[name], None)
        if name in mi.classes:
            return ('class', mi.classes[name])
        if name in mi.imports:
            imp = mi.imports[name]
            if imp[0] == 'ext':
                return ('ext', imp[1])
            if imp[0] == 'rel':
                r = self.eff.repo.resolve_rel(imp[1], imp[2])
                if r is None:
                    return ('ext', name)
                if r[0] == 'func':
                    return ('func', r[1], None)
                if r[0] == 'class':
                    return ('class', r[1])
                if r[0] == 'ext':
                    return ('ext', r[1])
            return ('ext', name)
        return None

    def _resolve_dotted(self, dotted: str):
        parts = dotted.split('.')
        mi = self.mi
        head = parts[0]
        cur = None
        if head in mi.imports:
            imp = mi.imports[head]
            if imp[0] == 'ext':
                return ('ext', '.'.join([imp[1], *parts[1:]]))
            if imp[0] == 'module':
                cur = ('module', imp[1])
            elif imp[0] == 'rel':
                cur = self.eff.repo.resolve_rel(imp[1], imp[2])
        elif head in mi.classes:
            cur = ('class', mi.classes[head])
        elif head in mi.functions:
            return None
        else:
            return None
        for p in parts[1:]:
            if cur is None:
                return None
            if cur[0] == 'module':
                cur = self.eff.repo.resolve_rel(cur[1], p)
            elif cur[0] == 'class':
                m = self._find_method(cur[1], p)
                if m is None:
                    return None
                cur = ('func', m)
            elif cur[0] == 'ext':
                cur = ('ext', cur[1] + '.' + p)
            else:
                return None
        if cur is None:
            return None
        if cur[0] == 'func':
            return ('func', cur[1], None)
        if cur[0] == 'class':
            return ('class', cur[1])
        if cur[0] == 'ext':
            return ('ext', cur[1])
        return None

    # ------------------------------------------------------------------
    def call(self, e: ast.Call, env) -> AV:
        args = [self.eval(a.value if isinstance(a, ast.Starred) else a, env) for a in e.args]
        star = [isinstance(a, ast.Starred) for a in e.args]
        kwargs = {}
        for k in e.keywords:
            v = self.eval(k.value, env)
            kwargs[k.arg] = v
        # out= writes to its argument in every scipp/numpy function
        if 'out' in kwargs and kwargs['out'] is not None:
            self.mutate(kwargs['out'], e, 'out= argument')
        memo = self._memo_global(e.func, env)
        if memo is not None:
            # a module-level memoising wrapper (lru_cache(...)(f), cache(f)) hands out the one object it stored
            return AV(frozenset({memo}), frozenset({memo + '[]'}))
        r = self.resolve_callee(e.func, env)
        kind = r[0]
        if kind == 'func':
            self.eff.resolved_calls += 1
            out = self.apply_summary(r[1], args, star, kwargs, e, self_av=None)
            for impl in self.eff.dispatch_impls(r[1]):
                # functools.singledispatch: any registered implementation may run
                out = out.join(self.apply_summary(impl, args, star, kwargs, e, self_av=None))
            return out
        if kind == 'class':
            self.eff.resolved_calls += 1
            return self.construct(r[1], args, kwargs, e)
        if kind == 'ext':
            return self.call_ext(r[1], args, kwargs, e, env)
        if kind == 'method':
            _, recv, name, cands = r
            return self.call_method(recv, name, cands, args, star, kwargs, e)
        self.eff.unresolved_calls += 1
        # call of a local callable: may alias anything passed
        allv = frozenset().union(*[a.all() for a in args], *[v.all() for v in kwargs.values()]) if (args or kwargs) else frozenset()
        return AV(frozenset(), allv)

    def _memo_global(self, fn, env):
        if not isinstance(fn, ast.Name) or fn.id in env or fn.id not in self.mi.assigns:
            return None
        val = self.mi.assigns[fn.id]

        def is_cache(x):
            return isinstance(x, ast.Name | ast.Attribute) and self.eff.repo.ext_path(self.mi.name, x) in ('functools.lru_cache', 'functools.cache')
        if isinstance(val, ast.Call) and (is_cache(val.func) or (isinstance(val.func, ast.Call) and is_cache(val.func.func))):
            return f'g:{self.mi.name}.{fn.id}#cache'
        return None

    def construct(self, ci: ClassInfo, args, kwargs, node) -> AV:
        init = self._find_method(ci, '__init__')
        elem = frozenset()
        for a in list(args) + list(kwargs.values()):
            elem |= a.all()
        fields = None
        if init is None:
            names = [n for n, _ in ci.dataclass_fields()]
            f = {}
            for i, a in enumerate(args):
                if i < len(names):
                    f[names[i]] = a
            for k, v in kwargs.items():
                if k is not None:
                    f[k] = v
            for n, d in ci.dataclass_fields():
                if n not in f:
                    f[n] = FRESH
            fields = tuple(f.items())
            post = self._find_method(ci, '__post_init__')
            if post is not None:
                self.propagate_mutations(post, {'self': AV(frozenset(), elem)}, node)
        else:
            self.apply_summary(init, args, [False] * len(args), kwargs, node, self_av=AV(frozenset(), frozenset()))
            s = self.eff.summary(init)
            if s.done and s.self_fields:
                binding = self.bind(init, args, [False] * len(args), kwargs, AV(frozenset(), frozenset()))
                fields = tuple((k, self.translate_av(v, binding)) for k, v in s.self_fields.items())
        return AV(frozenset(), elem, False, fields)

    def bind(self, fi: FuncInfo, args, star, kwargs, self_av):
        a = fi.node.args
        pos = [p.arg for p in list(a.posonlyargs) + list(a.args)]
        decs = fi.decorators()
        binding: dict[str, AV] = {}
        if fi.cls is not None and 'staticmethod' not in decs:
            if pos:
                binding[pos[0]] = self_av if self_av is not None else IMM
                pos = pos[1:]
        extra = frozenset()
        i = 0
        for av, st in zip(args, star, strict=True):
            if st:
                # *args: spreads its elements over the remaining positionals
                for p in pos[i:]:
                    binding[p] = binding.get(p, FRESH).join(av.element())
                extra |= av.all()
                continue
            if i < len(pos):
                binding[pos[i]] = av
            else:
                extra |= av.all()
                if a.vararg:
                    binding['*' + a.vararg.arg] = binding.get('*' + a.vararg.arg, FRESH).join(AV(frozenset(), av.all()))
            i += 1
        names = set(pos) | {p.arg for p in a.kwonlyargs}
        for k, v in kwargs.items():
            if k is None:
                for p in names:
                    if p not in binding:
                        binding[p] = v.element()
                continue
            if k in names:
                binding[k] = v
            elif a.kwarg:
                binding['**' + a.kwarg.arg] = binding.get('**' + a.kwarg.arg, FRESH).join(AV(frozenset(), v.all()))
        return binding

    def translate(self, tokens, binding) -> frozenset:
        out = set()
        for t in tokens:
            if t.startswith('g:'):
                out.add(t)
                continue
            name = t[2:]
            deep = name.endswith('[]')
            if deep:
                name = name[:-2]
            attr = None
            if '.' in name:
                name, attr = name.split('.', 1)
            av = binding.get(name)
            if av is None:
                continue
            if attr is not None:
                f = dict(av.fields) if av.fields is not None else {}
                if attr in f:
                    out |= f[attr].elem if deep else f[attr].cont
                elif len(av.cont) == 1 and next(iter(av.cont)).startswith('p:') and '.' not in next(iter(av.cont)) \
                        and not next(iter(av.cont)).endswith('[]'):
                    # the actual argument is itself a bare parameter: keep the access path
                    out.add(next(iter(av.cont)) + '.' + attr + ('[]' if deep else ''))
                else:
                    out |= av.elem
                continue
            out |= av.elem if deep else av.cont
        return frozenset(out)

    def translate_av(self, av: AV, binding, depth: int = 0) -> AV:
        f = None
        if av.fields is not None and depth < 3:
            f = tuple((k, self.translate_av(v, binding, depth + 1)) for k, v in av.fields)
        return AV(self.translate(av.cont, binding), self.translate(av.elem, binding), av.imm and not av.cont and not av.elem, f)

    def propagate_mutations(self, fi: FuncInfo, binding, node):
        s = self.eff.summary(fi)
        for tok, m in s.mutates.items():
            toks = self.translate([tok], binding)
            if toks:
                mm = Mutation(toks, self.where(node), m.how, _text(node), via=f'{fi.fq} <- {m.where}')
                for t in toks:
                    self.summary.mutates.setdefault(t, mm)
        return s

    def apply_summary(self, fi: FuncInfo, args, star, kwargs, node, self_av) -> AV:
        binding = self.bind(fi, args, star, kwargs, self_av)
        s = self.propagate_mutations(fi, binding, node)
        decs = fi.decorators()
        if 'property' in decs:
            pass
        ret = self.translate_av(s.ret, binding)
        if self.eff.repo.memoised(fi):
            # a memoised function hands out the one object it stored
            tok = f'g:{fi.fq}#cache'
            ret = AV(ret.cont | {tok}, ret.elem | {tok + '[]'}, False, ret.fields)
        if fi.node.returns is not None and self._immutable_ann(ast.unparse(fi.node.returns)):
            return IMM
        return ret

    def call_method(self, recv: AV, name, cands, args, star, kwargs, node) -> AV:
        if recv.imm:
            return IMM if name in FRESH_METHODS or not args else FRESH
        if cands:
            self.eff.resolved_calls += 1
            out = None
            for fi in cands:
                r = self.apply_summary(fi, args, star, kwargs, node, self_av=recv)
                out = r if out is None else out.join(r)
            return out
        inplace_kw = next((k for k in node.keywords if k.arg == 'inplace'), None)
        if name == 'byteswap' and (node.args or inplace_kw is not None):
            # ndarray.byteswap(inplace=True) (also positional) rewrites the buffer; a non-constant flag may
            flag = inplace_kw.value if inplace_kw is not None else node.args[0]
            if not (isinstance(flag, ast.Constant) and flag.value is False):
                self.mutate(recv, node, 'ndarray.byteswap(inplace=True)')
                return AV(recv.cont, recv.elem)
        if name in MUTATOR_METHODS:
            self.mutate(recv, node, f'mutator method .{name}()')
            if name in ('pop', 'popitem', 'setdefault'):
                return recv.element()
            return FRESH
        if name in COPY_FALSE_METHODS:
            cp = kwargs.get('copy')
            kw = next((k for k in node.keywords if k.arg == 'copy'), None)
            if kw is not None and isinstance(kw.value, ast.Constant) and kw.value.value is False:
                return AV(recv.cont | recv.elem, recv.elem)
            if kw is not None and not isinstance(kw.value, ast.Constant):
                return AV(recv.cont | recv.elem, recv.elem)
            del cp
            return FRESH
        if name == 'copy':
            kw = next((k for k in node.keywords if k.arg == 'deep'), None)
            if kw is not None and not (isinstance(kw.value, ast.Constant) and kw.value.value is True):
                # shallow copy: own container and metadata dicts, shared buffers
                return AV(frozenset(), recv.cont | recv.elem)
            if self._is_scipp_value(node.func.value):
                return FRESH  # scipp / numpy copy() is deep
            return AV(frozenset(), recv.elem)
        if name in VIEW_METHODS:
            return recv.element()
        if name in FRESH_METHODS:
            return FRESH
        self.eff.unresolved_calls += 1
        # unknown method on a non-fresh value: result may alias the receiver
        return recv.element()

    def _is_scipp_value(self, expr) -> bool:
        if isinstance(expr, ast.Attribute) and expr.attr in BUFFER_VIEW_ATTRS:
            return True
        if isinstance(expr, ast.Subscript):
            return self._is_scipp_value(expr.value)
        if isinstance(expr, ast.Name):
            a = self.fi.node.args
            for p in list(a.posonlyargs) + list(a.args) + list(a.kwonlyargs):
                if p.arg == expr.id and p.annotation is not None:
                    ann = ast.unparse(p.annotation)
                    return any(k in ann for k in ('sc.', 'np.', 'Variable', 'DataArray', 'ndarray', 'Dataset'))
        return False

    def call_ext(self, path: str, args, kwargs, node, env) -> AV:
        short = path.split('.')[-1]
        full = path
        if full in MUTATING_FUNCS or short in ('setattr', 'delattr') or path.endswith('object.__setattr__'):
            idx = MUTATING_FUNCS.get(full, 0)
            if idx < len(args):
                tgt = args[idx]
                # object.__setattr__(self, ...) inside __post_init__ of a frozen dataclass is construction
                if not (self._is_self_init(node.args[idx]) if idx < len(node.args) else False):
                    self.mutate(tgt, node, f'{path}()')
            return FRESH
        if full in ('copy.deepcopy',) or short == 'deepcopy':
            return FRESH
        if full == 'scipp.to_unit' or full.endswith('.to_unit'):
            kw = next((k for k in node.keywords if k.arg == 'copy'), None)
            if kw is not None and not (isinstance(kw.value, ast.Constant) and kw.value.value is True) and args:
                return AV(args[0].cont | args[0].elem, args[0].elem)
            return FRESH
        if full in ALIAS_FUNCS or short in ('asarray', 'asanyarray'):
            if args:
                a0 = args[0]
                extra = frozenset().union(*[a.all() for a in args[1:]], *[v.all() for v in kwargs.values()]) if (len(args) > 1 or kwargs) else frozenset()
                return AV(a0.cont | a0.elem, a0.elem | extra)
            allk = frozenset().union(*[v.all() for v in kwargs.values()]) if kwargs else frozenset()
            return AV(frozenset(), allk)
        if full in SHALLOW_COPY_FUNCS or short in SHALLOW_COPY_FUNCS and '.' not in full:
            allv = frozenset()
            for a in args:
                allv |= a.elem if full in ('dict', 'list', 'set', 'tuple', 'sorted', 'reversed', 'frozenset', 'copy.copy') else a.all()
            for v in kwargs.values():
                allv |= v.all()
            if full in ('max', 'min', 'next', 'sum', 'functools.reduce'):
                return AV(allv, allv)
            return AV(frozenset(), allv)
        if short in ('len', 'int', 'float', 'str', 'bool', 'isinstance', 'hasattr', 'repr', 'round', 'abs', 'hash',
                     'id', 'type', 'callable', 'issubclass', 'ord', 'chr', 'format', 'divmod', 'pow', 'range', 'print',
                     'any', 'all') and '.' not in full:
            return IMM if short != 'abs' else FRESH
        return FRESH


def _dotted(node):
    parts = []
    while isinstance(node, ast.Attribute):
        parts.append(node.attr)
        node = node.value
    if isinstance(node, ast.Name):
        parts.append(node.id)
        return '.'.join(reversed(parts))
    return None


def _text(node) -> str:
    try:
        s = ast.unparse(node)
    except Exception:  # noqa: BLE001
        return '?'
    return s if len(s) < 160 else s[:157] + '...'
