"""Regenerate MANIFEST.json from the table below (python tools/manifest.py)."""

import json
import os
import subprocess

VERIF = os.path.dirname(os.path.dirname(os.path.abspath(__file__)))

ALL = [f'C{i:02d}' for i in range(1, 21)]

CHECKS = {
    'C01': dict(
        level='other', technique='abstract interpretation of kernel ASTs to exact algebraic normal forms; partial evaluation of graph tables',
        text='Static: every elastic kernel is reduced to an exact power-product normal form and compared with the documented formula; every graph entry is one-step sound against the documented definition of its target (so all routes agree by induction); inverse pairs compose to the identity. The rounding bound is decided as an operation-discipline rule (no add/sub, bounded op count, no narrowing cast) and, for single precision, by a magnitude rule over the whole quantified box 1e-9..1e9 (SI) x unit grid: whenever the exact result is a normal float32, no power-product intermediate overflows or drops below 7e-41 (exact: log-linear forms, vertex enumeration of box x result slab). Results do not depend on call history: two-call histories of the kernels are interpreted in one world (module-level tables, functools caches and rebound globals persist between the calls; other units, other precision, another kernel first) and the second call returns what it returns in a fresh interpreter - a memo table is no violation, a memo table keyed by less than its entries depend on is.',
        note='trusts sa/scipp_model.py (semantics of ~70 scipp names), spec/formulas.py, positivity of physical quantities under sqrt; scipp.transform_coords not analysed', ref='3 C01'),
    'C05': dict(
        level='other', technique='abstract interpretation to rational-function normal forms; guard-shape rule on where(cond, NaN, value); interval analysis of log-magnitudes of float32 intermediates',
        text='Static: the value arm of both inelastic kernels equals the documented formula; substituting the physical arrival time gives Ei-Ef identically; the NaN guard is the non-strict comparison on the same dt whose square is the only divisor; arms agree in unit/dtype on every path; graph factories wire the right kernel; magnitude-interval rule (sa/magnitude.py): for Ei/Ef in 1e-3..1e4 meV given in meV/eV/J, lengths 0.1..1e3 m in angstrom..km and tof in ns..s no single-precision intermediate leaves the normal range of float32: power products exactly, sums and what is computed from them by forward interval arithmetic in which a non-zero difference of floats is at least eps/4 of the larger lower bound (found and fixed F14). Results do not depend on call history: two-call histories of the kernels are interpreted in one world (module-level tables, functools caches and rebound globals persist between the calls; other units, other precision, another kernel first) and the second call returns what it returns in a fresh interpreter - a memo table is no violation, a memo table keyed by less than its entries depend on is.',
        note='trusts scipp model table and the normal form; the magnitude rule bounds power products only (sums are not bounded)', ref='3 C05'),
    'C07': dict(
        level='proof', technique='abstract interpretation over unit and dtype domains; exhaustive dtype grid by case split',
        text='Static proof relative to the scipp model table: for symbolic input units the result unit is the documented one and all u(p) cancel; every to_unit obligation is dimensionally satisfiable; no raw number is re-labelled with an input unit; the dtype contract holds at every point of the dtype grid {f64,f32,i64(,i32)}^k (finite, enumerated); over the unit grid ns..s x angstrom..km x ueV..J and the physical input ranges no float32 power-product intermediate of a scalar conversion kernel leaves the normal range of float32 (R5). The chopper-cascade helpers never squeeze an operand into an integer dtype and return double precision for integer and double operands.',
        note='trusted base: measured scipp 25.4 promotion table and unit algebra in sa/scipp_model.py, sa/units.py; same-unit preconditions of geometry kernels are a frozen table', ref='3 C07'),
}

CHECKS.update({
    'C03': dict(
        level='other', technique='abstract interpretation to vector/scalar normal forms; formula-recognition and invariance by substitution',
        text='Static: the six Euclidean definitions hold as term identities; two_theta is one of the two recognised epsilon-accurate formulas and contains no acos/asin/cos of a normalised product; its shape confines it to [0, pi]; the normal form is invariant under beam swap and positive rescaling; no argument is written; the beamline graphs handed out by the public factory are one-step sound and selected by the truth value of the flag. The 1e-15 accuracy is Kahan\'s theorem about the recognised formula (cited). The public accessors of beamline_components (L1, L2, Ltotal, two_theta, positions, beams) return what transform_coords derives with the beamline graph of the requested scatter mode, unchanged in value, unit and dtype, for data of any dtype.',
        note='trusts scipp model table, term normal form, spec/formulas.py', ref='3 C03'),
    'C04': dict(
        level='other', technique='abstract interpretation of all dispatcher paths; sibling agreement against the documented construction',
        text='Static: on every path (dispatcher, general, optimised, reflectometry variant) the computed normal forms equal the documented construction (drop distance, beam-aligned frame, beam raised along e_y=-g/|g|, 2theta, phi); the dispatch predicate and the refusal predicate are the documented one; no argument is written.',
        note='trusts scipp model table and spec/formulas.py; continuity/limits follow from branch agreement and are not separately decided', ref='3 C04'),
    'C06': dict(
        level='other', technique='taint analysis (possibly-binned operands) inside the abstract interpreter; dense-vs-binned sibling comparison',
        text='Static necessary conditions: every kernel reachable from a graph table applies only broadcasting operations to possibly-binned operands, reads unit/dtype only through elem_unit/elem_dtype (which dispatch to the event buffer), gives the same normal form in dense and binned interpretation and writes to no argument. A decision on the size / shape of a possibly-binned operand (bins are counted for event data, elements for dense data) may refuse but never selects between two ways of computing the result.',
        note='per-event application and preservation of weights/masks/order are scipp.transform_coords (not analysed)', ref='3 C06'),
    'C08': dict(
        level='other', technique='abstract interpretation to linear forms over vector atoms and non-commutative matrix words',
        text='Static: Q components are the fields of (2pi/lambda)(e_i-e_f); pack/unpack are inverse order-preserving permutations; hkl=inv(R UB)Q/(2pi) so 2pi R UB hkl reduces to Q by word cancellation; UB=U B; the kernels are total (no raising path for well-typed inputs, R6) and compute on unit-carrying variables, not on bare numbers taken out of their operands (R7). The Q / hkl kernels answer from their arguments alone: two-call histories interpreted in one world (module-level tables, functools caches and rebound globals persist) give the second call the result of a fresh interpreter; no memoised result is handed out.',
        note='conditioning (accuracy for ill-conditioned B) is runtime and not decided', ref='3 C08'),
})

CHECKS.update({
    'C02': dict(
        level='other', technique='partial evaluation of the selection layer over the finite configuration space; Horn-clause derivability oracle',
        text='Static, finite space enumerated: core/conversions.py and the graph factories are partially evaluated for every (origin, target, scatter) and coordinate subset with kernels uninterpreted and transform_coords modelled; success/RuntimeError and the named missing coordinate equal derivability under clauses written from the documented formulas; the mode decision table (also with unaligned energy coordinates: alignment flags are modelled), graph-reported-is-graph-used and mode-coordinate-consumed rules hold. Quick enumerates the cone of influence of each target (monotone closure), thorough all 4x22x2x2048 configurations.',
        note='trusts the three-line model of scipp.transform_coords and spec/convert_spec.py; values follow from the one-step soundness rules of C01/C03/C05', ref='3 C02'),
    'C09': dict(
        level='other', technique='interprocedural effect summaries (who-may-mutate, returns-alias-of) to a fixpoint over the call graph; object-identity interpretation of kernels',
        text='Static: no public function of the conversion/chopper/tof/peaks/absorption/io/atoms modules writes to an object reachable from an argument (frozen list of documented mutators excepted), with copy=False conversions counted as aliases; no module table or memoised object (functools cache or a memo table kept by hand) is handed out, also not inside the fields or elements of a fresh record; next() counts as a write to the iterator it advances (found and fixed F15: CIF.save consumed the id generator of the builder); copy()/with_*() share no container with the original; cached lookups expose no mutable state except through copying accessors.',
        note='trusts the tables of mutating/aliasing/copying library calls in sa/effects.py; the heap abstraction is field-insensitive beyond one access path (over-approximate for mutation)', ref='3 C09'),
})

CHECKS.update({
    'C11': dict(
        level='other', technique='abstract interpretation of the propagation kernels; edge-loop idiom recognition and CFG rules for the clipping code; exactness evaluation of the interpolation expression',
        text='Static necessary conditions: propagation is the shear t+d*lambda*m_n/h (two steps = one step algebraically); _chop has the Sutherland-Hodgman shape with inclusive half-planes and closing edge; Frame.chop clips every subframe by every window with both half-planes, no early exit; choppers are sorted by distance and lookup by distance takes the last frame not beyond it; the wavelength interpolation is bit-exact for equal endpoints (consumed by an == test).',
        note='point-in-polygon <=> transmitted is runtime geometry and not decided', ref='3 C11'),
    'C15': dict(
        level='other', technique='CFG/dominator rules for refusals; call-site argument rules for savetxt/loadtxt; finite decision table of the coordinate deduction',
        text='Static: number format keeps >=17 significant digits, same delimiter on both sides, comments not overridden, header through savetxt; columns X,Y,E written/read consistently with sqrt/square; each refusal guards every path to savetxt; one-row guard dominates indexing; coordinate deduction folded over its decision space.',
        note='round-trip of %.18e through numpy/C is trusted', ref='3 C15'),
    'C17': dict(
        level='other', technique='statement CFG with dominators (guard-before-use, all-checks-before-success); normalised-statement tables for statistics and windows; effect summary for remove_peaks',
        text='Static: the point-count guard guards every consumer of the window data; success only after every requirement check; near-edge precedes neighbour indexing; one result per estimate in order, first success wins; statistics and window construction equal the documented expressions; remove_peaks copies first, skips unsuccessful fits, subtracts eval_peak on the window slice, writes nothing to its input.',
        note='optimiser outcomes and third-party exceptions not decided', ref='3 C17'),
    'C19': dict(
        level='other', technique='abstract interpretation of _derive/_next_highest/_is_approximate_multiple; statement patterns for find_plateaus/collapse_plateaus; effect summaries',
        text='Static (thin): slope term and dtype discipline; strict exceed mask in slope units; cumulative group id with leading 0; size filter >=; collapse = [min, next-above-max); in-phase predicate and filter; no argument written.',
        note='maximality/completeness of runs are runtime sequence properties and not decided', ref='3 C19'),
    'C20': dict(
        level='other', technique='table lint of the bundled CSV files; structural rules on the loaders; finite evaluation of the constant name pattern; abstract interpretation of _assemble_scalar and the attenuation formula',
        text='Static: exact-match lookup; header lines skipped = leading non-data lines; NIST column/unit mapping; blank -> None, variance = uncertainty^2 (0 stays 0); tables have constant width, unique keys, numeric-or-blank cells (371+118+3557 rows, complete); name pattern = digits* letters+ anchored; attenuation = n*(sigma_s + sigma_a*lambda/1.7982 A) without integer truncation.',
        note='float(text) == tabulated decimal is Python and not decided', ref='3 C20'),
})

CHECKS.update({
    'C10': dict(
        level='other', technique='abstract interpretation of the DiskChopper methods on both rotation senses (path enumeration over the sense predicate); CFG guard rules for validation',
        text='Static necessary conditions: the time offset of an angle is (beam_position+phase-theta_rep)/omega (+ one period iff anticlockwise) in float64 without integer unit conversion; open/close use complementary edges by rotation sense with the same repetition count and close-open = (end-begin)/|omega|; validation and the 1e-8 integer-ratio check guard every path; overlap is checked between neighbours and across top-dead-centre; from_disk_chopper feeds one pulse frequency and the same offsets to both edges.',
        note='maximality / completeness / once-per-rotation of the produced openings are runtime sets and not decided', ref='3 C10'),
})

CHECKS.update({
    'C16': dict(
        level='other', technique='abstract interpretation with an object model (classes, prefixes as concrete strings, symbolic parameters); symbolic substitution for symmetry and half-maximum',
        text='Static: evaluated normal forms of Gaussian/Lorentzian/pseudo-Voigt/polynomial(deg 1..6)/composite equal the closed forms; each peak is symmetric about loc and takes half its peak value at loc +/- fwhm/2 with the FWHM the model itself reports; units follow the parameters; results are prefix-independent; missing/unknown/un-prefixed/foreign-prefixed names are refused; the result has the dtype of x for float32 and int64 x; with_prefix acts on a copy. with_prefix also of a model that was evaluated before it was renamed.',
        note='normalisation is a cited property of the closed forms; guess() not decided; scale >= 1e-15 assumed (clamp)', ref='3 C16'),
})

CHECKS.update({
    'C18': dict(
        level='other', technique='abstract interpretation (rotation vector, geometry kernels, transmission fraction) ; constant-table lint of the literal quadrature rules; effect summaries',
        text='Static: the rotation from the z axis to the cylinder axis uses an angle ranging over [0, pi]; the literal disk rules have positive weights summing to pi, nodes in the disk and exact monomial moments up to degree 7/17/31; product-rule assembly, scaling, centre and volume; transmission = sum w exp(-mu (L_in+L_out))/volume with L_in along -beam; interval/slab/cylinder intersection formulas equal their reference normal forms; no module-level state is written.',
        note='accuracy of the quadrature on the integrand and degenerate (tangent/parallel) rays are runtime numerics, not decided', ref='3 C18'),
})

CHECKS.update({
    'C14': dict(
        level='other', technique='finite-domain evaluation of the quoting/layout decision code in the abstract interpreter; independent CIF 1.1 lexer as oracle; known-findings list',
        text='Static, finite decision space enumerated: the writer (Chunk.write, Loop.write, _format_value, _quotes_for_string_value, _write_comment, name setter) is folded over all strings up to length 3 (thorough: 4) from an alphabet with one representative per CIF 1.1 character class plus the reserved words; every produced fragment must be read by an independent CIF 1.1 lexer as exactly the supplied value(s); output is ASCII; comments never leak; _su columns from stddevs; author ids unique and role ids resolvable. One known finding (text field containing a line starting with ;).',
        note='trusts spec/cif11.py; number formatting is str(float); tags are outside the value quantifier', ref='3 C14'),
})

CHECKS.update({
    'C12': dict(
        level='other', technique='I/O effect analysis: wire signatures of writer and reader functions, symbolic byte counts, chunk-loop idiom recognition, ordering rules over the builder',
        text='Static: writer and reader wire signatures agree for header, table, descriptors, pixel and histogram blocks; declared sizes equal the symbolic byte counts of the writes (the chunked pixel loop must cover the declared pixel count); positions start after the table and advance by the declared sizes in write order; canonical block order independent of call order; header constants and byte-order deduction; byte order honoured by every multi-byte primitive; exhaustive matches; type tags covered by writers == readers.',
        note='numpy tofile/tobytes modelled as size*itemsize; several ordering rules match normalised statements of the builder', ref='3 C12'),
    'C13': dict(
        level='other', technique='abstract round trip: symbolic model instances are serialised and parsed back inside the abstract interpreter; the term domain tracks the unit bare numbers are expressed in',
        text='Static: for every metadata class the package\'s serializer output, fed to the registered parser, returns every unit-carrying field with the physical value supplied (writer unit == reader label), undoes 1-based indices, converts integer metadata in float64, and reads only fields that are written; pixel rows map names to units with one conversion per row into the float32 buffer; data_range/npix come from the same rows; instrument/sample containers reference one shared object per run.',
        note='byte-level encoding is C12; Horace compatibility and float formatting not decided', ref='3 C13'),
})


# ---- entries rewritten after the twin (behaviour-preserving refactoring) campaign: no statement patterns ----
CHECKS.update({
    'C10': dict(
        level='other', technique='abstract interpretation of the DiskChopper methods on both rotation senses; witness-guided symbolic interpretation (sa/witness.py) of validation, repetition count and pulse expansion over order types',
        text='Static: the time offset of an angle is (beam_position+phase-theta_rep)/omega (+ one period iff anticlockwise) in float64 without integer unit conversion; open/close use complementary edges by rotation sense and close-open = (end-begin)/|omega|; over every order type of the edges of one and two slits on a grid of angles (deg and rad) constructing a DiskChopper succeeds for exactly the non-reversed, non-overlapping slit sets (also across top-dead-centre); frequency ratios are accepted iff integer or inverse integer to 1e-8 (decided on time_offset_open: n+1 times per slit for ratio n, ValueError otherwise); the open/close arrays hold exactly one pair per slit and turn for turns -1..n-1 as exact terms; over several source pulses (frequency ratios 1/4..2, both senses) every pair reported by from_disk_chopper is an opening of the rotating disk, none is reported twice and none inside the covered span is missing (found and fixed F16); a second request gives the same answer, also with slit edges in rad.',
        note='that delta_t(theta) describes the physical disk is the documented convention, not derived', ref='8'),
    'C11': dict(
        level='other', technique='witness-guided symbolic interpretation: vertices, windows and distances are symbols with exact rational witness values, comparisons are decided at the witness, reported vertices stay exact terms and are compared with a reference model written from the definition (spec/clip.py); floating-point exactness tags for the interpolation',
        text='Static: the shear t+d*lambda*m_n/h and its composition law; chopping by one window edge (through Frame.chop) equals polygon-intersect-half-plane for every order type of 3- and 4-vertex polygons against the cut (both directions; exact terms for generic order types, numerically on the cut); Frame.chop refuses a chopper in front of the frame and otherwise reports exactly the polygons of the reference model for every subframe x window in any window order; FrameSequence.chop is independent of the listing order, chopping in two calls equals chopping in one, and __getitem__ propagates the last frame not beyond the distance (also with co-located choppers); an intersection vertex carries bit-exactly the window edge as its time and bit-exactly the endpoint wavelength when both endpoints carry the same wavelength; produced subframes are regular. The reference model works from the windows supplied (nested, overlapping, unordered); what is compared is membership in the union of the polygons; the sequence a chop is applied to stays as it was and can be chopped again without history.',
        note='rounding of the interpolation for unequal endpoints is not decided; the reference model is trusted', ref='8'),
    'C12': dict(
        level='other', technique='abstract interpretation of the whole SQW builder over an abstract byte file (sa/absio.py: concrete bytes for integers and text, symbolic cells with width and byte order for floats) for a finite set of configurations; independent decoder of the documented layout (spec/sqwfmt.py); the package reader interpreted on the same file',
        text='Static, finite configuration space enumerated (orders and subsets of builder calls, both byte orders, pixel counts and chunk sizes below/equal/above each other and the row count, 1..3 runs, in memory and through open(), titles from empty to 300 non-ASCII characters): header horace/4.0/SQW/n_dims and byte order found == requested (also by Sqw.open); block table size field right, every block once, order independent of the builder calls, extents contiguous from the table end to EOF; every extent holds a block of the declared type that decodes completely and exactly within it, by the independent decoder and by the package reader; LowLevelSqw.write_array writes every element exactly once and in order for empty, small and larger-than-1-MiB arrays, to memory and to a file, in both byte orders (R4).',
        note='numpy tofile/tobytes/frombuffer/fromfile, struct and io are modelled (sa/sqwio.py); found and fixed F12 (string lengths declared in characters)', ref='8'),
    'C13': dict(
        level='other', technique='abstract round trip through the IR (symbolic model -> serializer -> registered parser) and through the abstract byte file (builder -> bytes -> independent decoder / package reader); the term domain tracks the unit bare numbers are expressed in',
        text='Static: unit-carrying metadata fields come back with the physical value supplied (writer unit == reader label), 1-based indices are undone, integer metadata is converted in float64; for pixel counts / chunk sizes below, equal and above each other and the row count, pixel p row r on disk is float32(row r of pixel p converted to the declared unit) as an exact term, metadata holds N and per-row (min, max); containers hold one shared object referenced once per run (1-based); run ids + 1, meV, rad, angstrom/deg and the declared histogram units and shape on disk; Sqw.read_data_block returns models equal to those supplied with units of the same dimension, for direct and for indirect geometry (per-detector efix and 2-d en; found and fixed F13). Class names, version numbers and energy-mode numbers on disk are those of the documented layout (spec/sqwfmt.py), the builder calls are made in several orders, and the package reader hands out its model of every block.',
        note='Horace compatibility and float formatting not decided', ref='8'),
    'C14': dict(
        level='other', technique='finite-domain evaluation of the quoting/layout decision code in the abstract interpreter with an independent CIF 1.1 lexer as oracle; witness-guided interpretation of the loop builders and of save_cif with a text sink; known-findings list',
        text='Static, finite decision space enumerated: the writer (Chunk.write, Loop.write, _format_value, _quotes_for_string_value, _write_comment, name setter) is folded over all strings up to length 3 (thorough: 4) from an alphabet with one representative per CIF 1.1 character class plus the reserved words; every produced fragment must be read by an independent CIF 1.1 lexer as exactly the supplied value(s); output is ASCII; comments never leak; save_cif starts the file with the CIF 1.1 magic line; the powder and calibration loops hold values in value columns and sqrt(variances) in _su columns (only when variances exist) as exact terms; author ids unique and role ids resolvable. One known finding (text field containing a line starting with ;). A number supplied with a variance is written in the compact value(su) notation on every path (abstract magnitudes); a builder keeps what earlier calls added, through CIF.save and save_cif.',
        note='trusts spec/cif11.py; number formatting is str(float); tags are outside the value quantifier', ref='3 C14, 9'),
    'C15': dict(
        level='other', technique='finite-domain interpretation of io/xye.py with recording stubs for numpy.savetxt/loadtxt over every combination of (variances, ndim, masks, coordinate set and alignment, bin edges, coord argument, header argument); symbolic table columns',
        text='Static: every documented refusal raises before anything is handed to savetxt or written and every accepted input is saved by exactly one savetxt call; the table saved has the columns (selected coordinate values, data values, sqrt(variances)) as exact terms; >=17 significant digits, one-character delimiter the loader splits on, comments untouched, header through savetxt; the coordinate selected is the documented one irrespective of alignment flags; load_xye returns column 1, column 2 squared, column 0 and one-row files load as 1-d columns.',
        note='round-trip of %.18e through numpy/C is trusted', ref='8'),
    'C17': dict(
        level='other', technique='witness-guided interpretation of fit_peaks and remove_peaks end to end; the third-party calls (optimiser, chi-square distribution) and the fit models are recording stubs programmed per scenario, so every clause is read off the public results',
        text='Static, through fit_peaks only: with fewer points in the window than parameters a window-too-narrow result is returned without consuming the data, and a failing optimiser gives a failed result; over all 216 combinations of violated requirements (non-uniform grid, peak locations inside, at and outside the window, with and without a converging background-only fit) the assessment is success iff none is violated and otherwise names a violated one, never raising; one result per estimate in order, fitted on exactly the points of its window, first success in (peak, background) product order else the first candidate (all 16 success patterns); FitResult.red_chisq / p_value / aic are chi2/(n-k), 1-cdf(chi2; n-k), n ln(chi2/n)+2k as exact terms of the window data and the model values at the returned parameters (zero and one degree of freedom included); windows from a width are [c-w/2, nextafter(c+w/2)] clipped to the data range and the neighbour separation; remove_peaks subtracts exactly the peaks of successful results inside their windows from a copy.',
        note='optimiser outcomes are not decided', ref='8'),
    'C18': dict(
        level='other', technique='abstract interpretation (rotation vector, geometry kernels, transmission fraction); witness-guided interpretation with recording stubs (scaling/rotation/translation of a symbolic rule, transmission map); constant folding of the reference rules with numpy; effect summaries incl. memoising wrappers',
        text='Static: the rotation from the z axis to the cylinder axis uses an angle ranging over [0, pi]; literal disk rules and the folded product rules of every deterministic kind have positive weights summing to the unit-cylinder volume, nodes inside, exact low-degree moments, and are the same on a second request; points = R (x r, y r, z h/2) + centre and weights = w r^2 h/2 as exact terms; transmission = sum w exp(-mu (L_in+L_out))/volume with L_in along -beam from every point and L_out along the unit vector to the detector; beam_intersection is the composition of the interval/slab/cylinder formulas, which equal their reference normal forms; quadrature rules do not depend on call history (two-request histories of the rule selection in one interpreter, incl. requests whose axial rules have the same length but different families, with the first result overwritten by its caller), no memoised array is handed out, the transmission code writes no module-level state of its own.',
        note='accuracy of the quadrature on the integrand and degenerate (tangent/parallel) rays are runtime numerics, not decided', ref='8'),
    'C19': dict(
        level='other', technique='abstract interpretation of the plateau and in-phase code with symbolic tokens for group/bins reductions and a record of coordinate stores; effect summaries',
        text='Static: slope term and dtype discipline; the grouping coordinate is concat(0, cumsum(|slope| > atol in slope units)) as an exact term; the groups kept are those with size >= min_n_points; collapse = [bins.min, next representable above bins.max] for float, integer and datetime event coordinates with bins.mean data; in-phase predicate and filter; no argument written. Finite domain, decided at exact witness values: for every pattern of flat / exactly-at-tolerance / just-above / far-exceeding steps of short series (values near 1e6, coordinates near 1e9, float and integer coordinates) and every min_n_points the bins returned are exactly the maximal runs of the definition, in input order, each with its own points and coordinates; the in-phase filter over integer and single-precision frequencies narrows neither operand.',
        note='maximality/completeness of runs are runtime sequence properties and not decided', ref='8'),
    'C20': dict(
        level='other', technique='partial evaluation of the three table loaders and Atom.for_isotope on the bundled CSV files (read as data by an independent csv reader); finite-domain evaluation of the name parser; abstract interpretation of _assemble_scalar and the attenuation formula',
        text='Static: every key of the tables is found and returned verbatim (value, variance = uncertainty^2, blank -> None, units fm x4 / barn x4 / Da); names that are not exactly a key (case, blanks, prefixes, header words) are refused; the element of an isotope name is the letter run after optional digits over all strings up to length 4 (thorough 5) of a class alphabet; z/weight/mass wiring of Atom.for_isotope; tables have constant width, unique keys, numeric-or-blank cells; attenuation = n*(sigma_s + sigma_a*lambda/1.7982 A) without integer truncation.  Quick samples the mass table (every 37th key plus neighbours), thorough evaluates all 4046 rows.',
        note='float(text) == tabulated decimal is Python and not decided', ref='8'),
})

# Histories (DESIGN 10.13, 10.14): always two calls interpreted in one world (module-level tables, functools caches, decorator closures,
# class attributes and rebound globals persist; objects that died give their id() back), compared with the second call in a fresh one.
HISTORY_TEXT = {
    'C01': ' No kernel writes its arguments (R8).',
    'C02': ' The graph selected for a request does not depend on earlier requests: every (origin, target, scatter, mode) request after every other one, in one world (R6).',
    'C03': ' Results do not depend on call history: two-call histories of the geometry kernels in one world - another kernel first, other units, the same variables updated in place by their owner, new variables holding the same values (R8).',
    'C06': ' Event-data results do not depend on call history: every kernel after itself in binned interpretation with other units, another precision, the same variables updated in place, new variables with the same values (R7).',
    'C07': ' Unit and dtype of a result do not depend on call history (two-call histories of the conversion kernels in one world: other units, other precision, both, another kernel first, the same variables updated in place: R6); 32-bit integers next to single precision are in the quick grid of the two-operand kernels.',
    'C09': ' Histories in one world: a graph factory called again after the caller emptied and overwrote its first result hands out the graph of a fresh interpreter; a bundled-table lookup answers the same after any other lookup (R5).',
    'C10': ' from_disk_chopper does not depend on the choppers expanded before: two-chopper histories in one world, the first chopper garbage when the second is made (its id() may be taken again) (R7).',
    'C11': ' The source pulse rectangle is regular in every vertex order (R6).',
    'C12': ' A file does not depend on the files written before it: two-file histories in one world, same byte order and block set, other sizes (R5).',
    'C13': ' Run ids that are not the positions of the runs (counted down to 0, starting above 0) come back as supplied; reading does not depend on earlier reads: a second file of the same layout with other numbers written to the same path in the same world is read back as itself (R7).',
    'C14': ' Builder sequences with saves in between (save, derive, save; the same builder twice) write what the builder holds now (R6); pairs given as a mapping, a list, a tuple or a one-shot iterator are written alike (R7).',
    'C15': ' The same file loaded twice in one world gives the same table; 20-row tables; loadtxt handed an iterable of lines returns the rows it was handed.',
    'C16': ' The refusal does not depend on what a sibling model of the same class and prefix was evaluated with before.',
    'C17': ' The result for a spectrum does not depend on the spectra fitted before it: two fit_peaks calls in one world on one grid, the comparison fits programmed the other way round (R9).',
    'C18': ' Two cylinders whose axes differ in the sign of a component, requested in one world, get the points of a fresh interpreter (R6).',
    'C19': ' The plateaus found do not depend on earlier calls: the tolerance given as an integer and as the equal floating-point number, in another unit than the coordinate, in one world (R7).',
    'C20': ' A lookup answers the same after any other lookup: two-lookup histories of ScatteringParams.for_isotope and Atom.for_isotope in one world (R7).',
}
for _pid, _extra in HISTORY_TEXT.items():
    CHECKS[_pid]['text'] = CHECKS[_pid]['text'].rstrip() + _extra

NA_REASON = 'check not built yet (planned: see DESIGN.md section 3)'


def main():
    checks = []
    for pid in ALL:
        if pid not in CHECKS:
            continue
        c = CHECKS[pid]
        checks.append({
            'property_id': pid,
            'quick_cmd': f'./check {pid} --tier quick',
            'thorough_cmd': c.get('thorough', f'./check {pid} --tier thorough'),
            'evidence_file': f'/verif/evidence/{pid}.json',
            'replay_cmd_template': f'./check {pid} --replay {{path}}',
            'engine': 'sa',
            'level_claimed': {'category': c['level'], 'text': c['text'], 'design_ref': f"DESIGN.md section {c['ref']}"},
            'level_note': c['note'],
            'technique': c['technique'],
        })
    fixes = []
    try:
        log = subprocess.run(['git', '-C', '/repo', 'log', '--format=%H %s'], capture_output=True, text=True).stdout
        for ln in log.splitlines():
            h, _, subj = ln.partition(' ')
            if subj.startswith('fix:'):
                fixes.append(h)
    except OSError:
        pass
    man = {
        'version': 1,
        'setup_cmd': 'true',
        'hooks': {
            'guard': 'SCIPPNEUTRON_VERIF',
            'enable': 'no hooks are needed: every check parses /repo/src with ast and never imports scippneutron',
            'baseline_off_cmd': 'cd /repo && /venv/bin/python -m pytest -ra -q -p no:cacheprovider --timeout=900 --continue-on-collection-errors',
            'source_commits': fixes,
            'add_only': True,
        },
        'engines': [{
            'name': 'sa', 'path': '/verif/sa',
            'serves_properties': sorted(CHECKS),
            'kind_free_text': 'repository-specific static analysis over ast: abstract interpreter (term/unit/dtype/alias domains), CFG/dominator rules, effect summaries, partial evaluation of tables',
        }],
        'checks': checks,
        'notes': 'All checks are static: they parse /repo/src on every run, never import scippneutron. source_commits lists fix: commits (no hooks). See DESIGN.md.',
        'not_applicable': [{'property_id': p, 'reason': NA.get(p, NA_REASON)} for p in ALL if p not in CHECKS],
    }
    with open(os.path.join(VERIF, 'MANIFEST.json'), 'w') as f:
        json.dump(man, f, indent=1)
        f.write('\n')


NA = {}

if __name__ == '__main__':
    main()
