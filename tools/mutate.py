"""Mechanical mutation sweep: which single-point changes of the anchored code do the checks notice?

  python tools/mutate.py sweep [C05 C07 ...] [--jobs 14] [--max-per-file 400]
        generate one-point mutants of the files each property is anchored in (properties.jsonl), run the
        quick check of every property anchored in the mutated file on a scratch copy, write
        /verif/notes/mutation/<date>.json (every mutant with its verdict per property)
  python tools/mutate.py sweep --equivalent [...]
        the same machinery with behaviour-preserving rewrites instead (literal operand of + / * moved to the other side, a < b as b > a,
        the arms of an if / conditional expression exchanged under a negated test): every check must stay silent
  python tools/mutate.py tests <report.json>
        for the mutants no check noticed: run the repository's own tests of that package on the mutant
        (does the existing suite notice?) and add the outcome to the report
  python tools/mutate.py show <report.json> [--survivors]

Mutation operators (one change per mutant, chosen so that the tree still compiles):
  binop     + <-> -, * <-> /, ** exponent +1
  cmp       < <-> <=, > <-> >=, == <-> !=, < <-> >
  boolop    and <-> or
  unary     drop a unary minus / not
  const     integer c -> c + 1, float c -> 2c, True <-> False
  unit      a unit string -> a sibling unit of the same dimension (meV <-> ueV, angstrom <-> nm, us <-> ms, deg <-> rad, m <-> mm)
  copyflag  copy=True -> copy=False (aliasing), copy=False -> copy=True is not generated (equivalent up to speed)
  dropstmt  an in-place statement (x += y, x *= y) or a bare call statement -> pass
  index     x[k] -> x[k + 1] for integer k; slice bound +1
  swapargs  f(a, b) -> f(b, a) for two positional arguments of a call to a package function

A mutant nobody notices is either equivalent (same behaviour) or a hole; they are triaged by reading (DESIGN 10.11).
Scratch copies live under a temporary directory outside /repo and /verif and are removed.
"""

from __future__ import annotations

import ast
import concurrent.futures as cf
import copy
import datetime
import json
import os
import shutil
import subprocess
import sys
import tempfile

VERIF = os.path.dirname(os.path.dirname(os.path.abspath(__file__)))
REPO = '/repo'
PY = '/venv/bin/python'

UNIT_SIBLING = {'meV': 'ueV', 'ueV': 'meV', 'angstrom': 'nm', 'nm': 'angstrom', 'us': 'ms', 'ms': 'us', 'deg': 'rad', 'rad': 'deg',
                'm': 'mm', 's': 'ms', 'Hz': 'kHz', '1/angstrom': '1/nm', 'barn': 'fm', 'fm': 'barn', 'Da': 'kg'}
SKIP_FUNCS = {'__repr__', '__str__', '_repr_html_', 'make_svg', 'draw_disk_chopper'}


def anchors() -> dict[str, list[str]]:
    out: dict[str, list[str]] = {}
    for line in open(os.path.join(VERIF, 'properties.jsonl'), encoding='utf-8'):
        d = json.loads(line)
        a = d.get('anchors') or d.get('code_anchors') or {}
        for f in a.get('files', []):
            if f.endswith('.py'):
                out.setdefault(f, []).append(d['id'])
    return out


class Site:
    def __init__(self, node, new_node, op, func):
        self.node, self.new_node, self.op, self.func = node, new_node, op, func


def _swap(node, **kw):
    n = copy.copy(node)
    for k, v in kw.items():
        setattr(n, k, v)
    return n


def sites_of(tree: ast.Module, equivalent: bool = False) -> list[Site]:
    """Mutation sites; with equivalent=True the behaviour-preserving rewrites instead (the checks must stay silent on them)."""
    out: list[Site] = []

    def visit(node, func):
        if isinstance(node, ast.FunctionDef | ast.AsyncFunctionDef):
            if node.name in SKIP_FUNCS:
                return
            if equivalent and isinstance(node, ast.FunctionDef) and not any(isinstance(n_, ast.Yield | ast.YieldFrom) for n_ in ast.walk(node)):
                whole_function_rewrites(node, node.name if func is None else f'{func}.{node.name}')
            func = node.name if func is None else f'{func}.{node.name}'
            body = node.body
            if body and isinstance(body[0], ast.Expr) and isinstance(getattr(body[0], 'value', None), ast.Constant) and isinstance(body[0].value.value, str):
                body = body[1:]  # docstring
            for st in body:
                visit(st, func)
            return
        if isinstance(node, ast.ClassDef):
            for st in node.body:
                visit(st, node.name if func is None else f'{func}.{node.name}')
            return
        if func is not None:
            mutate(node, func)
        for ch in ast.iter_child_nodes(node):
            if isinstance(ch, ast.expr_context | ast.operator | ast.cmpop | ast.boolop | ast.unaryop):
                continue
            visit(ch, func)

    def whole_function_rewrites(node, func):
        doc = [node.body[0]] if (node.body and isinstance(node.body[0], ast.Expr) and isinstance(getattr(node.body[0], 'value', None), ast.Constant)
                                 and isinstance(node.body[0].value.value, str)) else []
        body = node.body[len(doc):]
        if not body:
            return
        # (1) the body inside try / finally with an empty clean-up
        wrapped = copy.copy(node)
        wrapped.decorator_list = []  # the decorators stay where they are, above the replaced text
        wrapped.body = [*doc, ast.Try(body=body, handlers=[], orelse=[], finalbody=[ast.Pass()])]
        out.append(Site(node, wrapped, 'eq-tryfinally', func))
        # (2) a debug log line on entry (local import, as the package does elsewhere)
        logged = copy.copy(node)
        logged.decorator_list = []
        log_stmts = ast.parse("import logging as _logging\n_logging.getLogger(__name__).debug('entering %s', " + repr(node.name) + ")").body
        logged.body = [*doc, *log_stmts, *body]
        out.append(Site(node, logged, 'eq-log', func))
        # (3) every returned expression first bound to a local name
        class _Ret(ast.NodeTransformer):
            def visit_FunctionDef(self, n):
                return n if n is not node else self.generic_visit(n)

            visit_Lambda = visit_ClassDef = visit_AsyncFunctionDef = lambda self, n: n

            def visit_Return(self, n):
                if n.value is None or isinstance(n.value, ast.Name | ast.Constant):
                    return n
                return [ast.Assign(targets=[ast.Name(id='_result', ctx=ast.Store())], value=n.value, lineno=n.lineno), ast.Return(value=ast.Name(id='_result', ctx=ast.Load()))]
        temp = _Ret().visit(copy.deepcopy(node)) if False else None
        tnode = copy.deepcopy(node)
        tnode.decorator_list = []
        changed = [False]

        def rewrite_returns(stmts):
            new_stmts = []
            for st in stmts:
                if isinstance(st, ast.Return) and st.value is not None and not isinstance(st.value, ast.Name | ast.Constant):
                    new_stmts.append(ast.Assign(targets=[ast.Name(id='_result', ctx=ast.Store())], value=st.value, lineno=0))
                    new_stmts.append(ast.Return(value=ast.Name(id='_result', ctx=ast.Load())))
                    changed[0] = True
                    continue
                for fld in ('body', 'orelse', 'finalbody'):
                    sub = getattr(st, fld, None)
                    if isinstance(sub, list) and sub and isinstance(sub[0], ast.stmt) and not isinstance(st, ast.FunctionDef | ast.ClassDef | ast.AsyncFunctionDef):
                        setattr(st, fld, rewrite_returns(sub))
                if isinstance(st, ast.Try):
                    for h in st.handlers:
                        h.body = rewrite_returns(h.body)
                if isinstance(st, ast.Match):
                    for c_ in st.cases:
                        c_.body = rewrite_returns(c_.body)
                new_stmts.append(st)
            return new_stmts
        tnode.body = rewrite_returns(tnode.body)
        if changed[0]:
            ast.fix_missing_locations(tnode)
            out.append(Site(node, tnode, 'eq-temp', func))

    def numeric_const(n):
        return isinstance(n, ast.Constant) and isinstance(n.value, int | float) and not isinstance(n.value, bool)

    def rewrite(node, func):
        # a op b with a numeric literal on one side, op commutative
        if isinstance(node, ast.BinOp) and isinstance(node.op, ast.Add | ast.Mult) and (numeric_const(node.left) != numeric_const(node.right)):
            out.append(Site(node, _swap(node, left=node.right, right=node.left), 'eq-commute', func))
        # a < b  <->  b > a  (and the other three orderings; == and != by symmetry)
        elif isinstance(node, ast.Compare) and len(node.ops) == 1 and type(node.ops[0]) in (ast.Lt, ast.LtE, ast.Gt, ast.GtE, ast.Eq, ast.NotEq) \
                and not any(isinstance(x, ast.Constant) and x.value is None for x in (node.left, node.comparators[0])):
            flip = {ast.Lt: ast.Gt, ast.LtE: ast.GtE, ast.Gt: ast.Lt, ast.GtE: ast.LtE, ast.Eq: ast.Eq, ast.NotEq: ast.NotEq}[type(node.ops[0])]
            out.append(Site(node, ast.Compare(left=node.comparators[0], ops=[flip()], comparators=[node.left]), 'eq-cmpflip', func))
        # x if c else y  <->  y if not c else x
        elif isinstance(node, ast.IfExp):
            out.append(Site(node, ast.IfExp(test=ast.UnaryOp(op=ast.Not(), operand=node.test), body=node.orelse, orelse=node.body), 'eq-ifexp', func))
        # if c: A else: B  <->  if not c: B else: A   (only plain two-armed ifs)
        elif isinstance(node, ast.If) and node.orelse and not (len(node.orelse) == 1 and isinstance(node.orelse[0], ast.If)):
            out.append(Site(node, ast.If(test=ast.UnaryOp(op=ast.Not(), operand=node.test), body=node.orelse, orelse=node.body), 'eq-ifnot', func))

    def mutate(node, func):
        if equivalent:
            return rewrite(node, func)
        if isinstance(node, ast.BinOp):
            pairs = {ast.Add: ast.Sub, ast.Sub: ast.Add, ast.Mult: ast.Div, ast.Div: ast.Mult}
            t = pairs.get(type(node.op))
            if t is not None and not (isinstance(node.left, ast.Constant) and isinstance(node.left.value, str)):
                out.append(Site(node, _swap(node, op=t()), 'binop', func))
            if isinstance(node.op, ast.Pow) and isinstance(node.right, ast.Constant) and isinstance(node.right.value, int):
                out.append(Site(node, _swap(node, right=ast.Constant(node.right.value + 1)), 'binop', func))
        elif isinstance(node, ast.Compare) and len(node.ops) == 1:
            pairs = {ast.Lt: [ast.LtE, ast.Gt], ast.LtE: [ast.Lt], ast.Gt: [ast.GtE, ast.Lt], ast.GtE: [ast.Gt], ast.Eq: [ast.NotEq], ast.NotEq: [ast.Eq],
                     ast.Is: [ast.IsNot], ast.IsNot: [ast.Is], ast.In: [ast.NotIn], ast.NotIn: [ast.In]}
            for t in pairs.get(type(node.ops[0]), []):
                out.append(Site(node, _swap(node, ops=[t()]), 'cmp', func))
        elif isinstance(node, ast.BoolOp):
            out.append(Site(node, _swap(node, op=ast.Or() if isinstance(node.op, ast.And) else ast.And()), 'boolop', func))
        elif isinstance(node, ast.UnaryOp) and isinstance(node.op, ast.USub | ast.Not):
            out.append(Site(node, node.operand, 'unary', func))
        elif isinstance(node, ast.Constant):
            v = node.value
            if isinstance(v, bool):
                out.append(Site(node, ast.Constant(not v), 'const', func))
            elif isinstance(v, int):
                out.append(Site(node, ast.Constant(v + 1), 'const', func))
            elif isinstance(v, float):
                out.append(Site(node, ast.Constant(v * 2 if v else 1.0), 'const', func))
            elif isinstance(v, str) and v in UNIT_SIBLING:
                out.append(Site(node, ast.Constant(UNIT_SIBLING[v]), 'unit', func))
        elif isinstance(node, ast.Call):
            for k in node.keywords:
                if k.arg == 'copy' and isinstance(k.value, ast.Constant) and k.value.value is True:
                    kws = [ast.keyword(arg=q.arg, value=ast.Constant(False) if q is k else q.value) for q in node.keywords]
                    out.append(Site(node, _swap(node, keywords=kws), 'copyflag', func))
            if len(node.args) == 2 and not node.keywords and not any(isinstance(a, ast.Starred) for a in node.args) \
                    and ast.dump(node.args[0]) != ast.dump(node.args[1]):
                out.append(Site(node, _swap(node, args=[node.args[1], node.args[0]]), 'swapargs', func))
        elif isinstance(node, ast.AugAssign) or (isinstance(node, ast.Expr) and isinstance(node.value, ast.Call)):
            out.append(Site(node, ast.Pass(), 'dropstmt', func))
        elif isinstance(node, ast.Subscript):
            s = node.slice
            if isinstance(s, ast.Constant) and isinstance(s.value, int):
                out.append(Site(node, _swap(node, slice=ast.Constant(s.value + 1)), 'index', func))
            elif isinstance(s, ast.Slice):
                for fld in ('lower', 'upper'):
                    b = getattr(s, fld)
                    if isinstance(b, ast.Constant) and isinstance(b.value, int):
                        out.append(Site(node, _swap(node, slice=_swap(s, **{fld: ast.Constant(b.value + 1)})), 'index', func))

    for st in tree.body:
        visit(st, None)
    return out


def render(src: str, site: Site) -> str | None:
    n = site.node
    if not hasattr(n, 'lineno') or n.end_lineno is None:
        return None
    lines = src.splitlines(keepends=True)
    start = sum(len(x.encode()) for x in lines[:n.lineno - 1]) + n.col_offset
    end = sum(len(x.encode()) for x in lines[:n.end_lineno - 1]) + n.end_col_offset
    b = src.encode()
    new = ast.unparse(site.new_node)
    if isinstance(site.new_node, ast.expr):
        new = '(' + new + ')'
    elif '\n' in new:
        pad = ' ' * n.col_offset
        new = ('\n' + pad).join(new.splitlines())
    out = (b[:start] + new.encode() + b[end:]).decode()
    try:
        ast.parse(out)
    except SyntaxError:
        return None
    return out


def gen_mutants(props: list[str] | None, max_per_file: int, equivalent: bool = False) -> list[dict]:
    muts = []
    for rel, pids in sorted(anchors().items()):
        pids = [p for p in pids if not props or p in props]
        if not pids:
            continue
        path = os.path.join(REPO, rel)
        src = open(path, encoding='utf-8').read()
        sites = sites_of(ast.parse(src), equivalent)
        step = max(1, len(sites) // max_per_file)
        for k, s in enumerate(sites[::step]):
            text = render(src, s)
            if text is None or text == src:
                continue
            if s.op == 'eq-ifnot' and (ast.get_source_segment(src, s.node) or '').startswith('elif'):
                continue  # an arm of an if / elif chain cannot be rewritten on its own
            muts.append({'id': f'{rel.split("scippneutron/")[-1]}#{k * step}', 'file': rel, 'func': s.func, 'op': s.op, 'line': s.node.lineno,
                         'old': ast.get_source_segment(src, s.node), 'new': ast.unparse(s.new_node), 'props': pids, 'text': text})
    return muts


def run_mutant(m: dict, base: str) -> dict:
    work = tempfile.mkdtemp(prefix='mut_', dir=base)
    res = {}
    try:
        shutil.copytree(os.path.join(REPO, 'src'), os.path.join(work, 'src'), ignore=shutil.ignore_patterns('__pycache__'))
        open(os.path.join(work, m['file']), 'w', encoding='utf-8').write(m['text'])
        for pid in m['props']:
            out_dir = os.path.join(work, 'out_' + pid)
            os.makedirs(out_dir, exist_ok=True)
            env = dict(os.environ, VERIF_REPO=work, VERIF_OUT=out_dir, VERIF_NO_SELFTEST='1')
            try:
                p = subprocess.run([os.path.join(VERIF, 'check'), pid, '--tier', 'quick'], capture_output=True, text=True, env=env, timeout=900)
                code = p.returncode
                first = next((ln for ln in (p.stdout + p.stderr).splitlines() if ln.startswith(('FINDING', 'ANALYSIS-ERROR'))), '')
            except subprocess.TimeoutExpired:
                code, first = 3, 'timeout'
            res[pid] = {'exit': code, 'first': first[:240].replace('VIOLATION', 'V10LATION')}
    finally:
        shutil.rmtree(work, ignore_errors=True)
    return res


def run_tests(m: dict, base: str) -> dict:
    """The repository's own tests of the mutated package, on the mutant."""
    work = tempfile.mkdtemp(prefix='mutt_', dir=base)
    try:
        shutil.copytree(os.path.join(REPO, 'src'), os.path.join(work, 'src'), ignore=shutil.ignore_patterns('__pycache__'))
        open(os.path.join(work, m['file']), 'w', encoding='utf-8').write(m['text'])
        sub = m['file'].split('scippneutron/')[-1].split('/')[0]
        targets = [t for t in (os.path.join(REPO, 'tests', sub), os.path.join(REPO, 'tests', 'convert_test.py') if sub in ('conversion', 'core', '_utils') else None,
                               os.path.join(REPO, 'tests', 'conversion') if sub in ('core', '_utils') else None) if t and os.path.exists(t)]
        if not targets:
            targets = [os.path.join(REPO, 'tests')]
        env = dict(os.environ, PYTHONPATH=os.path.join(work, 'src'))
        p = subprocess.run([PY, '-m', 'pytest', '-q', '-x', '-p', 'no:cacheprovider', '--timeout=600', '--deselect', 'tests/io/sqw/sqw_read_test.py', *targets],
                           cwd=REPO, env=env, capture_output=True, text=True, timeout=1800)
        tail = (p.stdout.strip().splitlines() or [''])[-1]
        return {'exit': p.returncode, 'tail': tail[:200]}
    finally:
        shutil.rmtree(work, ignore_errors=True)


def main(argv):
    cmd = argv[0] if argv else 'help'
    jobs = int(next((a.split('=')[1] for a in argv if a.startswith('--jobs=')), '14'))
    if cmd == 'sweep':
        props = [a for a in argv[1:] if not a.startswith('--')]
        mpf = int(next((a.split('=')[1] for a in argv if a.startswith('--max-per-file=')), '400'))
        equivalent = '--equivalent' in argv
        muts = gen_mutants(props, mpf, equivalent)
        only_ops = next((a.split('=')[1].split(',') for a in argv if a.startswith('--ops=')), None)
        if only_ops:
            muts = [m_ for m_ in muts if m_['op'] in only_ops]
        print(f'{len(muts)} ' + ('behaviour-preserving rewrites' if equivalent else 'mutants'))
        base = tempfile.mkdtemp(prefix='verif_mut_')
        try:
            with cf.ThreadPoolExecutor(max_workers=jobs) as ex:
                for m, r in zip(muts, ex.map(lambda x: run_mutant(x, base), muts), strict=True):
                    m['checks'] = r
                    m['noticed'] = sorted(p for p, v in r.items() if v['exit'] == 1)
                    m['broken'] = sorted(p for p, v in r.items() if v['exit'] not in (0, 1))
        finally:
            shutil.rmtree(base, ignore_errors=True)
        os.makedirs(os.path.join(VERIF, 'notes', 'mutation'), exist_ok=True)
        out = os.path.join(VERIF, 'notes', 'mutation', datetime.date.today().isoformat() + ('_equivalent' if equivalent else '') + ('_' + '_'.join(only_ops) if only_ops else '') + ('_' + '_'.join(props) if props else '') + '.json')
        for m in muts:
            m.pop('text')
        json.dump(muts, open(out, 'w'), indent=1)
        if equivalent:
            print(f'rewrites that made a check speak (false alarms): {sum(1 for m in muts if m["noticed"])}; that broke an analysis: {sum(1 for m in muts if m["broken"])}; of {len(muts)}; report {out}')
            return 0
        n_not = sum(1 for m in muts if m['noticed'])
        print(f'noticed by a check: {n_not}/{len(muts)}; analysis broken (exit 2) only: {sum(1 for m in muts if not m["noticed"] and m["broken"])}; report {out}')
        return 0
    if cmd == 'tests':
        rep = argv[1]
        muts = json.load(open(rep))
        todo = [m for m in muts if not m['noticed'] and 'tests' not in m]
        srcs = {}
        for m in todo:
            src = srcs.setdefault(m['file'], open(os.path.join(REPO, m['file']), encoding='utf-8').read())
            sites = sites_of(ast.parse(src))
            k = int(m['id'].split('#')[1])
            m['text'] = render(src, sites[k])
        base = tempfile.mkdtemp(prefix='verif_mutt_')
        try:
            with cf.ThreadPoolExecutor(max_workers=jobs) as ex:
                for m, r in zip(todo, ex.map(lambda x: run_tests(x, base), todo), strict=True):
                    m['tests'] = r
                    m.pop('text', None)
        finally:
            shutil.rmtree(base, ignore_errors=True)
        json.dump(muts, open(rep, 'w'), indent=1)
        print(f'{len(todo)} unnoticed mutants run against the tests: {sum(1 for m in todo if m["tests"]["exit"] != 0)} fail a test, {sum(1 for m in todo if m["tests"]["exit"] == 0)} survive both')
        return 0
    if cmd == 'show':
        muts = json.load(open(argv[1]))
        for m in muts:
            surv = not m['noticed']
            if '--survivors' in argv and not (surv and m.get('tests', {}).get('exit', 0) == 0):
                continue
            print(f"{m['id']:42s} {m['op']:8s} {m['func']:40s} L{m['line']:<4d} {m['old']!r:.60} -> {m['new']!r:.60}  noticed={m['noticed']} broken={m['broken']} tests={m.get('tests', {}).get('exit')}")
        return 0
    print(__doc__)
    return 0


if __name__ == '__main__':
    sys.exit(main(sys.argv[1:]))
