"""Seeded-change bookkeeping.

  python tools/seeds.py import            copy sub-agent deliverables from /tmp/seedwork into /verif/seeded/
  python tools/seeds.py verify [ids...]   confirm each change myself in a scratch worktree
                                          (applies, compiles, demo fails with / passes without, test suite unchanged)
  python tools/seeds.py check  [ids...]   run the registered check of the property against the changed tree

Scratch worktrees live under /tmp/seedverify and are removed after use.
"""

from __future__ import annotations

import concurrent.futures as cf
import json
import os
import re
import shutil
import subprocess
import sys
import xml.etree.ElementTree as ET

VERIF = os.path.dirname(os.path.dirname(os.path.abspath(__file__)))
SEEDED = os.path.join(VERIF, 'seeded')
WORK = '/tmp/seedverify'
PY = '/venv/bin/python'


def sh(cmd, cwd=None, env=None, timeout=1800):
    return subprocess.run(cmd, cwd=cwd, env=env, capture_output=True, text=True, timeout=timeout, shell=isinstance(cmd, str))


def do_import():
    src_root = '/tmp/seedwork'
    for d in sorted(os.listdir(src_root)):
        if not d.startswith(('wt_', 'w2_', 'w3_', 'w4_', 'w5_', 'w6_')):
            continue
        pid = d[3:]
        off = {'w2_': 2, 'w3_': 4, 'w4_': 6, 'w5_': 8, 'w6_': 11}.get(d[:3], 0)  # later seeding rounds: ids continue at -3, -5, -7, -9, -12 (-11 are mine)
        sd = os.path.join(src_root, d, '_seed')
        if not os.path.isdir(sd):
            continue
        for k in (1, 2):
            diff = os.path.join(sd, f'change{k}.diff')
            demo = os.path.join(sd, f'demo{k}.py')
            note = os.path.join(sd, f'note{k}.txt')
            if not (os.path.exists(diff) and os.path.exists(demo)):
                continue
            sid = f'{pid}-{k + off}'
            dst = os.path.join(SEEDED, sid)
            if os.path.exists(os.path.join(dst, 'meta.json')):
                continue
            os.makedirs(dst, exist_ok=True)
            shutil.copy(diff, os.path.join(dst, 'patch.diff'))
            shutil.copy(demo, os.path.join(dst, 'demo.py'))
            meta = {'id': sid, 'property': pid, 'source': 'independent sub-agent given only the property text',
                    'needs_to_manifest': '', 'what_i_ran': [], 'verified': False}
            if os.path.exists(note):
                meta['agent_note'] = open(note, encoding='utf-8').read()
            with open(os.path.join(dst, 'meta.json'), 'w', encoding='utf-8') as f:
                json.dump(meta, f, indent=1)
            print('imported', sid)


def worktree(name):
    path = os.path.join(WORK, name)
    if os.path.exists(path):
        sh(['git', '-C', '/repo', 'worktree', 'remove', '--force', path])
        shutil.rmtree(path, ignore_errors=True)
    os.makedirs(WORK, exist_ok=True)
    r = sh(['git', '-C', '/repo', 'worktree', 'add', '--detach', path, 'HEAD'])
    if r.returncode:
        raise RuntimeError(r.stderr)
    return path


def drop(path):
    sh(['git', '-C', '/repo', 'worktree', 'remove', '--force', path])
    shutil.rmtree(path, ignore_errors=True)
    sh(['git', '-C', '/repo', 'worktree', 'prune'])


def failing_tests(wt, tag):
    xml = os.path.join(WORK, f'junit_{tag}.xml')
    env = dict(os.environ, PYTHONPATH=os.path.join(wt, 'src'))
    sh([PY, '-m', 'pytest', '-q', '-p', 'no:cacheprovider', '--timeout=900', '--continue-on-collection-errors',
        f'--junitxml={xml}', 'tests'], cwd=wt, env=env, timeout=3600)
    bad = set()
    n = 0
    for tc in ET.parse(xml).getroot().iter('testcase'):
        n += 1
        if any(ch.tag in ('failure', 'error') for ch in tc):
            bad.add(f"{tc.get('classname')}::{tc.get('name')}")
    os.remove(xml)
    return bad, n


def baseline():
    cache = os.path.join(WORK, 'baseline.json')
    head = sh(['git', '-C', '/repo', 'rev-parse', 'HEAD']).stdout.strip()
    if os.path.exists(cache):
        c = json.load(open(cache))
        if c['head'] == head:
            return set(c['bad']), c['n']
    wt = worktree('baseline')
    try:
        bad, n = failing_tests(wt, 'baseline')
    finally:
        drop(wt)
    json.dump({'head': head, 'bad': sorted(bad), 'n': n}, open(cache, 'w'))
    return bad, n


def verify(sid):
    d = os.path.join(SEEDED, sid)
    meta = json.load(open(os.path.join(d, 'meta.json')))
    base_bad, base_n = baseline()
    wt = worktree(sid)
    log = []
    ok = True
    try:
        env = dict(os.environ, PYTHONPATH=os.path.join(wt, 'src'))
        r = sh([PY, os.path.join(d, 'demo.py')], cwd='/tmp', env=env, timeout=900)
        log.append(f'demo on unchanged HEAD: exit {r.returncode}')
        if r.returncode != 0:
            ok = False
            log.append('  ' + (r.stderr or r.stdout)[-300:])
        a = sh(['git', '-C', wt, 'apply', os.path.join(d, 'patch.diff')])
        if a.returncode:
            a = sh(['git', '-C', wt, 'apply', '--3way', os.path.join(d, 'patch.diff')])
        log.append(f'git apply: exit {a.returncode} {a.stderr.strip()[:200]}')
        if a.returncode:
            ok = False
        else:
            c = sh([PY, '-m', 'compileall', '-q', os.path.join(wt, 'src')])
            log.append(f'compileall: exit {c.returncode}')
            ok = ok and c.returncode == 0
            r = sh([PY, os.path.join(d, 'demo.py')], cwd='/tmp', env=env, timeout=900)
            log.append(f'demo with change: exit {r.returncode} :: {(r.stderr or r.stdout).strip().splitlines()[-1][:200] if (r.stderr or r.stdout).strip() else ""}')
            ok = ok and r.returncode != 0
            bad, n = failing_tests(wt, sid)
            same = bad == base_bad and n == base_n
            log.append(f'test suite with change: {n} tests, {len(bad)} failing/erroring; baseline {base_n} tests, {len(base_bad)}; identical set: {same}')
            if not same:
                log.append('  differences: ' + ', '.join(sorted(bad ^ base_bad))[:400])
            ok = ok and same
    finally:
        drop(wt)
    meta['verified'] = ok
    meta['what_i_ran'] = log
    meta['verified_at_repo_head'] = sh(['git', '-C', '/repo', 'rev-parse', '--short', 'HEAD']).stdout.strip()
    json.dump(meta, open(os.path.join(d, 'meta.json'), 'w'), indent=1)
    return sid, ok, log


def check(sid, tier='quick'):
    d = os.path.join(SEEDED, sid)
    meta = json.load(open(os.path.join(d, 'meta.json')))
    pid = meta['property']
    wt = worktree('chk_' + sid)
    try:
        a = sh(['git', '-C', wt, 'apply', os.path.join(d, 'patch.diff')])
        if a.returncode:
            a = sh(['git', '-C', wt, 'apply', '--3way', os.path.join(d, 'patch.diff')])
        if a.returncode:
            return sid, 'PATCH-FAILS', a.stderr[:200]
        props = meta.get('also_check', []) + [pid]
        results = {}
        for p in dict.fromkeys(props):
            out_dir = os.path.join(WORK, 'out_' + sid)
            env = dict(os.environ, VERIF_REPO=wt, VERIF_OUT=out_dir)
            r = sh([os.path.join(VERIF, 'check'), p, '--tier', tier], env=env, timeout=1800)
            finds = [ln for ln in r.stdout.splitlines() if ln.startswith(('FINDING', 'ANALYSIS-ERROR'))]
            results[p] = (r.returncode, finds[:3])
            shutil.rmtree(out_dir, ignore_errors=True)
        rc, finds = results[pid]
        det = any(v[0] == 1 for v in results.values())
        verdict = 'detected' if det else ('analysis-error' if any(v[0] == 2 for v in results.values()) else 'MISSED')
        return sid, verdict, ' | '.join(f'{p}: exit {v[0]} {" ; ".join(x[:160] for x in v[1])}' for p, v in results.items())
    finally:
        drop(wt)


def main(argv):
    cmd = argv[0] if argv else 'help'
    ids = argv[1:]
    if cmd == 'import':
        do_import()
        return 0
    all_ids = sorted(x for x in os.listdir(SEEDED) if os.path.isdir(os.path.join(SEEDED, x))) if os.path.isdir(SEEDED) else []
    sel = [i for i in all_ids if not ids or i in ids or i.split('-')[0] in ids]
    if cmd == 'verify':
        baseline()
        with cf.ThreadPoolExecutor(max_workers=6) as ex:
            for sid, ok, log in ex.map(verify, sel):
                print(f'SEED {sid} verified={ok}')
                for ln in log:
                    print('   ', ln)
        return 0
    if cmd == 'check':
        tier = 'quick'
        with cf.ThreadPoolExecutor(max_workers=8) as ex:
            for sid, verdict, info in ex.map(lambda s: check(s, tier), sel):
                print(f'SEED {sid} {verdict} :: {info[:500]}'.replace('VIOLATION', 'V10LATION'))
        return 0
    print(__doc__)
    return 0


if __name__ == '__main__':
    sys.exit(main(sys.argv[1:]))
