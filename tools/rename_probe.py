"""Rename probe: a mechanical behaviour-preserving refactoring of the whole package.

  python tools/rename_probe.py functions   every private function / method  `_name`  ->  `_name_rn`
  python tools/rename_probe.py globals     every private module-level name (tables, constants) `_NAME` -> `_NAME_rn`
  python tools/rename_probe.py classes     every private class `_Name` -> `_NameRn`
  python tools/rename_probe.py attributes  every private attribute / field `self._x`, `_x: T` in a class body -> `_x_rn`
  python tools/rename_probe.py all         the four together
  python tools/rename_probe.py counters    a call counter and a bounded call log (module-level state that changes no result) in every function
                                           of every anchored module: the history rules must stay silent
  python tools/rename_probe.py sink        a new public function using every statement / expression form of Python 3.12 (selftest/fixtures/
                                           kitchen_sink.py.txt) appended to every module a property is anchored in: code the checks have never
                                           seen must not break them
  python tools/rename_probe.py params      every parameter of every private function / method `p` -> `p_rn`, with the keyword
                                           arguments at their call sites (syntax-tree rewrite; comments are lost in the scratch tree)
  options:  --keep  leave the scratch tree in place;  --only C04,C11  run only these checks
            --suite  also run the repository's pinned test suite on the renamed tree (proof that behaviour is unchanged)

Every occurrence of a renamed identifier is replaced in every module of the package (word
boundaries, source and stub files), so the renamed tree is the same program.  All 20 checks
must stay silent on it: a check that needs a private name to exist is anchored to an
implementation detail and would raise a false alarm (or break) on such an edit.

Protocol names (`_repr_html_`, `_missing_`, NamedTuple's `_asdict`, ...) are not defined by the
package as private helpers and are left alone.  The scratch worktree lives under /tmp/renameprobe
and is removed afterwards.
"""

from __future__ import annotations

import ast
import concurrent.futures as cf
import json
import os
import re
import shutil
import sys

sys.path.insert(0, os.path.dirname(os.path.abspath(__file__)))
from seeds import PY, VERIF, sh  # noqa: E402

WORK = '/tmp/renameprobe'
PKG = 'src/scippneutron'
KEEP_NAMES = {'_asdict', '_replace', '_fields', '_make', '_field_defaults'}


def private_names(root: str, what: str) -> set[str]:
    fn, gl, cl, at = set(), set(), set(), set()
    for dp, _, files in os.walk(os.path.join(root, PKG)):
        for f in files:
            if not f.endswith('.py'):
                continue
            tree = ast.parse(open(os.path.join(dp, f), encoding='utf-8').read())
            for node in ast.walk(tree):
                if isinstance(node, ast.FunctionDef | ast.AsyncFunctionDef) and _private(node.name):
                    fn.add(node.name)
                elif isinstance(node, ast.ClassDef) and _private(node.name):
                    cl.add(node.name)
                if isinstance(node, ast.Attribute) and isinstance(node.ctx, ast.Store) and isinstance(node.value, ast.Name) \
                        and node.value.id in ('self', 'cls') and _private(node.attr):
                    at.add(node.attr)
                if isinstance(node, ast.ClassDef):
                    for st in node.body:
                        if isinstance(st, ast.AnnAssign) and isinstance(st.target, ast.Name) and _private(st.target.id):
                            at.add(st.target.id)
            for st in tree.body:
                targets = []
                if isinstance(st, ast.Assign):
                    targets = [t for t in st.targets if isinstance(t, ast.Name)]
                elif isinstance(st, ast.AnnAssign) and isinstance(st.target, ast.Name):
                    targets = [st.target]
                for t in targets:
                    if _private(t.id):
                        gl.add(t.id)
    gl -= fn | cl
    at -= fn | cl | gl
    return {'functions': fn, 'globals': gl, 'classes': cl, 'attributes': at, 'all': fn | gl | cl | at}[what], cl


def _private(name: str) -> bool:
    return name.startswith('_') and not name.startswith('__') and not name.endswith('_') and name not in KEEP_NAMES


def new_name(name: str, classes: set[str]) -> str:
    return name + ('Rn' if name in classes else '_rn')


def rename_tree(root: str, names: set[str], classes: set[str]) -> int:
    if not names:
        return 0
    pat = re.compile(r'(?<![A-Za-z0-9_])(' + '|'.join(sorted(map(re.escape, names), key=len, reverse=True)) + r')(?![A-Za-z0-9_])')
    n = 0
    for dp, _, files in os.walk(os.path.join(root, PKG)):
        for f in files:
            if not f.endswith(('.py', '.pyi')):
                continue
            p = os.path.join(dp, f)
            src = open(p, encoding='utf-8').read()
            out, k = pat.subn(lambda m: new_name(m.group(1), classes), src)
            if k:
                ast.parse(out)
                open(p, 'w', encoding='utf-8').write(out)
                n += k
    return n


class _ParamRenamer(ast.NodeTransformer):
    def __init__(self, registry):
        self.registry = registry  # private function name -> set of its parameter names
        self.active: list[set] = []

    def _args_of(self, node):
        a = node.args
        return [x for x in a.posonlyargs + a.args + a.kwonlyargs + ([a.vararg] if a.vararg else []) + ([a.kwarg] if a.kwarg else [])]

    def _visit_scope(self, node, rename_own: bool):
        own = {x.arg for x in self._args_of(node)} - {'self', 'cls'}
        outer = self.active[-1] if self.active else set()
        if rename_own:
            for x in self._args_of(node):
                if x.arg in own:
                    x.arg += '_rn'
            self.active.append(outer | own)
        else:
            self.active.append(outer - own)  # parameters of a public / nested function shadow the renamed names
        a = node.args
        a.defaults = [self.visit(d) for d in a.defaults]
        a.kw_defaults = [self.visit(d) if d is not None else None for d in a.kw_defaults]
        if isinstance(node, ast.Lambda):
            node.body = self.visit(node.body)
        else:
            node.body = [self.visit(st) for st in node.body]
            node.decorator_list = [self.visit(d) for d in node.decorator_list]
        self.active.pop()
        return node

    def visit_FunctionDef(self, node):
        top_private = node.name in self.registry and not self.active
        return self._visit_scope(node, top_private)

    visit_AsyncFunctionDef = visit_FunctionDef

    def visit_Lambda(self, node):
        return self._visit_scope(node, False)

    def visit_ClassDef(self, node):
        saved, self.active = self.active, []
        self.generic_visit(node)
        self.active = saved
        return node

    def visit_Name(self, node):
        if self.active and node.id in self.active[-1]:
            node.id += '_rn'
        return node

    def visit_Call(self, node):
        self.generic_visit(node)
        f = node.func
        name = f.id if isinstance(f, ast.Name) else (f.attr if isinstance(f, ast.Attribute) else None)
        if name in self.registry:
            for kw in node.keywords:
                if kw.arg in self.registry[name]:
                    kw.arg += '_rn'
        return node


def rename_params(root: str) -> int:
    registry: dict = {}
    files = []
    for dp, _, fs in os.walk(os.path.join(root, PKG)):
        for f in fs:
            if f.endswith('.py'):
                p = os.path.join(dp, f)
                tree = ast.parse(open(p, encoding='utf-8').read())
                files.append((p, tree))
                for node in ast.walk(tree):
                    if isinstance(node, ast.FunctionDef | ast.AsyncFunctionDef) and _private(node.name):
                        a = node.args
                        names = {x.arg for x in a.posonlyargs + a.args + a.kwonlyargs} - {'self', 'cls'}
                        registry.setdefault(node.name, set()).update(names)
    # a function that is called with **mapping takes its keywords from data: its parameter names are not free to change
    for _, tree in files:
        for node in ast.walk(tree):
            if isinstance(node, ast.Call) and any(k.arg is None for k in node.keywords):
                f = node.func
                registry.pop(f.id if isinstance(f, ast.Name) else (f.attr if isinstance(f, ast.Attribute) else None), None)
    n = 0
    for p, tree in files:
        new = _ParamRenamer(registry).visit(tree)
        ast.fix_missing_locations(new)
        out = ast.unparse(new)
        ast.parse(out)
        open(p, 'w', encoding='utf-8').write(out + '\n')
        n += 1
    return sum(len(v) for v in registry.values())


def main():
    args = [a for a in sys.argv[1:] if not a.startswith('--')]
    what = args[0] if args else 'all'
    only = next((a.split('=', 1)[1].split(',') for a in sys.argv[1:] if a.startswith('--only=')), None)
    wt = os.path.join(WORK, what)
    if os.path.exists(wt):
        sh(['git', '-C', '/repo', 'worktree', 'remove', '--force', wt])
        shutil.rmtree(wt, ignore_errors=True)
    os.makedirs(WORK, exist_ok=True)
    r = sh(['git', '-C', '/repo', 'worktree', 'add', '--detach', wt, 'HEAD'])
    if r.returncode:
        raise SystemExit(r.stderr)
    # the working tree of /repo (uncommitted hooks etc.) is what the checks see: copy it over
    sh(f'git -C /repo diff HEAD | git -C {wt} apply --allow-empty', timeout=120)
    if what == 'sink':
        sink = open(os.path.join(VERIF, 'selftest', 'fixtures', 'kitchen_sink.py.txt'), encoding='utf-8').read()
        files = set()
        for line in open(os.path.join(VERIF, 'properties.jsonl'), encoding='utf-8'):
            d = json.loads(line)
            files.update(f for f in (d.get('anchors') or d.get('code_anchors') or {}).get('files', []) if f.endswith('.py'))
        for f in sorted(files):
            p = os.path.join(wt, f)
            out = open(p, encoding='utf-8').read() + sink
            open(p, 'w', encoding='utf-8').write(out)  # (Python 3.12 syntax: parsed by the checks' own interpreter, not by this tool's)
        print(f'appended the syntax sink to {len(files)} modules')
    elif what == 'counters':
        # harmless module-level state in every function of every anchored module: a call counter and a bounded call log.  The
        # history rules must stay silent (state that changes no result is no violation).  The rewrite runs under the package's own
        # interpreter (Python 3.12 syntax).
        files = set()
        for line in open(os.path.join(VERIF, 'properties.jsonl'), encoding='utf-8'):
            d = json.loads(line)
            files.update(f for f in (d.get('anchors') or d.get('code_anchors') or {}).get('files', []) if f.endswith('.py'))
        script = r'''
import ast, sys
n = 0
for p in sys.argv[1:]:
    src = open(p, encoding='utf-8').read()
    tree = ast.parse(src)
    lines = src.splitlines(keepends=True)
    ins = []
    for fn in ast.walk(tree):
        if not isinstance(fn, ast.FunctionDef) or fn.col_offset not in (0, 4):
            continue
        if any(isinstance(x, (ast.Yield, ast.YieldFrom)) for x in ast.walk(fn)):
            continue
        k = 1 if (isinstance(fn.body[0], ast.Expr) and isinstance(getattr(fn.body[0], 'value', None), ast.Constant) and isinstance(fn.body[0].value.value, str)) else 0
        if k >= len(fn.body) or any(isinstance(x, (ast.Global, ast.Nonlocal)) for x in ast.walk(fn)):
            continue
        if fn.body[k].lineno <= fn.body[0].lineno - (1 - k) or fn.body[k].lineno == fn.lineno or fn.body[k].col_offset <= fn.col_offset:
            continue  # a body on the line of the def
        st = fn.body[k]
        ind = ' ' * st.col_offset
        first = min([st.lineno] + [d.lineno for d in getattr(st, 'decorator_list', [])])
        ins.append((first - 1, f"{ind}global _VP_CALLS\n{ind}_VP_CALLS += 1\n{ind}_VP_CALL_LOG.append({fn.name!r})\n{ind}del _VP_CALL_LOG[:-8]\n"))
    for ln, text in sorted(ins, reverse=True):
        lines[ln:ln] = [text]
        n += 1
    out = ''.join(lines) + "\n\n_VP_CALLS = 0\n_VP_CALL_LOG: list = []\n"
    try:
        ast.parse(out)
    except SyntaxError as ex:
        raise SystemExit(f'{p}: {ex}')
    open(p, 'w', encoding='utf-8').write(out)
print(n)
'''
        r2 = sh(['/venv/bin/python', '-c', script, *[os.path.join(wt, f) for f in sorted(files)]])
        if r2.returncode:
            raise SystemExit(r2.stderr[-500:])
        print(f'call counter and call log added to {r2.stdout.strip()} functions of {len(files)} modules')
    elif what == 'params':
        n = rename_params(wt)
        print(f'renamed {n} parameters of private functions')
    else:
        names, classes = private_names(wt, what)
        n = rename_tree(wt, names, classes)
        print(f'renamed {len(names)} private names ({what}), {n} occurrences')
    rc = 0
    try:
        if '--suite' in sys.argv:
            cmd = json.load(open('/root/.vp/BASELINE.json'))
            print('suite:', str(cmd)[:300])
        props = only or [f'C{k:02d}' for k in range(1, 21)]

        def one(pid):
            out_dir = os.path.join(WORK, 'out_' + what + '_' + pid)
            os.makedirs(out_dir, exist_ok=True)
            env = dict(os.environ, VERIF_REPO=wt, VERIF_OUT=out_dir, VERIF_NO_SELFTEST='1')
            r = sh([os.path.join(VERIF, 'check'), pid, '--tier', 'quick'], cwd=VERIF, env=env, timeout=3600)
            tail = [ln for ln in (r.stdout + r.stderr).splitlines() if ln.startswith(('FINDING', 'VIOLATION', 'ANALYSIS-ERROR', 'Traceback'))]
            shutil.rmtree(out_dir, ignore_errors=True)
            return pid, r.returncode, tail

        with cf.ThreadPoolExecutor(max_workers=14) as ex:
            for pid, code, tail in ex.map(one, props):
                verdict = 'silent' if code == 0 else ('FALSE-ALARM' if code == 1 else 'ANALYSIS-ERROR')
                print(f'RENAME[{what}] {pid} {verdict} :: ' + ' ; '.join(t[:260] for t in tail[:2]))
                if code:
                    rc = 1
    finally:
        if '--keep' not in sys.argv:
            sh(['git', '-C', '/repo', 'worktree', 'remove', '--force', wt])
            shutil.rmtree(wt, ignore_errors=True)
            sh(['git', '-C', '/repo', 'worktree', 'prune'])
    sys.exit(rc)


if __name__ == '__main__':
    main()
