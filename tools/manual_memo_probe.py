"""Probe: hand-written memo tables instead of functools caches.

For every twin whose patch decorates a module-level function with functools.lru_cache / functools.cache (under any
alias), a scratch copy of /repo gets the twin applied and then every such function rewritten as

    _<NAME>_MEMO: dict = {}

    def name(<same parameters>):
        key = (<parameters>)
        if key not in _<NAME>_MEMO:
            _<NAME>_MEMO[key] = _name_uncached(<parameters>)
        return _<NAME>_MEMO[key]

    def _name_uncached(<same parameters>): <original body>

- the same behaviour, written as module-level state.  The property's check must stay silent: whether a memo table is
sound is decided by histories (two calls in one world), not by the presence of a write to module-level state.

  python3-vt tools/manual_memo_probe.py [--keep] [twin ids...]
  python3-vt tools/manual_memo_probe.py --seeds [seed ids...]    the same rewrite of seeded changes: still detected
"""

from __future__ import annotations

import ast
import concurrent.futures as cf
import json
import os
import shutil
import subprocess
import sys

VERIF = os.path.dirname(os.path.dirname(os.path.abspath(__file__)))
WORK = '/tmp/memoprobe'
PY = '/venv/bin/python'

REWRITE = r'''
import ast, sys

def cache_names(tree):
    names = set()
    mods = set()
    for st in tree.body:
        if isinstance(st, ast.ImportFrom) and st.module == 'functools':
            for a in st.names:
                if a.name in ('lru_cache', 'cache'):
                    names.add(a.asname or a.name)
        elif isinstance(st, ast.Import):
            for a in st.names:
                if a.name == 'functools':
                    mods.add(a.asname or 'functools')
    return names, mods

def is_cache(dec, names, mods):
    f = dec.func if isinstance(dec, ast.Call) else dec
    if isinstance(f, ast.Name):
        return f.id in names
    if isinstance(f, ast.Attribute) and isinstance(f.value, ast.Name):
        return f.value.id in mods and f.attr in ('lru_cache', 'cache')
    return False

changed = 0
for path in sys.argv[1:]:
    src = open(path, encoding='utf-8').read()
    tree = ast.parse(src)
    names, mods = cache_names(tree)
    if not names and not mods:
        continue
    lines = src.splitlines(keepends=True)
    edits = []
    for st in tree.body:
        if not isinstance(st, ast.FunctionDef):
            continue
        decs = [d for d in st.decorator_list if is_cache(d, names, mods)]
        if not decs or len(decs) != len(st.decorator_list):
            continue
        a = st.args
        if a.vararg or a.kwarg:
            continue
        params = [p.arg for p in a.posonlyargs + a.args + a.kwonlyargs]
        memo = '_' + st.name.strip('_').upper() + '_MEMO'
        inner = '_' + st.name.strip('_') + '_uncached'
        sig = ast.unparse(a)
        call = ', '.join([p.arg for p in a.posonlyargs + a.args] + [f'{p.arg}={p.arg}' for p in a.kwonlyargs])
        key = '(' + ''.join(p + ', ' for p in params) + ')'
        body = ''.join(lines[st.body[0].lineno - 1:st.end_lineno])
        new = (f'{memo}: dict = {{}}\n\n\n'
               f'def {st.name}({sig}):\n'
               f'    key = {key}\n'
               f'    if key not in {memo}:\n'
               f'        {memo}[key] = {inner}({call})\n'
               f'    return {memo}[key]\n\n\n'
               f'def {inner}({sig}):\n' + body)
        first = min(d.lineno for d in st.decorator_list)
        edits.append((first - 1, st.end_lineno, new))
    for lo, hi, new in sorted(edits, reverse=True):
        lines[lo:hi] = [new if new.endswith('\n') else new + '\n']
        changed += 1
    if edits:
        out = ''.join(lines)
        ast.parse(out)
        open(path, 'w', encoding='utf-8').write(out)
print(changed)
'''


def sh(cmd, **kw):
    return subprocess.run(cmd, capture_output=True, text=True, **kw)


def twins_with_caches(sub='twins'):
    out = []
    root = os.path.join(VERIF, sub)
    for name in sorted(os.listdir(root)):
        p = os.path.join(root, name, 'patch.diff')
        if not os.path.exists(p):
            continue
        text = open(p, encoding='utf-8').read()
        added = [ln[1:] for ln in text.splitlines() if ln.startswith('+') and not ln.startswith('+++')]
        if any(('lru_cache' in ln or 'functools' in ln or ' cache' in ln) and 'import' in ln for ln in added) and any(ln.lstrip().startswith('@') for ln in added):
            out.append(name)
    return out


def probe(tid, keep=False, root='twins'):
    meta = json.load(open(os.path.join(VERIF, root, tid, 'meta.json')))
    pid = (meta.get('also_check') or [meta['property']])[0]
    d = os.path.join(WORK, tid)
    shutil.rmtree(d, ignore_errors=True)
    os.makedirs(d)
    repo = os.path.join(d, 'repo')
    sh(['rsync', '-a', '--exclude', '.git', '/repo/', repo + '/'])
    r = sh(['patch', '-p1', '-s', '-i', os.path.join(VERIF, root, tid, 'patch.diff')], cwd=repo)
    if r.returncode:
        return tid, 'PATCH-FAILED', r.stdout[-300:]
    files = []
    for dp, _, fns in os.walk(os.path.join(repo, 'src')):
        files += [os.path.join(dp, f) for f in fns if f.endswith('.py')]
    r = sh([PY, '-c', REWRITE, *files])
    n = r.stdout.strip()
    if r.returncode or not n.isdigit():
        return tid, 'REWRITE-FAILED', (r.stderr or r.stdout)[-300:]
    if n == '0':
        shutil.rmtree(d, ignore_errors=True)
        return tid, 'nothing to rewrite', ''
    env = dict(os.environ, VERIF_REPO=repo, VERIF_OUT=os.path.join(d, 'out'), VERIF_NO_SELFTEST='1')
    r = sh([os.path.join(VERIF, 'check'), pid, '--tier', 'quick'], env=env, cwd=VERIF)
    verdict = 'silent' if r.returncode == 0 and 'VIOLATION' not in r.stdout else ('ANALYSIS-ERROR' if r.returncode == 2 else 'FALSE-ALARM')
    detail = ' ; '.join(ln for ln in r.stdout.splitlines() if ln.startswith(('FINDING', 'ANALYSIS-ERROR')))[:600]
    if not keep:
        shutil.rmtree(d, ignore_errors=True)
    return tid, f'{verdict} ({n} functions rewritten)', detail


def main():
    args = [a for a in sys.argv[1:] if not a.startswith('--')]
    keep = '--keep' in sys.argv
    seeds = '--seeds' in sys.argv  # the same rewrite of seeded changes: they must still be detected
    root = 'seeded' if seeds else 'twins'
    ids = args or twins_with_caches(root)
    bad = 0
    with cf.ThreadPoolExecutor(max_workers=8) as ex:
        for tid, verdict, detail in ex.map(lambda t: probe(t, keep, root), ids):
            if seeds:
                verdict = verdict.replace('FALSE-ALARM', 'detected').replace('silent', 'MISSED')
            print(f'MEMO-PROBE {tid} {verdict} :: {detail[:200] if seeds else detail}')
            if verdict.startswith(('FALSE-ALARM', 'ANALYSIS-ERROR', 'PATCH', 'REWRITE', 'MISSED')):
                bad += 1
    shutil.rmtree(WORK, ignore_errors=True) if not keep else None
    print(f'{len(ids)} twins probed, {bad} bad')
    return 1 if bad else 0


if __name__ == '__main__':
    sys.exit(main())
