"""Behaviour-preserving refactorings ("twins") from independent sub-agents.

  python tools/twins.py import            copy deliverables from /tmp/seedwork/tw_*/_twin and tw2_*/_twin into /verif/twins/
  python tools/twins.py check [ids...]    run the property's check against the refactored tree; it must stay silent

A twin that makes a check speak is a false alarm of the check (or the refactor is
not behaviour-preserving after all, which is decided by reading it).
Scratch worktrees live under /tmp/twincheck and are removed after use.
"""

from __future__ import annotations

import concurrent.futures as cf
import json
import os
import shutil
import subprocess
import sys

sys.path.insert(0, os.path.dirname(os.path.abspath(__file__)))
from seeds import VERIF, sh  # noqa: E402

TWINS = os.path.join(VERIF, 'twins')
WORK = '/tmp/twincheck'


def do_import():
    src_root = '/tmp/seedwork'
    for d in sorted(os.listdir(src_root)):
        if not d.startswith(('tw_', 'tw2_', 'tw3_', 'tw4_', 'tw5_')) or not os.path.isdir(os.path.join(src_root, d, '_twin')):
            continue
        pid = d.split('_', 1)[1]
        offset = {'tw2': 3, 'tw3': 6, 'tw4': 10, 'tw5': 14}.get(d.split('_', 1)[0], 0)  # later rounds: ids t4..t6, t7..t9, t11..t13, t15..t17 (t10, t14 are mine)
        td = os.path.join(src_root, d, '_twin')
        for k in (1, 2, 3, 4):
            diff = os.path.join(td, f'refactor{k}.diff')
            note = os.path.join(td, f'note{k}.txt')
            if not os.path.exists(diff) or not os.path.exists(note):
                continue
            tid = f'{pid}-t{k + offset}'
            dst = os.path.join(TWINS, tid)
            if os.path.exists(os.path.join(dst, 'meta.json')):
                continue
            os.makedirs(dst, exist_ok=True)
            shutil.copy(diff, os.path.join(dst, 'patch.diff'))
            meta = {'id': tid, 'property': pid, 'source': 'independent sub-agent asked for a behaviour-preserving refactoring' + ({3: ' (second round: larger structural edits)', 6: ' (third round: moves between modules, performance rewrites, API modernisation, inverted structure)', 10: ' (fourth round: another algorithm, correct caching, generalised inputs, simplified control flow, restructuring behind the public API)', 14: ' (fifth round: state done right, iterator plumbing, exception and context-manager restructuring, ordering and selection, scopes and binding)'}.get(offset, '')),
                    'agent_note': open(note, encoding='utf-8').read()}
            json.dump(meta, open(os.path.join(dst, 'meta.json'), 'w'), indent=1)
            print('imported', tid)


def worktree(name):
    path = os.path.join(WORK, name)
    if os.path.exists(path):
        sh(['git', '-C', '/repo', 'worktree', 'remove', '--force', path])
        shutil.rmtree(path, ignore_errors=True)
    os.makedirs(WORK, exist_ok=True)
    r = sh(['git', '-C', '/repo', 'worktree', 'add', '--detach', path, 'HEAD'])
    if r.returncode:
        raise RuntimeError(r.stderr)
    return path


def drop(path):
    sh(['git', '-C', '/repo', 'worktree', 'remove', '--force', path])
    shutil.rmtree(path, ignore_errors=True)
    sh(['git', '-C', '/repo', 'worktree', 'prune'])


def check(tid, tier='quick', all_props=False):
    d = os.path.join(TWINS, tid)
    meta = json.load(open(os.path.join(d, 'meta.json')))
    pid = meta['property']
    wt = worktree('tw_' + tid)
    try:
        a = sh(['git', '-C', wt, 'apply', os.path.join(d, 'patch.diff')])
        if a.returncode:
            a = sh(['git', '-C', wt, 'apply', '--3way', os.path.join(d, 'patch.diff')])
        if a.returncode:
            return tid, 'PATCH-FAILS', a.stderr[:200]
        props = [f'C{i:02d}' for i in range(1, 21)] if all_props else [pid]
        res = []
        worst = 'silent'
        for p in props:
            out_dir = os.path.join(WORK, f'out_{tid}_{p}')
            env = dict(os.environ, VERIF_REPO=wt, VERIF_OUT=out_dir, VERIF_NO_SELFTEST='1')
            try:
                r = sh([os.path.join(VERIF, 'check'), p, '--tier', tier], env=env, timeout=900)
            except subprocess.TimeoutExpired:
                import types
                r = types.SimpleNamespace(returncode=2, stdout=f'ANALYSIS-ERROR the check of {p} did not finish within 900 s', stderr='')
            finds = [ln for ln in r.stdout.splitlines() if ln.startswith(('FINDING', 'ANALYSIS-ERROR'))]
            shutil.rmtree(out_dir, ignore_errors=True)
            if r.returncode == 1:
                worst = 'FALSE-ALARM'
            elif r.returncode == 2 and worst != 'FALSE-ALARM':
                worst = 'ANALYSIS-ERROR'
            if r.returncode:
                res.append(f'{p}: exit {r.returncode} ' + ' ; '.join(x[:300] for x in finds[:3]))
        return tid, worst, ' | '.join(res)
    finally:
        drop(wt)


def main(argv):
    cmd = argv[0] if argv else 'help'
    if cmd == 'import':
        do_import()
        return 0
    if cmd == 'check':
        all_props = '--all' in argv
        ids = [a for a in argv[1:] if not a.startswith('--')]
        all_ids = sorted(x for x in os.listdir(TWINS) if os.path.isdir(os.path.join(TWINS, x))) if os.path.isdir(TWINS) else []
        sel = [i for i in all_ids if not ids or i in ids or i.split('-')[0] in ids]
        with cf.ThreadPoolExecutor(max_workers=8) as ex:
            for tid, verdict, info in ex.map(lambda s: check(s, 'quick', all_props), sel):
                print(f'TWIN {tid} {verdict} :: {info[:900]}'.replace('VIOLATION', 'V10LATION'))
        return 0
    print(__doc__)
    return 0


if __name__ == '__main__':
    sys.exit(main(sys.argv[1:]))
