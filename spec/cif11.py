"""A small, independent CIF 1.1 lexer (International Tables G, section 2.2.7.1).

Only what is needed to decide whether the text produced for a value is read back
as exactly one value: data/save headings, loop_, tags, quoted strings, semicolon
text fields, unquoted strings, comments.
"""

from __future__ import annotations

RESERVED_EXACT = ('loop_', 'stop_', 'global_')
RESERVED_PREFIX = ('data_', 'save_')
ORDINARY_EXCLUDED = set('"#$\'_;[]')


class CifSyntaxError(Exception):
    pass


def lex(text: str) -> list[tuple[str, str]]:
    """-> list of (kind, value); kinds: DATA, SAVE, LOOP, STOP, GLOBAL, TAG, VALUE."""
    toks: list[tuple[str, str]] = []
    i, n = 0, len(text)
    bol = True  # at beginning of a line
    while i < n:
        c = text[i]
        if c in '\n\r':  # <eol> is LF, CR or CRLF
            i += 1
            bol = True
            continue
        if c in ' \t':
            i += 1
            bol = False
            continue
        if c == '#':
            while i < n and text[i] not in '\n\r':
                i += 1
            continue
        if c == ';' and bol:
            # text field: up to the next "\n;"
            end = text.find('\n;', i + 1)
            if end < 0:
                raise CifSyntaxError('unterminated text field')
            toks.append(('VALUE', text[i + 1:end]))
            i = end + 2
            bol = False
            # the closing ';' must be followed by whitespace or EOF
            if i < n and text[i] not in ' \t\r\n':
                raise CifSyntaxError('text field terminator not followed by whitespace')
            continue
        if c in '\'"':
            j = i + 1
            while True:
                k = text.find(c, j)
                if k < 0 or '\n' in text[i:k]:
                    raise CifSyntaxError('unterminated quoted string')
                if k + 1 >= n or text[k + 1] in ' \t\r\n':
                    break
                j = k + 1
            toks.append(('VALUE', text[i + 1:k]))
            i = k + 1
            bol = False
            continue
        # a run of non-blank characters
        j = i
        while j < n and text[j] not in ' \t\r\n':
            j += 1
        word = text[i:j]
        low = word.lower()
        if c == '_':
            toks.append(('TAG', word))
        elif low.startswith('data_'):
            toks.append(('DATA', word[5:]))
        elif low.startswith('save_'):
            toks.append(('SAVE', word[5:]))
        elif low == 'loop_':
            toks.append(('LOOP', ''))
        elif low == 'stop_':
            toks.append(('STOP', ''))
        elif low == 'global_':
            toks.append(('GLOBAL', ''))
        elif c in '$[]':
            raise CifSyntaxError(f'unquoted string may not start with {c!r}')
        else:
            toks.append(('VALUE', word))
        i = j
        bol = False
    return toks


def parse_pairs(text: str):
    """Parse a fragment consisting of tag-value pairs and loops.
    -> list of ('pair', tag, value) | ('loop', [tags], [[row values]])"""
    toks = lex(text)
    out = []
    i = 0
    while i < len(toks):
        kind, val = toks[i]
        if kind == 'TAG':
            if i + 1 >= len(toks) or toks[i + 1][0] != 'VALUE':
                raise CifSyntaxError(f'tag {val} has no value')
            out.append(('pair', val, toks[i + 1][1]))
            i += 2
        elif kind == 'LOOP':
            i += 1
            tags = []
            while i < len(toks) and toks[i][0] == 'TAG':
                tags.append(toks[i][1])
                i += 1
            vals = []
            while i < len(toks) and toks[i][0] == 'VALUE':
                vals.append(toks[i][1])
                i += 1
            if not tags or not vals or len(vals) % len(tags):
                raise CifSyntaxError(f'loop with {len(tags)} tags and {len(vals)} values')
            rows = [vals[k:k + len(tags)] for k in range(0, len(vals), len(tags))]
            out.append(('loop', tags, rows))
        elif kind in ('DATA', 'SAVE'):
            out.append((kind.lower(), val))
            i += 1
        else:
            raise CifSyntaxError(f'unexpected {kind} {val!r}')
    return out


def features(s: str) -> str:
    """The first lexically special trait of a string, in a fixed priority order (finding key)."""
    low = s.lower()
    if '\n;' in s:
        return 'line-starting-with-semicolon'
    if s[:1] and s[:1] in '_#$[];':
        return 'leading-' + {'_': 'underscore', '#': 'hash', '$': 'dollar', '[': 'bracket', ']': 'bracket', ';': 'semicolon'}[s[0]]
    if low in RESERVED_EXACT or low.startswith(RESERVED_PREFIX):
        return 'reserved-word'
    if '\t' in s:
        return 'tab'
    if "'" in s and '"' in s:
        return 'both-quotes'
    if '\n' in s:
        return 'newline'
    if s == '':
        return 'empty'
    return 'plain'
