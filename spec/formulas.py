"""Documented formulas (oracles), transcribed from the property statements and
the module docstrings they quote.  Built with the term constructors after the
interpreter's atom table was reset, so symbols are shared by name.
"""

from __future__ import annotations

from sa import term as T
from sa.term import Mat, Rat, Vec


def S(name, positive=True):
    return Rat.sym(name, positive=positive)


def h():
    return S('h')


def m_n():
    return S('m_n')


def pi():
    return S('pi')


def sin_theta():
    return T.FN_CTORS['sin'](S('two_theta') / 2)


# ---- C01: closed forms of the 9 scalar kernels in their own parameters ------
def kernel_formulas():
    tof, L, E, lam, Q = S('tof'), S('Ltotal'), S('energy'), S('wavelength'), S('Q')
    st = sin_theta()
    return {
        'wavelength_from_tof': h() * tof / (m_n() * L),
        'dspacing_from_tof': h() * tof / (m_n() * L * 2 * st),
        'energy_from_tof': m_n() * L**2 / (2 * tof**2),
        'energy_from_wavelength': h() ** 2 / (2 * m_n() * lam**2),
        'wavelength_from_energy': h() / T.sqrt(2 * m_n() * E),
        'Q_from_wavelength': 4 * pi() * st / lam,
        'wavelength_from_Q': 4 * pi() * st / Q,
        'dspacing_from_wavelength': lam / (2 * st),
        'dspacing_from_energy': h() / (T.sqrt(8 * m_n() * E) * st),
    }


# ---- definitions D(q) of every graph quantity in leaf quantities ------------
def unit_vec(name):
    v = Vec.sym(name)
    return v / T.norm(v)


def definitions():
    """D(q): the documented definition of quantity q for one neutron, in the leaf
    quantities tof, Ltotal, two_theta, incident_beam, scattered_beam, pulse_time,
    L2, u_matrix, b_matrix, sample_rotation."""
    tof, L = S('tof'), S('Ltotal')
    lam = h() * tof / (m_n() * L)
    st = sin_theta()
    qvec = (unit_vec('incident_beam') - unit_vec('scattered_beam')) * (2 * pi() / lam)
    ub = Mat.sym('u_matrix') * Mat.sym('b_matrix')
    hkl = (Mat.sym('sample_rotation') * ub).inv() * qvec / (2 * pi())
    D = {
        'tof': tof,
        'Ltotal': L,
        'two_theta': S('two_theta'),
        'L2': S('L2'),
        'pulse_time': S('pulse_time', positive=False),
        'incident_beam': Vec.sym('incident_beam'),
        'scattered_beam': Vec.sym('scattered_beam'),
        'u_matrix': Mat.sym('u_matrix'),
        'b_matrix': Mat.sym('b_matrix'),
        'sample_rotation': Mat.sym('sample_rotation'),
        'wavelength': lam,
        'energy': m_n() * L**2 / (2 * tof**2),
        'dspacing': lam / (2 * st),
        'Q': 4 * pi() * st / lam,
        'Qx': T.comp(qvec, 'x'),
        'Qy': T.comp(qvec, 'y'),
        'Qz': T.comp(qvec, 'z'),
        'Q_vec': qvec,
        'ub_matrix': ub,
        'hkl_vec': hkl,
        'h': T.comp(hkl, 'x'),
        'k': T.comp(hkl, 'y'),
        'l': T.comp(hkl, 'z'),
        'time_at_sample': S('pulse_time', positive=False) + tof - S('L2') * lam * m_n() / h(),
    }
    return D


def param_atom(name: str):
    """The atom standing for parameter `name` (scalar, vector or matrix)."""
    for kind in ('sym', 'vsym', 'msym'):
        for a in T.TABLE.by_key.get((kind, name), ()):
            return a
    return None


# ---- C03 / C04: geometry -------------------------------------------------------
def V(name):
    return Vec.sym(name)


def kahan_angle(b1: Vec, b2: Vec) -> Rat:
    """2*atan2(|e1 - e2|, |e1 + e2|) with e_i = b_i/|b_i| (W. Kahan, Cross.pdf par. 13)."""
    e1, e2 = b1 / T.norm(b1), b2 / T.norm(b2)
    return 2 * T.fn_atan2(T.norm(e1 - e2), T.norm(e1 + e2))


def cross_dot_angle(b1: Vec, b2: Vec) -> Rat:
    """The other epsilon-accurate form: atan2(|b1 x b2|, b1 . b2)."""
    return T.fn_atan2(T.norm(T.cross(b1, b2)), T.dot(b1, b2))


def geometry_definitions():
    src, smp, pos = V('source_position'), V('sample_position'), V('position')
    b1, b2 = smp - src, pos - smp
    return {
        'incident_beam': b1,
        'scattered_beam': b2,
        'L1': T.norm(b1),
        'L2': T.norm(b2),
        'Ltotal': T.norm(b1) + T.norm(b2),
        'two_theta': kahan_angle(b1, b2),
        'Ltotal_no_scatter': T.norm(pos - src),
    }


def beam_frame(b1: Vec, g: Vec):
    """Beam-aligned unit vectors as documented: ey = -g/|g|, ez = proj/|proj|, ex = ey x ez."""
    ey = -g / T.norm(g)
    z = b1 - ey * T.dot(b1, ey)
    ez = z / T.norm(z)
    ex = T.cross(ey, ez)
    return ex, ey, ez


def gravity_drop(L2: Rat, lam: Rat, g: Vec) -> Rat:
    """delta = |g| m_n^2 lambda^2 L2^2 / (2 h^2)"""
    return T.norm(g) * m_n() ** 2 * lam**2 * L2**2 / (2 * h() ** 2)
