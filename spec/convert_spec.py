"""Oracle for C02: which coordinates each documented quantity needs.

Written from the formulas in the documentation of scippneutron.conversion.tof /
.beamline and the user-guide page on coordinate transformations, NOT from the
graph tables.  A clause `q <- p1, .., pn` reads "q can be computed from p1..pn".
"""

from __future__ import annotations

ORIGINS = ('tof', 'wavelength', 'energy', 'Q')
SUBSET_COORDS = ('position', 'source_position', 'sample_position', 'incident_beam', 'scattered_beam',
                 'L1', 'L2', 'Ltotal', 'two_theta', 'incident_energy', 'final_energy')

GEOMETRY_SCATTER = {
    'incident_beam': ('source_position', 'sample_position'),
    'scattered_beam': ('position', 'sample_position'),
    'L1': ('incident_beam',),
    'L2': ('scattered_beam',),
    'two_theta': ('incident_beam', 'scattered_beam'),
    'Ltotal': ('L1', 'L2'),
}
GEOMETRY_NO_SCATTER = {'Ltotal': ('source_position', 'position')}

# elastic dynamics per origin (documented conversions that start from that coordinate)
_VECTOR_Q = {
    'Q': ('wavelength', 'two_theta'),
    'Qx': ('wavelength', 'incident_beam', 'scattered_beam'),
    'Qy': ('wavelength', 'incident_beam', 'scattered_beam'),
    'Qz': ('wavelength', 'incident_beam', 'scattered_beam'),
    'Q_vec': ('Qx', 'Qy', 'Qz'),
    'ub_matrix': ('u_matrix', 'b_matrix'),
    'hkl_vec': ('Q_vec', 'ub_matrix', 'sample_rotation'),
    'h': ('hkl_vec',), 'k': ('hkl_vec',), 'l': ('hkl_vec',),
}
ELASTIC = {
    'tof': {
        'wavelength': ('tof', 'Ltotal'),
        'energy': ('tof', 'Ltotal'),
        'dspacing': ('tof', 'Ltotal', 'two_theta'),
        'time_at_sample': ('pulse_time', 'tof', 'L2', 'wavelength'),
        **_VECTOR_Q,
    },
    'wavelength': {
        'energy': ('wavelength',),
        'dspacing': ('wavelength', 'two_theta'),
        **_VECTOR_Q,
    },
    'energy': {
        'wavelength': ('energy',),
        'dspacing': ('energy', 'two_theta'),
    },
    'Q': {
        'wavelength': ('Q', 'two_theta'),
    },
}
# without scattering only the kinematic conversions from tof are offered
NO_SCATTER_DYNAMICS = {'wavelength': ('tof', 'Ltotal'), 'energy': ('tof', 'Ltotal')}
INELASTIC = {
    'direct_inelastic': {'energy_transfer': ('tof', 'L1', 'L2', 'incident_energy')},
    'indirect_inelastic': {'energy_transfer': ('tof', 'L1', 'L2', 'final_energy')},
}


def expected_mode(coords: set, origin: str, target: str):
    """'elastic' | 'direct_inelastic' | 'indirect_inelastic' | 'error'"""
    ei, ef = 'incident_energy' in coords, 'final_energy' in coords
    if target == 'energy_transfer':
        if ei and ef or not (ei or ef):
            return 'error'
        return 'direct_inelastic' if ei else 'indirect_inelastic'
    if 'energy' in (origin, target) and (ei or ef):
        return 'error'
    return 'elastic'


def clauses(origin: str, target: str, scatter: bool, mode: str) -> dict:
    if not scatter:
        return {**GEOMETRY_NO_SCATTER, **NO_SCATTER_DYNAMICS}
    if mode == 'elastic':
        if target in GEOMETRY_SCATTER:
            return dict(GEOMETRY_SCATTER)
        return {**GEOMETRY_SCATTER, **ELASTIC[origin]}
    return {**GEOMETRY_SCATTER, **INELASTIC[mode]}


def derivable(target: str, have: set, cl: dict) -> tuple[bool, str | None]:
    """Closure with 'supplied beats derivable'. Returns (ok, first missing name)."""
    seen: set = set()

    def go(name, stack):
        if name in have or name in seen:
            return None
        if name in stack or name not in cl:
            return name
        for p in cl[name]:
            miss = go(p, stack | {name})
            if miss is not None:
                return miss
        seen.add(name)
        return None

    miss = go(target, frozenset())
    return miss is None, miss


def all_targets() -> list[str]:
    names = set(GEOMETRY_SCATTER) | {'energy_transfer'}
    for g in ELASTIC.values():
        names |= set(g)
    return sorted(names) + ['no_such_coordinate']
