"""Independent decoder of the SQW container layout (Horace binary format v4), operating on the
abstract file of sa/absio.py: a list of byte units, each a concrete byte or (cell, k) for the
k-th byte of a floating-point cell with a symbolic value.

Written from the format description, not from the package's reader:

  file header     char_array prog_name, f64 prog_version, u32 sqw_type, u32 n_dims
  block table     u32 size_in_bytes (of what follows), u32 n_blocks, then per block
                  char_array block_type, char_array name[0], char_array name[1], u64 position, u32 size, u32 locked
  regular block   one object array
  object array    [u8 32 (self-serialising object, no shape)]? u8 type_tag, u8 n_dims, u32 * n_dims shape, payload
                  logical(0): volume bytes; char(1): volume(shape[1:]) strings of shape[0] bytes; f64(3): volume doubles;
                  cell(23): volume object arrays; struct(24): u32 n_fields, u32 name_len * n_fields, names, then a cell
                  array holding the field values of all structs (struct-major)
  pixel block     u32 n_rows, u64 n_pixels, n_rows * n_pixels float32 (pixel-major)
  histogram block u32 n_dims, u32 * n_dims, then prod(shape) doubles, doubles, u64
"""

from __future__ import annotations

import math
import struct

SIZES = {'float64': 8, 'float32': 4, 'uint64': 8}
CODES = {'float64': 'd', 'float32': 'f', 'uint64': 'Q'}


class FormatError(Exception):
    pass


class Cursor:
    def __init__(self, units, order: str, pos: int = 0):
        self.units, self.order, self.pos = units, order, pos  # order: '<' or '>'

    def take(self, n: int, what: str):
        if self.pos + n > len(self.units):
            raise FormatError(f'{what}: {n} bytes needed at offset {self.pos}, file has {len(self.units)}')
        out = self.units[self.pos:self.pos + n]
        self.pos += n
        return out

    def _int(self, n: int, what: str) -> int:
        u = self.take(n, what)
        if not all(isinstance(b, int) for b in u):
            raise FormatError(f'{what} at offset {self.pos - n} overlaps floating-point data')
        return int.from_bytes(bytes(u), 'little' if self.order == '<' else 'big')

    def u8(self, what='u8'):
        return self._int(1, what)

    def u32(self, what='u32'):
        return self._int(4, what)

    def u64(self, what='u64'):
        return self._int(8, what)

    def chars(self, n: int, what='string') -> str:
        u = self.take(n, what)
        if not all(isinstance(b, int) for b in u):
            raise FormatError(f'{what} at offset {self.pos - n} overlaps floating-point data')
        try:
            return bytes(u).decode('utf-8')
        except UnicodeDecodeError as ex:
            raise FormatError(f'{what} at offset {self.pos - n}: {n} bytes do not hold whole characters ({ex.reason})') from None

    def char_array(self, what='char array') -> str:
        return self.chars(self.u32(what + ' length'), what)

    def number(self, dtype: str, what: str):
        """A float64 / float32 / uint64: a python number or the symbolic value of the cell."""
        n = SIZES[dtype]
        at = self.pos
        u = self.take(n, what)
        if all(isinstance(b, int) for b in u):
            return struct.unpack(self.order + CODES[dtype], bytes(u))[0]
        cells = {id(x[0]) for x in u if not isinstance(x, int)}
        if any(isinstance(x, int) for x in u) or len(cells) != 1 or [x[1] for x in u] != list(range(n)):
            raise FormatError(f'{what} at offset {at}: {dtype} does not line up with the numbers written')
        cell = u[0][0]
        if cell.dtype != dtype:
            raise FormatError(f'{what} at offset {at}: stored as {cell.dtype}, the format says {dtype}')
        if cell.order != self.order:
            raise FormatError(f'{what} at offset {at}: stored with byte order {cell.order}, file is {self.order}')
        return cell.value

    def array(self, dtype: str, count: int, what: str) -> list:
        return [self.number(dtype, f'{what}[{i}]') for i in range(count)]


def detect_order(units) -> str:
    """The first field is the length of the program name, a small number: take the order that makes it small."""
    head = units[:4]
    if len(head) < 4 or not all(isinstance(b, int) for b in head):
        raise FormatError('file does not start with a 4-byte length')
    le, be = int.from_bytes(bytes(head), 'little'), int.from_bytes(bytes(head), 'big')
    return '<' if le < be else '>'


def file_header(c: Cursor) -> dict:
    return {'prog_name': c.char_array('prog_name'), 'prog_version': c.number('float64', 'prog_version'),
            'sqw_type': c.u32('sqw_type'), 'n_dims': c.u32('n_dims')}


def block_table(c: Cursor) -> dict:
    size = c.u32('table size')
    begin = c.pos
    n = c.u32('block count')
    if 28 * n > len(c.units) - c.pos:
        raise FormatError(f'block table declares {n} blocks, only {len(c.units) - c.pos} bytes are left')
    blocks = []
    for i in range(n):
        b = {'block_type': c.char_array(f'block {i} type'), 'name': (c.char_array(f'block {i} name[0]'), c.char_array(f'block {i} name[1]')),
             'position': c.u64(f'block {i} position'), 'size': c.u32(f'block {i} size'), 'locked': c.u32(f'block {i} locked')}
        blocks.append(b)
    return {'declared_size': size, 'actual_size': c.pos - begin, 'blocks': blocks, 'end': c.pos}


def volume(shape) -> int:
    return int(math.prod(shape))


def object_array(c: Cursor, depth: int = 0) -> dict:
    if depth > 12:
        raise FormatError('object arrays nested deeper than 12')
    at = c.pos
    tag = c.u8('type tag')
    if tag == 32:
        inner = object_array(c, depth + 1)
        inner['self_serialising'] = True
        return inner
    nd = c.u8('number of dimensions')
    shape = tuple(c.u32(f'shape[{i}]') for i in range(nd))
    out = {'tag': tag, 'shape': shape, 'at': at}
    left = len(c.units) - c.pos
    need = {0: volume(shape), 1: volume(shape) if shape else 0, 3: 8 * volume(shape), 23: 2 * volume(shape)}.get(tag, 0)
    if need > left:
        raise FormatError(f'object array at offset {at} (tag {tag}, shape {shape}) needs at least {need} bytes, {left} are left')
    if tag == 0:
        out['data'] = [c.u8('logical') != 0 for _ in range(volume(shape))]
    elif tag == 1:
        out['data'] = [c.chars(shape[0], 'characters') for _ in range(volume(shape[1:]))] if shape else ['']
    elif tag == 3:
        out['data'] = c.array('float64', volume(shape), 'f64 data')
    elif tag == 23:
        out['data'] = [object_array(c, depth + 1) for _ in range(volume(shape))]
    elif tag == 24:
        if not shape:
            out['data'] = []
            return out
        n_fields = c.u32('number of fields')
        if 4 * n_fields > len(c.units) - c.pos:
            raise FormatError(f'struct at offset {at} declares {n_fields} fields, only {len(c.units) - c.pos} bytes are left')
        lens = [c.u32(f'length of field name {i}') for i in range(n_fields)]
        names = [c.chars(n, f'field name {i}') for i, n in enumerate(lens)]
        values = object_array(c, depth + 1)
        n_structs = volume(shape)
        want_shape = (n_fields, 1) if n_structs == 1 else (n_fields, 1, n_structs)
        if values['tag'] != 23:
            raise FormatError(f'struct at offset {at}: field values are not a cell array (tag {values["tag"]})')
        if values['shape'] not in (want_shape, (n_fields, 1, *shape)):
            raise FormatError(f'struct at offset {at}: {n_structs} struct(s) with {n_fields} fields need a cell array of shape {want_shape}, found {values["shape"]}')
        out['data'] = [dict(zip(names, values['data'][k * n_fields:(k + 1) * n_fields], strict=True)) for k in range(n_structs)]
        out['field_names'] = names
    else:
        raise FormatError(f'type tag {tag} at offset {at} is not part of the format')
    return out


def pixel_block(c: Cursor) -> dict:
    n_rows = c.u32('n_rows')
    n_pix = c.u64('n_pixels')
    if 4 * n_rows * n_pix > len(c.units) - c.pos or (n_rows == 0 and n_pix > 0) or n_pix > len(c.units):
        raise FormatError(f'pixel block declares {n_rows} x {n_pix} float32, only {len(c.units) - c.pos} bytes are left')
    flat = c.array('float32', n_rows * n_pix, 'pixel data')
    return {'n_rows': n_rows, 'n_pixels': n_pix, 'pixels': [flat[p * n_rows:(p + 1) * n_rows] for p in range(n_pix)]}


def histogram_block(c: Cursor) -> dict:
    nd = c.u32('histogram n_dims')
    shape = tuple(c.u32(f'histogram shape[{i}]') for i in range(nd))
    n = volume(shape)
    if 24 * n > len(c.units) - c.pos:
        raise FormatError(f'histogram block of shape {shape} needs {24 * n} bytes, only {len(c.units) - c.pos} are left')
    return {'shape': shape, 'values': c.array('float64', n, 'histogram values'), 'errors': c.array('float64', n, 'histogram errors'),
            'counts': c.array('uint64', n, 'histogram counts')}


# ---- convenience views of decoded object arrays -----------------------------------------------------
def scalar(node):
    """The single value of a field (string, number, bool)."""
    if node['tag'] == 1:
        return node['data'][0] if node['data'] else ''
    if len(node['data']) != 1:
        raise FormatError(f'field at offset {node["at"]} holds {len(node["data"])} values, one expected')
    return node['data'][0]


def the_struct(node) -> dict:
    if node['tag'] != 24 or len(node['data']) != 1:
        raise FormatError(f'object at offset {node["at"]} is not a single struct')
    return node['data'][0]


# (serial name, version) of every serialised class of the documented layout (Horace 4.0): a file that carries another version number
# decodes structurally but is a different format for every other reader
STRUCT_VERSIONS = {
    'main_header_cl': 2.0, 'line_axes': 7.0, 'line_proj': 7.0, 'dnd_metadata': 1.0, 'pix_metadata': 1.0, 'IX_source': 2.0, 'IX_null_inst': 2.0,
    'IX_sample': 3.0, 'IX_experiment': 3.0, 'unique_references_container': 1.0, 'unique_objects_container': 1.0,
}


def version_problems(node, out=None) -> list:
    """Every struct that names its class carries the version of the documented layout."""
    out = [] if out is None else out
    if isinstance(node, dict) and 'tag' in node:
        if node['tag'] == 24:
            for st in node['data']:
                if 'serial_name' in st and 'version' in st:
                    try:
                        name, ver = scalar(st['serial_name']), scalar(st['version'])
                    except FormatError as ex:
                        out.append(str(ex))
                        name = None
                    if name is not None:
                        if name not in STRUCT_VERSIONS:
                            out.append(f'struct of unknown class {name!r} at offset {node["at"]}')
                        elif not isinstance(ver, int | float) or float(ver) != STRUCT_VERSIONS[name]:
                            out.append(f'{name} written with version {ver!r}, the documented layout is version {STRUCT_VERSIONS[name]}')
                        # a single object of one of the IX_ classes serialises itself: it is preceded by the marker byte 32; nothing else is
                        if len(node['data']) == 1 and name.startswith('IX_') != bool(node.get('self_serialising')):
                            out.append(f'{name} at offset {node["at"]}: ' + ('the self-serialising marker (32) is missing' if name.startswith('IX_') else 'unexpected self-serialising marker (32)'))
                for v in st.values():
                    version_problems(v, out)
        elif node['tag'] == 23:
            for v in node['data']:
                version_problems(v, out)
    return out
