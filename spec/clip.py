"""Reference model of a chopper acting on a (time, wavelength) polygon.

Points are pairs of exact terms (sa.term.Rat); decisions are taken at a witness point
(symbol -> Fraction).  Written from the definition (intersection of a convex polygon with a
half-plane t >= T or t <= T), independently of the package.
"""

from __future__ import annotations

from fractions import Fraction as F

from sa import term as T
from sa.term import Rat


def ev(t: Rat, val) -> F:
    return T.evaluate(t, val)


def half_plane(points, cut: Rat, keep_later: bool, val):
    """Polygon ∩ {t >= cut} (keep_later) or ∩ {t <= cut}.  Vertices keep their order."""
    n = len(points)
    if n == 0:
        return []
    c = ev(cut, val)
    side = []
    for t, _w in points:
        d = ev(t, val) - c
        side.append(d >= 0 if keep_later else d <= 0)
    out = []
    for i in range(n):
        j = (i + 1) % n
        (ti, wi), (tj, wj) = points[i], points[j]
        if side[i]:
            out.append((ti, wi))
        if side[i] != side[j]:
            # the boundary point of edge i->j on the line t = cut
            s = (cut - ti) / (tj - ti)
            out.append((cut, wi + s * (wj - wi)))
    return out


def window(points, t_open: Rat, t_close: Rat, val):
    return half_plane(half_plane(points, t_open, True, val), t_close, False, val)


def shear(points, delta: Rat, alpha: Rat):
    """Free flight over `delta`: t -> t + delta * w * alpha (alpha = m_n/h), w unchanged."""
    return [(t + delta * w * alpha, w) for t, w in points]


def numeric(points, val):
    return [(ev(t, val), ev(w, val)) for t, w in points]


def dedupe(pts):
    """Drop consecutive (cyclically) equal numeric points."""
    out = []
    for p in pts:
        if not out or out[-1] != p:
            out.append(p)
    while len(out) > 1 and out[0] == out[-1]:
        out.pop()
    return out


def area2(pts) -> F:
    s = F(0)
    for i in range(len(pts)):
        (x1, y1), (x2, y2) = pts[i], pts[(i + 1) % len(pts)]
        s += x1 * y2 - x2 * y1
    return s


def same_cyclic(a, b, eq) -> bool:
    if len(a) != len(b):
        return False
    if not a:
        return True
    n = len(a)
    for r in range(n):
        if all(eq(a[(i + r) % n], b[i]) for i in range(n)):
            return True
    return False


def same_polygon_numeric(a, b) -> bool:
    """Equal as polygons: same vertices in the same cyclic order after removing repeated points;
    degenerate (zero-area) leftovers are compared as point sets."""
    a, b = dedupe(a), dedupe(b)
    if same_cyclic(a, b, lambda p, q: p == q):
        return True
    if area2(a) == 0 and area2(b) == 0:
        return set(a) == set(b)
    return False


def same_polygon_symbolic(a, b) -> bool:
    return same_cyclic(a, b, lambda p, q: p[0].eq(q[0]) and p[1].eq(q[1]))


def in_convex(p, poly) -> bool:
    """Point in the closed convex polygon (vertices in either orientation; degenerate polygons are segments / points)."""
    pts = dedupe(poly)
    if not pts:
        return False
    if len(pts) == 1:
        return p == pts[0]
    sign = 0
    n = len(pts)
    for i in range(n):
        (x1, y1), (x2, y2) = pts[i], pts[(i + 1) % n]
        cross = (x2 - x1) * (p[1] - y1) - (y2 - y1) * (p[0] - x1)
        if cross != 0:
            s = 1 if cross > 0 else -1
            if sign and s != sign:
                return False
            sign = s
    if sign == 0:  # all collinear: on the segment?
        xs, ys = [q[0] for q in pts], [q[1] for q in pts]
        return min(xs) <= p[0] <= max(xs) and min(ys) <= p[1] <= max(ys)
    return True


def same_region(got: list, want: list) -> tuple[bool, object]:
    """The unions of two lists of convex polygons (numeric vertices) contain the same points, decided on a probe set: every vertex,
    every midpoint of two vertices of one polygon and every centroid, of either list.  (A neutron is transmitted iff its point lies in
    one of the polygons: how the region is cut into polygons is not part of the statement.)"""
    probes = []
    for poly in list(got) + list(want):
        pts = dedupe(poly)
        if not pts or area2(pts) == 0:
            continue  # a zero-area leftover transmits nothing
        probes.extend(pts)
        for i in range(len(pts)):
            for j in range(i + 1, len(pts)):
                probes.append(((pts[i][0] + pts[j][0]) / 2, (pts[i][1] + pts[j][1]) / 2))
        probes.append((sum(q[0] for q in pts) / len(pts), sum(q[1] for q in pts) / len(pts)))
    solid = lambda polys: [q for q in polys if dedupe(q) and area2(dedupe(q)) != 0]  # noqa: E731
    g, w = solid(got), solid(want)
    for p in probes:
        a, b = any(in_convex(p, q) for q in g), any(in_convex(p, q) for q in w)
        if a != b:
            return False, {'point': (float(p[0]), float(p[1])), 'in_reported_polygons': a, 'in_reference_region': b}
    return True, {}
