"""C05 — inelastic energy transfer conserves energy; NaN exactly for unphysical times."""

from __future__ import annotations

import itertools

from sa import term as T
from sa.interp import FuncRef, Interp, SVar
from sa.kernel import P, make_param, run_kernel, specs_for
from sa.load import AnalysisError, Repo, loc
from sa.report import Run
from sa.scipp_model import Model
from sa.term import Rat
from sa.units import Unit
from spec.formulas import S, m_n

from .common import eq_term, events, history_free, kernel_histories, returns, show, term_of

CASES = {
    # kernel: (given energy, leg of the fixed energy, other leg, sign: +1 => Efixed - E(other))
    'energy_transfer_direct_from_tof': ('incident_energy', 'L1', 'L2', +1),
    'energy_transfer_indirect_from_tof': ('final_energy', 'L2', 'L1', -1),
}


def where_parts(t: Rat, fi):
    """Decompose a result `where(cond, a, b)`."""
    if not (t.den is T.ONE_P and len(t.num) == 1):
        raise AnalysisError(f'{fi.fq}: result is not a single where(...) term')
    (m, c), = t.num.items()
    if c != 1 or len(m) != 1 or m[0][1] != 1:
        return None
    a = T.A(m[0][0])
    if a.kind != 'fn' or a.name != 'where':
        return None
    return a.args


def run(tier: str) -> Run:
    run = Run('C05', tier, 'other',
              'The two inelastic kernels are interpreted to exact normal forms.  Decided: (R1) the '
              'value arm equals the documented formula with t0 taken from the leg that carries the '
              'fixed energy; (R2) substituting the arrival time t = L1/v(Ei) + L2/v(Ef) makes both '
              'kernels equal Ei - Ef identically (energy conservation); (R3) the result has the shape '
              'where(dt <= 0, NaN, value) with a non-strict comparison on the very dt whose square is '
              'the only input-dependent divisor of the value arm, so no selected element divides by '
              'zero; (R4) NaN arm and value arm agree in unit and dtype and the result unit is that '
              'of the supplied energy; (R5) the inelastic graph factories wire exactly these kernels. '
              'Overflow for |dt| near the smallest normal number is a runtime magnitude and not decided.')
    repo = Repo()
    run.analysed = {'modules': ['conversion.tof', 'conversion.graph.tof'], 'digest': repo.digest.hexdigest()}
    run.trusted = ['sa/scipp_model.py', 'sa/term.py']
    run.assumptions = ['energies and lengths are positive (sqrt of a square is the identity)']
    r1 = run.rule('R1', 'value arm equals E_fixed -/+ m_n*L_other^2 / (2 (t - t0)^2), t0 = L_fixed*sqrt(m_n/(2 E_fixed))', 2)
    r2 = run.rule('R2', 'energy conservation: t := L1/v(Ei) + L2/v(Ef) gives Ei - Ef in both geometries', 2)
    r3 = run.rule('R3', 'guard shape where(dt <= 0, NaN, value), dt being the base of the only divisor', 2)
    r4 = run.rule('R4', 'arms agree in unit and dtype; result unit is the unit of the supplied energy', 2)
    r5 = run.rule('R5', 'graph factories direct_inelastic / indirect_inelastic wire the matching kernel', 2)

    for name, (efix, lfix, lother, sign) in CASES.items():
        fi = repo.func('conversion.tof', name)
        specs = specs_for(fi)
        outs = run_kernel(repo, fi, specs)
        rets = returns(outs)
        if len(rets) != 1 or len(outs) != 1:
            r1.fail(name, loc(fi), {'problem': 'the kernel branches on its inputs or refuses some of them',
                                    'paths': [(o.kind, o.exc_type, o.where) for o in outs][:6]}, key=name)
            continue
        out = rets[0]
        t = term_of(out.value, fi)
        parts = where_parts(t, fi)
        E, tof = S(efix), S('tof')
        t0 = S(lfix) * T.sqrt(m_n() / (2 * E))
        dt = tof - t0
        other = m_n() * S(lother) ** 2 / (2 * dt**2)
        want = E - other if sign > 0 else other - E
        if parts is None:
            r3.fail(name, loc(fi), {'result': show(out.value), 'expected_shape': 'where(dt <= 0, NaN, value)'}, key=name)
            continue
        cond, a, b = parts
        nan = Rat.const(float('nan'))
        # which arm is NaN?
        nan_first = eq_term(a, nan)
        value = b if nan_first else a
        r1.check(eq_term(value, want), name, loc(fi), {'value_arm': T.show(value), 'documented': T.show(want)}, key=name)
        # R2 energy conservation
        Ei, Ef = S('incident_energy'), S('final_energy')
        t_arr = S('L1') * T.sqrt(m_n() / (2 * Ei)) + S('L2') * T.sqrt(m_n() / (2 * Ef))
        tof_atom = T.atom('sym', 'tof')
        conserved = value.subst({tof_atom.id: t_arr})
        r2.check(eq_term(conserved, Ei - Ef), name, loc(fi),
                 {'value_at_arrival_time': T.show(conserved), 'expected': 'incident_energy - final_energy'}, key=name)
        # R3 guard
        # accepted: NaN where dt <= 0, or the value only where dt > 0 (the two differ for a NaN
        # dt alone, where the value arm is NaN as well)
        want_cond = T.fn_cmp('<=', dt, Rat.const(0))
        cond_ok = (eq_term(cond, want_cond) and nan_first) or (eq_term(cond, T.fn_cmp('>', dt, Rat.const(0))) and not nan_first)
        nan_arm_ok = eq_term(a if nan_first else b, nan)
        pole_ok = (value * dt**2).den is T.ONE_P
        # the guard has to look at the very number that is divided by: every subtraction (the only way a divisor can become
        # zero) in the provenance of the value arm must be in the provenance of the condition - a guard on another rounding
        # of the same mathematical quantity lets dt == 0 through
        same_number = True
        wh = [e for e in events(out, 'where')]
        if wh:
            d = wh[-1].detail
            arms = d['x'] | d['y']
            divs = [h[0] for h in arms if h[1] == 'div']
            last_div = max(divs) if divs else -1
            # differences computed before the (last) division: what is divided by; the final Ei - Ef comes after it
            subs = {h for h in arms if h[1] in ('sub', 'add') and h[0] < last_div}
            same_number = {h[0] for h in subs} <= {h[0] for h in d['cond']}
        cond_ok = cond_ok and same_number
        r3.check(cond_ok and nan_arm_ok and pole_ok, name, loc(fi),
                 {'condition': T.show(cond), 'expected_condition': T.show(want_cond),
                  'nan_is_selected_where_condition_holds': nan_first,
                  'only_divisor_is_dt_squared': pole_ok}, key=name)
        # R4
        probs = [dict(e.detail, where=e.where) for e in events(out, 'unit-mismatch')]
        unit_ok = out.value.unit == Unit.param(efix)
        dt_ok = True
        for d in (('float64', 'float64'), ('float32', 'float32'), ('float32', 'float64'), ('float64', 'float32')):
            o2 = run_kernel(repo, fi, specs, dtypes={'tof': d[0], efix: d[1]})
            if any(o.kind == 'raise' for o in o2):
                dt_ok = False
                probs.append({'dtypes': d, 'raises': [o.exc_type + ' ' + (o.where or '') for o in o2 if o.kind == 'raise']})
            for o in o2:
                # the unit of the supplied energy, whatever the precision of the operands
                if o.kind == 'return' and isinstance(o.value, SVar) and o.value.unit != Unit.param(efix):
                    unit_ok = False
                    probs.append({'dtypes': d, 'result_unit': repr(o.value.unit), 'documented': f'unit of {efix}'})
                want_dt = 'float32' if d == ('float32', 'float32') else 'float64'
                if o.kind == 'return' and isinstance(o.value, SVar) and o.value.dtype != want_dt:
                    dt_ok = False
                    probs.append({'dtypes': d, 'result_dtype': o.value.dtype, 'documented': want_dt})
        r4.check(unit_ok and dt_ok and not probs, name, loc(fi),
                 {'result_unit': repr(out.value.unit), 'problems': probs[:3]}, key=name)

    # ---- R7: magnitude of single-precision intermediates over the quantified ranges and units --------------------
    r7 = run.rule('R7', 'no float32 intermediate leaves the normal range of float32 for Ei, Ef in 1e-3..1e4 meV (ueV..J), L in 0.1..1e3 m '
                        '(angstrom..km), tof in ns..s: power products exactly (a unit-scaled constant rounded to float32 too early underflows silently), '
                        'sums and what is computed from them by forward interval arithmetic (a non-zero delta_tof is at least eps/4 of t0)', 2)
    from checks.magrule import worst_f32
    for name in CASES:
        fi = repo.func('conversion.tof', name)
        worst, n_runs, n_values = worst_f32(repo, fi, fixed_same=[('L1', 'L2')], corners=tier == 'quick')
        if n_runs == 0:
            raise AnalysisError(f'{fi.fq}: parameters without a physical range')
        if n_values == 0:
            r7.ok(name, {'unit_assignments': n_runs, 'values_bounded': 0, 'note': 'nothing is computed in single precision for float32 inputs (see R4)'}, nontrivial=False)
            continue
        r7.check(worst is None, name, (worst or {}).get('where') or loc(fi), {'unit_assignments': n_runs, 'values_bounded': n_values, 'worst': worst}, key=f'{name}:f32-range')

    r6 = run.rule('R6', 'results do not depend on call history: after another call (other units, other precision, the other geometry) a kernel '
                        'returns what it returns in a fresh interpreter (two-call histories interpreted in one world); no memoised object is handed out', 2)
    kfis = [repo.func('conversion.tof', n) for n in CASES]
    history_free(repo, kfis, r6, histories=kernel_histories(repo, kfis))

    # R5 graph factories
    for fac, kern in (('direct_inelastic', 'energy_transfer_direct_from_tof'),
                      ('indirect_inelastic', 'energy_transfer_indirect_from_tof')):
        ffi = repo.func('conversion.graph.tof', fac)
        T.reset()
        it = Interp(repo, Model())
        outs = it.run_all(lambda i, f=ffi: i.call_function(f, [], {'start': 'tof'}))
        ok = False
        detail = {}
        if len(outs) == 1 and outs[0].kind == 'return' and isinstance(outs[0].value, dict):
            g = outs[0].value
            ref = g.get('energy_transfer')
            detail = {'keys': [str(k) for k in g], 'kernel': ref.fi.qualname if isinstance(ref, FuncRef) else repr(ref)}
            ok = set(g) == {'energy_transfer'} and isinstance(ref, FuncRef) and ref.fi.qualname == kern \
                and ref.fi.module == 'conversion.tof'
        r5.check(ok, fac, loc(ffi), detail, key=fac)
    return run
