"""C15 — XYE files round-trip coordinates and values exactly, uncertainties to rounding."""

from __future__ import annotations

import itertools
import pathlib
import re

from sa import term as T
from sa.absio import Expr, NdArr
from sa.interp import GenResult, Interp, Opaque, RaiseSignal, SVar
from sa.load import AnalysisError, Repo, loc, where_of
from sa.report import Run
from sa.scipp_model import Model
from sa.term import Rat
from sa.units import DIMENSIONLESS, Unit

ALLOWED_REFUSALS = {'VariancesError', 'DimensionError', 'ValueError', 'CoordError', 'BinEdgeError'}


def sig_digits(fmt: str):
    m = re.fullmatch(r'%[-+ #0]*\d*\.(\d+)([eEgG])', fmt)
    if not m:
        return None
    n = int(m.group(1))
    return n + 1 if m.group(2) in 'eE' else n


def raw(name: str) -> SVar:
    v = SVar(Rat.sym(name, positive=True), DIMENSIONLESS, 'float64')
    v.kind = 'raw'
    return v


class Table:
    """A 2-d numpy array assembled from 1-d pieces; axis=1: the pieces are columns."""

    def __init__(self, items, axis):
        self.items, self.axis = list(items), axis

    @property
    def T(self):
        return Table(self.items, 1 - self.axis)

    def transpose(self):
        return self.T

    def _arith(self, op, other, swap=False):
        from sa import absio
        it_, m = absio.CTX['interp'], absio.CTX['model']
        return Table([m.binop(it_, op, other, x, None) if swap else m.binop(it_, op, x, other, None) for x in self.items], self.axis)

    def __add__(self, o):
        return self._arith('add', o)

    __iadd__ = __add__

    def __radd__(self, o):
        return self._arith('add', o, True)

    def __sub__(self, o):
        return self._arith('sub', o)

    __isub__ = __sub__

    def __mul__(self, o):
        return self._arith('mul', o)

    __imul__ = __mul__

    def __rmul__(self, o):
        return self._arith('mul', o, True)

    def __truediv__(self, o):
        return self._arith('div', o)

    def astype(self, *a, **k):
        return self

    def copy(self, *a, **k):
        return Table(self.items, self.axis)

    @property
    def dtype(self):
        return 'float64'

    @property
    def ndim(self):
        return 2


class ColBuffer(Table):
    """numpy.empty((n, k)): a table whose k columns are filled one by one (table[:, j] = x, or out=table[:, j])."""

    def __init__(self, ncols):
        super().__init__([None] * ncols, 1)

    @staticmethod
    def _col(key):
        if isinstance(key, tuple) and len(key) == 2 and key[0] == slice(None, None, None) and isinstance(key[1], int):
            return key[1]
        raise AnalysisError(f'only whole columns of a preallocated table are modelled, not [{key!r}]')

    def __setitem__(self, key, val):
        self.items[self._col(key)] = val

    def __getitem__(self, key):
        return ColRef(self, self._col(key))


class ColRef:
    """table[:, j] of a preallocated table: a view to write into."""

    def __init__(self, buf, j):
        self.buf, self.j = buf, j


class CoordVar:
    def __init__(self, name: str, aligned=True):
        self.values = raw(f'coord_{name}')
        self.unit = Unit.named('m')
        self.aligned = aligned
        self.dims = ('x',)


class Coords(dict):
    def __init__(self, items, edges):
        super().__init__(items)
        self._edges = edges

    def is_edges(self, name, dim=None):
        if name not in self:
            raise RaiseSignal('KeyError', None, 'da.coords.is_edges', (name,))
        return name in self._edges


class FileStub:
    def __init__(self):
        self.calls = []

    def write(self, *a):
        self.calls.append('write')

    def writelines(self, *a):
        self.calls.append('writelines')


class Da:
    """A 1-d-or-not data array seen through the attributes save_xye may consult."""

    def __init__(self, has_var, ndim, masked, coords, edges, aligned=None):
        self.values = raw('Y')
        self._var = raw('V') if has_var else None
        self.ndim = ndim
        self.dims = ('x', 'y')[:ndim]
        self.shape = (5, 2)[:ndim]
        self.sizes = dict(zip(self.dims, self.shape, strict=True))
        self.masks = {'m': object()} if masked else {}
        self.coords = Coords({k: CoordVar(k, (aligned or {}).get(k, True)) for k in coords}, edges)
        self.unit = Unit.named('counts')
        d = SVar(Rat.sym('Y', positive=True), self.unit, 'float64')
        d.members['variances_term'] = Rat.sym('V', positive=True) if has_var else None
        self.data = d
        self.name = ''

    @property
    def variances(self):
        return self._var

    @property
    def dim(self):
        if self.ndim != 1:
            raise RaiseSignal('DimensionError', None, 'da.dim', (f'Expected 1 dimension, got {self.ndim}',))
        return 'x'


class _StatStub:
    st_mtime_ns = 1_700_000_000_000_000_000
    st_mtime = 1_700_000_000.0
    st_size = 4242


class _PathStub(pathlib.PurePosixPath):
    """A path of the file system the analysis does not touch: the same file under every spelling, unchanged between the calls."""

    def resolve(self, strict=False):
        return self

    def absolute(self):
        return self

    def expanduser(self):
        return self

    def exists(self):
        return True

    def is_file(self):
        return True

    def stat(self):
        return _StatStub()


class OpenedFile:
    n_rows = 3

    def __init__(self, args, kwargs):
        self.args, self.kwargs = args, kwargs

    def __iter__(self):
        # the lines of the table (one per row; what is in them is not modelled: whoever parses them gets the cells of the row)
        return iter([f'row {r}\n' for r in range(self.n_rows)])

    def __enter__(self):
        return self

    def __exit__(self, *a):
        return False

    def __repr__(self):
        return f'<file opened by the package: open{tuple(self.args)!r}>'


class XyeModel(Model):
    def __init__(self):
        super().__init__()
        self.saves: list = []
        self.loads: list = []
        self.table_rows = 3

    def ext_attr(self, interp, path, node):
        if path == 'numpy.newaxis':
            return None
        return super().ext_attr(interp, path, node)

    def ext_index(self, interp, path, key, node):
        if path == 'numpy.c_':
            return Table(list(key) if isinstance(key, tuple) else [key], 1)
        if path == 'numpy.r_':
            return Table(list(key) if isinstance(key, tuple) else [key], 0)
        raise AnalysisError(f'subscript of {path} at {interp.where(node)}')

    def var_attr(self, interp, v, attr, node):
        if isinstance(v, SVar) and v.kind != 'dataarray' and attr == 'ndim' and 'dims' not in v.members:
            return 1  # the columns handed to the writer are the 1-d value arrays of the data array
        return super().var_attr(interp, v, attr, node)

    def var_index(self, interp, v, key, node):
        if isinstance(v, SVar) and v.kind != 'dataarray' and isinstance(key, tuple) and len(key) == 2 and slice(None, None, None) in key and None in key:
            return Table([v], 1 if key[1] is None else 0)  # x[:, newaxis]: one column; x[newaxis, :]: one row
        return super().var_index(interp, v, key, node)

    def _isinstance(self, interp, x, t, node):
        if isinstance(x, OpenedFile):
            return False  # neither a str nor a path (the only classes io/xye.py asks about)
        return super()._isinstance(interp, x, t, node)

    def call_ext(self, interp, path, args, kwargs, node):
        if path == 'pathlib.Path' and args and all(isinstance(a, str | pathlib.PurePath) for a in args):
            return _PathStub(*args)
        if path in ('os.fspath', 'os.path.abspath', 'os.path.realpath', 'os.path.expanduser') and args and isinstance(args[0], str | pathlib.PurePath):
            return str(args[0])
        if path in ('os.stat', 'os.path.getmtime', 'os.path.getsize') and args and isinstance(args[0], str | pathlib.PurePath):
            return _StatStub() if path == 'os.stat' else 4242
        if path == 'builtins.open':
            f_ = OpenedFile(args, dict(kwargs))  # a file object the package opened itself (not the target it was given)
            f_.n_rows = self.table_rows
            return f_
        if path == 'numpy.savetxt':
            self.saves.append((args, dict(kwargs), interp.where(node)))
            return None
        if path == 'numpy.loadtxt':
            self.loads.append((args, dict(kwargs), interp.where(node)))
            src = args[0] if args else kwargs.get('fname')
            if isinstance(src, list | GenResult) and all(isinstance(x, str) for x in list(src)):
                # numpy.loadtxt also reads an iterable of lines: as many rows as it is handed
                lines = list(src)
                saved, self.table_rows = self.table_rows, len(lines)
                try:
                    return self.loaded(kwargs)
                finally:
                    self.table_rows = saved
            return self.loaded(kwargs)
        if path in ('numpy.column_stack', 'numpy.stack', 'numpy.vstack', 'numpy.array', 'numpy.asarray', 'numpy.hstack') and args \
                and isinstance(args[0], list | tuple) and all(isinstance(x, SVar) for x in args[0]):
            if path == 'numpy.hstack':
                raise AnalysisError(f'numpy.hstack of 1-d pieces at {interp.where(node)}')
            axis = 1 if path == 'numpy.column_stack' else (kwargs.get('axis', 0) if path == 'numpy.stack' else 0)
            if axis in (1, -1):
                return Table(args[0], 1)
            if axis == 0:
                return Table(args[0], 0)
        if path in ('numpy.asanyarray', 'numpy.asarray', 'numpy.ascontiguousarray') and args and isinstance(args[0], SVar | Table):
            return args[0]
        if path == 'numpy.result_type':
            return 'float64'
        if path in ('numpy.concatenate', 'numpy.hstack') and args and isinstance(args[0], list | tuple) and args[0] \
                and all(isinstance(x, Table) and x.axis == 1 for x in args[0]) and (path == 'numpy.hstack' or kwargs.get('axis') in (1, -1)):
            return Table([c for x in args[0] for c in x.items], 1)  # tables side by side
        if path == 'numpy.transpose' and args and isinstance(args[0], Table | NdArr):
            return args[0].T
        if path in ('numpy.empty', 'numpy.zeros', 'numpy.empty_like') and args and isinstance(args[0], tuple) and len(args[0]) == 2 \
                and isinstance(args[0][1], int):
            return ColBuffer(args[0][1])
        out = kwargs.get('out')
        if out is not None and path.startswith('numpy.'):
            # a ufunc writing its result into an existing array (a column of a preallocated table, or a loaded column in place)
            r = self.call_ext(interp, path, args, {k: v for k, v in kwargs.items() if k != 'out'}, node)
            if isinstance(out, ColRef):
                out.buf.items[out.j] = r
                return r
            if isinstance(out, NdArr) and isinstance(r, NdArr) and r.size == out.size:
                for k, p in enumerate(out._idx):
                    out._store[p] = r.elems[k]
                return out
            raise AnalysisError(f'{path}(out=...) into {out!r} at {interp.where(node)}')
        if path == 'numpy.finfo' and len(args) == 1 and hasattr(args[0], 'name') and not isinstance(args[0], str):
            return super().call_ext(interp, path, [args[0].name], kwargs, node)  # the dtype of a loaded column
        if path == 'numpy.errstate':
            return _NullContext()
        if path.startswith('numpy.') and path.count('.') == 1 and path not in ('numpy.square', 'numpy.transpose', 'numpy.atleast_2d', 'numpy.loadtxt', 'numpy.savetxt') \
                and any(isinstance(a, NdArr) for a in args):
            # any other element-wise numpy function of loaded columns: an expression of the cells that is not a plain square
            n = next(a.size for a in args if isinstance(a, NdArr))
            shape = next(a.shape for a in args if isinstance(a, NdArr))
            cols = [a.elems if isinstance(a, NdArr) and a.size == n else [a] * n for a in args]
            return NdArr(shape, 'float64', [Expr(path.split('.')[-1], tuple(c[k] for c in cols), None) for k in range(n)])
        if path == 'numpy.square' and args:
            return args[0] ** 2 if isinstance(args[0], NdArr) else interp.binop('pow', lambda a, b: a ** b, args[0], 2, node)
        if path == 'numpy.atleast_2d' and args and isinstance(args[0], NdArr):
            a = args[0]
            return a if a.ndim >= 2 else a.reshape((1, a.size))
        return super().call_ext(interp, path, args, kwargs, node)

    def loaded(self, kwargs) -> NdArr:
        unpack = bool(kwargs.get('unpack', False))
        n = self.table_rows
        cols = kwargs.get('usecols')
        cols = [0, 1, 2] if cols is None else list(cols)
        rows = [[Cell(c, r) for c in cols] for r in range(n)]
        arr = NdArr((n, len(cols)), 'float64', [e for row in rows for e in row])
        if unpack:
            arr = arr.T
        if kwargs.get('ndmin', 0) < 2:
            arr = arr.squeeze() if n == 1 else arr
        return arr

    def sc_stddevs(self, interp, args, kwargs, node):
        x = args[0]
        vt = x.members.get('variances_term') if isinstance(x, SVar) else None
        if vt is not None:
            return self.new(interp, T.sqrt(vt) * x.unit.scale(), x.unit, x.dtype)
        return super().sc_stddevs(interp, args, kwargs, node)

    def sc_array(self, interp, args, kwargs, node):
        r = self.new(interp, None, self._unit_arg(interp, kwargs.get('unit'), node), 'float64', why='array from file columns')
        r.members['array_args'] = dict(kwargs)
        return r

    def sc_DataArray(self, interp, args, kwargs, node):
        data = args[0] if args else kwargs.get('data')
        r = self.new(interp, None, getattr(data, 'unit', None), 'float64', why='loaded data array')
        r.kind = 'dataarray'
        r.members['data_var'] = data
        r.members['coords'] = kwargs.get('coords')
        return r


class _NullContext:
    context_manager = True

    def __enter__(self):
        return self

    def __exit__(self, *a):
        return False


class Cell:
    """One number of the loaded table."""

    def __init__(self, col, row):
        self.col, self.row = col, row

    def __eq__(self, o):
        return isinstance(o, Cell) and (o.col, o.row) == (self.col, self.row)

    def __hash__(self):
        return hash((self.col, self.row))

    def __pow__(self, e):
        return Expr('pow', self, e)

    def __mul__(self, o):
        return Expr('mul', self, o)

    def __repr__(self):
        return f'column {self.col} row {self.row}'


def eq_raw(a, b) -> bool:
    return isinstance(a, SVar) and isinstance(b, SVar) and isinstance(a.term, Rat) and isinstance(b.term, Rat) and a.term.eq(b.term)


def is_square_of(e, cell) -> bool:
    if isinstance(e, Expr):
        if e.op == 'pow' and e.a == cell and e.b in (2, 2.0):
            return True
        if e.op == 'mul' and e.a == cell and e.b == cell:
            return True
    return False


def run(tier: str) -> Run:
    run = Run('C15', tier, 'other',
              'Finite-domain interpretation of io/xye.py with recording stubs for numpy.savetxt / loadtxt.  '
              'save_xye is interpreted for every combination of (variances present, ndim, masks, coordinate set, '
              'bin-edge flag, coord argument, header argument); decided per combination: (R3) a documented refusal '
              'raises before anything is handed to savetxt or written, and an accepted input is saved by exactly one '
              'savetxt call; (R2) the table saved has the columns (selected coordinate values, data values, '
              'sqrt(variances)) as exact terms; (R1) the call keeps >= 17 significant digits, uses a one-character '
              'delimiter the loader splits on, leaves `comments` alone and passes the header text to savetxt; (R5) '
              'the coordinate selected is the documented one.  load_xye is interpreted on a symbolic table with 3 '
              'rows and with 1 row: (R2) values, variances, coordinate are column 1, column 2 squared, column 0; '
              '(R4) a one-row file yields 1-d columns.  That %.18e round-trips a double is numpy/C and not decided.')
    repo = Repo()
    run.analysed = {'modules': ['io.xye'], 'digest': repo.digest.hexdigest()}
    run.trusted = ['numpy.savetxt/loadtxt semantics (comments="# " prefix, default fmt %.18e, one-row files load 1-d)',
                   'sa/interp.py', 'sa/scipp_model.py']
    sfi, lfi = repo.func('io.xye', 'save_xye'), repo.func('io.xye', 'load_xye')

    r1 = run.rule('R1', 'savetxt keeps >= 17 significant digits; delimiter agrees with loadtxt; comments not overridden; header goes through savetxt', 4)
    r2 = run.rule('R2', 'columns (X, Y, E) = (coord values, data values, sqrt(variances)); loader reads 0,1,2 and squares E', 2)
    r3 = run.rule('R3', 'documented refusals raise before anything is written; accepted inputs are saved once', 40)
    r4 = run.rule('R4', 'one-row files load as 1-d columns', 1)
    r5 = run.rule('R5', 'coordinate selection: argument, else the only coordinate, else the dimension-coordinate, else refuse', 6)

    # (name, aligned): the alignment flag must play no role in the selection
    coord_sets = [(), (('x', True),), (('a', True),), (('a', False),), (('a', True), ('b', True)), (('a', True), ('b', False)),
                  (('a', True), ('x', True)), (('a', False), ('x', True)), (('a', True), ('x', False))]
    save_kwargs_seen = []
    n_cfg = 0
    fails = {'r1': {}, 'r2': {}, 'r3': {}, 'r5': {}}
    for has_var, ndim, masked, cset, edges_on, coord_arg, header in itertools.product(
            (True, False), (1, 2, 0), (False, True), coord_sets, (False, True, 'other'), (None, 'a'), ('default', 'USER TEXT')):
        coords = tuple(n for n, _ in cset)
        aligned = dict(cset)
        if coord_arg is not None and coord_arg not in coords:
            continue
        # documented behaviour
        if coord_arg is not None:
            sel = coord_arg
        elif len(coords) == 1:
            sel = coords[0]
        elif 'x' in coords and ndim == 1:
            sel = 'x'
        else:
            sel = None
        if edges_on == 'other':
            # bin edges on a coordinate that is NOT the one saved: the table holds points, nothing is lost
            edges = {c for c in coords if c != sel}
            if sel is None or not edges:
                continue
        else:
            edges = {sel} if (edges_on and sel is not None) else set()
        if edges_on and sel is None:
            continue
        refuse = (not has_var) or ndim != 1 or masked or not coords or sel is None or sel in edges
        if tier == 'quick' and header == 'USER TEXT' and refuse:
            continue
        n_cfg += 1
        T.reset()
        model = XyeModel()
        it = Interp(repo, model)
        from sa import absio as _absio
        _absio.CTX['interp'], _absio.CTX['model'] = it, model
        fstub = FileStub()
        cfg = f'variances={has_var} ndim={ndim} masks={masked} coords={list(coords)} aligned={[aligned[c] for c in coords]} edges={sorted(edges)} coord={coord_arg} header={header}'

        def go(i, has_var=has_var, ndim=ndim, masked=masked, coords=coords, edges=edges, coord_arg=coord_arg, header=header, fstub=fstub, aligned=aligned):
            da = Da(has_var, ndim, masked, coords, edges, aligned)
            kw = {'coord': coord_arg}
            if header != 'default':
                kw['header'] = header
            i._da = da
            return i.call_function(sfi, [fstub, da], kw)
        model.saves.clear()
        outs = []
        per_path = []
        pending_saves = []

        def go_wrapped(i):
            model.saves = []
            try:
                return go(i)
            finally:
                pending_saves.append((list(model.saves), i._da))
        outs = it.run_all(go_wrapped)
        per_path = list(zip(outs, pending_saves, strict=True))
        for o, (saves, da) in per_path:
            if refuse:
                ok = o.kind == 'raise' and not saves and not fstub.calls
                if not ok:
                    fails['r3'].setdefault('refusal: ' + _why(has_var, ndim, masked, coords, sel, edges), (cfg, o.kind, o.exc_type, len(saves)))
                continue
            if o.kind != 'return' or len(saves) != 1 or fstub.calls:
                fails['r3'].setdefault('accepted input is saved by one savetxt call',
                                       (cfg, o.kind, o.exc_type, len(saves), (o.where or '')))
                continue
            args, kwargs, where = saves[0]
            save_kwargs_seen.append(kwargs)
            table = args[1] if len(args) > 1 else kwargs.get('X')
            if args[0] is not fstub:
                fails['r1'].setdefault('target', (cfg, 'savetxt does not write to fname'))
            good_table = isinstance(table, Table) and table.axis == 1 and len(table.items) == 3
            if not good_table:
                fails['r2'].setdefault('save columns', (cfg, f'savetxt is handed {table!r}, expected three columns'))
            else:
                x, y, e = table.items
                want_x = da.coords[sel].values
                for label, col in (('X', x), ('Y', y)):
                    if isinstance(col, SVar) and col.hist:
                        fails['r2'].setdefault('save columns', (cfg, f'{label} column went through floating-point operations {sorted(op for _, op, _ in col.hist)}: coordinate and values must reach the file bit for bit'))
                if not eq_raw(x, want_x):
                    fails['r5'].setdefault(f'coords={list(coords)} coord={coord_arg}', (cfg, f'X column is {_show(x)}, documented coordinate is {sel!r}'))
                if not eq_raw(y, da.values):
                    fails['r2'].setdefault('save columns', (cfg, f'Y column is {_show(y)}'))
                want_e = T.sqrt(Rat.sym('V', positive=True))
                if not (isinstance(e, SVar) and isinstance(e.term, Rat) and e.term.eq(want_e)):
                    fails['r2'].setdefault('save columns', (cfg, f'E column is {_show(e)}, expected sqrt(variances)'))
            fmt = kwargs.get('fmt')
            if fmt is not None:
                d = sig_digits(fmt) if isinstance(fmt, str) else None
                if d is None or d < 17:
                    fails['r1'].setdefault('fmt', (cfg, f'fmt={fmt!r} keeps {d} significant digits, 17 needed'))
            if kwargs.get('comments', '# ') != '# ':
                fails['r1'].setdefault('comments', (cfg, f'comments={kwargs.get("comments")!r}'))
            h = kwargs.get('header')
            if header == 'USER TEXT':
                if h != 'USER TEXT':
                    fails['r1'].setdefault('header', (cfg, f'user header not passed to savetxt: {h!r}'))
            elif h is None or h == '':
                fails['r1'].setdefault('header', (cfg, f'generated header not passed to savetxt: {h!r}'))
    if n_cfg < 40:
        raise AnalysisError(f'only {n_cfg} configurations were interpreted')
    for inst in ('fmt', 'comments', 'header', 'target'):
        f = fails['r1'].get(inst)
        r1.check(f is None, inst, loc(sfi), {'configuration': f[0], 'problem': f[1]} if f else {'configurations': n_cfg}, key=inst)
    f = fails['r2'].get('save columns')
    r2.check(f is None, 'save columns', loc(sfi), {'configuration': f[0], 'problem': f[1]} if f else {}, key='save-columns')
    refusal_names = ['no variances', 'not one-dimensional', 'masks', 'no coordinate', 'ambiguous coordinate', 'bin edges']
    for name in refusal_names:
        f = fails['r3'].get('refusal: ' + name)
        r3.check(f is None, name, loc(sfi), {'configuration': f[0], 'outcome': f[1:]} if f else {}, key=name)
    f = fails['r3'].get('accepted input is saved by one savetxt call')
    r3.check(f is None, 'accepted input is saved by one savetxt call', loc(sfi), {'configuration': f[0], 'outcome': f[1:]} if f else {}, key='accepted')
    for _ in range(max(0, n_cfg - 7)):
        r3.ok('configuration')
    sel_cases = sorted({f'coords={[n for n, _ in c]} coord={a}' for c in coord_sets for a in (None, 'a') if (a is None or a in dict(c)) and c})
    for inst in sel_cases:
        f = fails['r5'].get(inst)
        r5.check(f is None, inst, where_of(repo, 'io.xye', '_deduce_coord', 'save_xye'), {'configuration': f[0], 'problem': f[1]} if f else {}, key=inst)

    # ---- load side ------------------------------------------------------------------------
    load_kwargs = None
    load_problems = {}
    for nrows in (3, 1, 20):
        T.reset()
        model = XyeModel()
        model.table_rows = nrows
        it = Interp(repo, model)
        for coord_arg in (None, 'tof', 'second load of the same file'):
            if coord_arg == 'second load of the same file':
                # history: the file is loaded twice in one world (module-level tables and caches persist); the second table is judged
                coord_arg = None

                def twice(i):
                    kw = {'dim': 'd', 'unit': 'counts', 'coord_unit': 'us', 'coord': None}
                    i.call_function(lfi, ['file.xye'], dict(kw))
                    i.end_of_call()
                    return i.call_function(lfi, ['file.xye'], dict(kw))
                outs = it.run_all(twice)
            else:
                outs = it.run_all(lambda i, c=coord_arg: i.call_function(lfi, ['file.xye'], {'dim': 'd', 'unit': 'counts', 'coord_unit': 'us', 'coord': c}))
            for o in outs:
                key = 'one-row' if nrows == 1 else 'load columns'
                if o.kind != 'return' or not isinstance(o.value, SVar) or o.value.kind != 'dataarray':
                    load_problems.setdefault(key, f'rows={nrows}: load_xye ends with {o.kind} {o.exc_type or ""} {getattr(o, "exc_args", "")} at {o.where}')
                    continue
                if len(model.loads) < 1:
                    load_problems.setdefault('load columns', 'loadtxt is not called')
                    continue
                load_kwargs = model.loads[-1][1]
                target = model.loads[-1][0][0] if model.loads[-1][0] else load_kwargs.get('fname')
                if not (isinstance(target, str | pathlib.PurePath) and pathlib.PurePosixPath(target).name == 'file.xye'):
                    # numpy decides from the target how to read it (compression by suffix, encoding), as savetxt did when writing
                    load_problems.setdefault('load columns', f'numpy.loadtxt is handed {target!r} instead of the target given to load_xye')
                da = o.value
                data = da.members.get('data_var')
                coords = da.members.get('coords')
                want_name = coord_arg or 'd'
                if not isinstance(data, SVar) or not isinstance(coords, dict) or list(coords) != [want_name]:
                    load_problems.setdefault('load columns', f'result coords {list(coords) if isinstance(coords, dict) else coords!r}, expected [{want_name!r}]')
                    continue
                a = data.members.get('array_args', {})
                c = coords[want_name].members.get('array_args', {}) if isinstance(coords[want_name], SVar) else {}
                for label, arr, col, sq in (('values', a.get('values'), 1, False), ('variances', a.get('variances'), 2, True), ('coordinate', c.get('values'), 0, False)):
                    if not isinstance(arr, NdArr) or arr.ndim != 1 or arr.shape != (nrows,):
                        load_problems.setdefault(key, f'rows={nrows}: {label} handed to sc.array is {arr!r}, expected a 1-d column of {nrows}')
                        continue
                    for r, e in enumerate(arr.elems):
                        cell = Cell(col, r)
                        if not (is_square_of(e, cell) if sq else e == cell):
                            load_problems.setdefault('load columns', f'{label}[{r}] is {e!r}, expected {"square of " if sq else ""}column {col} row {r}')
                if list(a.get('dims') or []) != ['d'] or list(c.get('dims') or []) != ['d']:
                    load_problems.setdefault('load columns', f'dims {a.get("dims")!r} / {c.get("dims")!r}, expected the dim argument')
                if a.get('unit') != 'counts' or c.get('unit') != 'us':
                    load_problems.setdefault('load columns', f'units {a.get("unit")!r} / {c.get("unit")!r}')
    r2.check('load columns' not in load_problems, 'load columns', loc(lfi), {'problem': load_problems.get('load columns')}, key='load-columns')
    r4.check('one-row' not in load_problems, 'one-row guard', loc(lfi), {'problem': load_problems.get('one-row')}, key='one-row')
    # delimiter agreement and loader options
    ds = {k.get('delimiter', ' ') for k in save_kwargs_seen}
    dl = (load_kwargs or {}).get('delimiter')
    compatible = len(ds) == 1 and all(isinstance(d, str) and len(d) == 1 and (dl == d or (dl is None and d.isspace())) for d in ds)
    r1.check(compatible and load_kwargs is not None, 'delimiter', loc(sfi), {'savetxt': sorted(map(repr, ds)), 'loadtxt': repr(dl)}, key='delimiter')
    lk = load_kwargs or {}
    r1.check(lk.get('comments', '#') in ('#', '# ') and lk.get('skiprows', 0) == 0 and lk.get('max_rows') is None, 'loader options', loc(lfi),
             {'comments': lk.get('comments', '#'), 'skiprows': lk.get('skiprows', 0), 'max_rows': lk.get('max_rows')}, key='skiprows')
    return run


def _why(has_var, ndim, masked, coords, sel, edges) -> str:
    if not has_var:
        return 'no variances'
    if ndim != 1:
        return 'not one-dimensional'
    if masked:
        return 'masks'
    if not coords:
        return 'no coordinate'
    if sel is None:
        return 'ambiguous coordinate'
    return 'bin edges'


def _show(v):
    if isinstance(v, SVar):
        return T.show(v.term) if v.term is not None else f'⊤ ({v.why})'
    if isinstance(v, Opaque):
        return repr(v)
    return repr(v)
