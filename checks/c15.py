"""C15 — XYE files round-trip coordinates and values exactly, uncertainties to rounding."""

from __future__ import annotations

import ast
import re

from sa import term as T
from sa.cfg import CFG
from sa.interp import Interp
from sa.load import AnalysisError, Repo, loc
from sa.report import Run
from sa.scipp_model import Model

REFUSALS = [
    # (name, attribute that must occur in the guard's test, allowed exception names)
    ('no variances', 'variances', {'VariancesError', 'ValueError'}),
    ('not one-dimensional', 'ndim', {'DimensionError', 'ValueError'}),
    ('masks', 'masks', {'ValueError'}),
    ('no coordinate', 'coords', {'ValueError', 'CoordError'}),
    ('bin edges', 'is_edges', {'CoordError', 'ValueError', 'BinEdgeError'}),
]


def kw(call: ast.Call, name: str):
    for k in call.keywords:
        if k.arg == name:
            return k.value
    return None


def sig_digits(fmt: str):
    m = re.fullmatch(r'%[-+ #0]*\d*\.(\d+)([eEgG])', fmt)
    if not m:
        return None
    n = int(m.group(1))
    return n + 1 if m.group(2) in 'eE' else n


class CoordStub:
    def __init__(self, aligned=True):
        self.aligned = aligned


class DaStub:
    def __init__(self, coords: dict, dim: str):
        self.coords = coords
        self.dim = dim
        self.dims = (dim,)


def run(tier: str) -> Run:
    run = Run('C15', tier, 'other',
              'Structural rules over io/xye.py: (R1) savetxt is called without fmt or with >= 17 '
              'significant digits, savetxt/loadtxt use the same single-character delimiter, neither '
              'overrides `comments`, and the header text is handed to savetxt (which prefixes every '
              'line); (R2) the columns written are (coordinate values, data values, sqrt(variances)) '
              'and the loader reads columns 0,1,2 and squares column 2; (R3) each refusal is an `if` '
              'whose raising arm cannot reach savetxt and whose test dominates it (statement CFG + '
              'dominators); (R4) the one-row reshape guard dominates the column indexing; (R5) the '
              'coordinate deduction is folded over its finite decision space.  That %.18e round-trips '
              'a double is numpy/C and not decided.')
    repo = Repo()
    run.analysed = {'modules': ['io.xye'], 'digest': repo.digest.hexdigest()}
    run.trusted = ['numpy.savetxt/loadtxt semantics (comments="# " prefix, default fmt %.18e)', 'sa/cfg.py']
    sfi, lfi = repo.func('io.xye', 'save_xye'), repo.func('io.xye', 'load_xye')
    scfg, lcfg = CFG(sfi.node), CFG(lfi.node)
    saves = scfg.calls(lambda c: ast.unparse(c.func).endswith('savetxt'))
    loads = lcfg.calls(lambda c: ast.unparse(c.func).endswith('loadtxt'))
    if len(saves) != 1 or len(loads) != 1:
        raise AnalysisError(f'expected one savetxt and one loadtxt call, found {len(saves)} / {len(loads)}')
    (save_st, save_call), (load_st, load_call) = saves[0], loads[0]

    r1 = run.rule('R1', 'number format keeps >= 17 significant digits; same delimiter on both sides; comments not overridden; header goes through savetxt', 4)
    fmt = kw(save_call, 'fmt')
    if fmt is None:
        r1.ok('fmt', {'fmt': 'numpy default %.18e'})
    else:
        digits = sig_digits(fmt.value) if isinstance(fmt, ast.Constant) and isinstance(fmt.value, str) else None
        r1.check(digits is not None and digits >= 17, 'fmt', loc(sfi, save_call),
                 {'fmt': ast.unparse(fmt), 'significant_digits': digits, 'needed': 17}, key='fmt')
    ds, dl = kw(save_call, 'delimiter'), kw(load_call, 'delimiter')
    dsv = ds.value if isinstance(ds, ast.Constant) else (' ' if ds is None else None)
    dlv = dl.value if isinstance(dl, ast.Constant) else (None if dl is None else '?')
    # loadtxt(delimiter=None) splits on any whitespace: compatible with a single blank
    compatible = isinstance(dsv, str) and len(dsv) == 1 and (dlv == dsv or (dlv is None and dsv.isspace()))
    r1.check(compatible, 'delimiter', loc(sfi, save_call), {'savetxt': repr(dsv), 'loadtxt': repr(dlv)}, key='delimiter')
    r1.check(kw(save_call, 'comments') is None and kw(load_call, 'comments') is None, 'comments', loc(sfi, save_call),
             {'savetxt_comments': ast.unparse(kw(save_call, 'comments')) if kw(save_call, 'comments') else None,
              'loadtxt_comments': ast.unparse(kw(load_call, 'comments')) if kw(load_call, 'comments') else None}, key='comments')
    hdr = kw(save_call, 'header')
    other_writes = scfg.calls(lambda c: isinstance(c.func, ast.Attribute) and c.func.attr in ('write', 'writelines'))
    r1.check(hdr is not None and not other_writes, 'header', loc(sfi, save_call),
             {'header_argument': ast.unparse(hdr) if hdr else None, 'direct_writes': [ast.unparse(c) for _, c in other_writes]}, key='header')
    skip = kw(load_call, 'skiprows')
    r1.check(skip is None or (isinstance(skip, ast.Constant) and skip.value == 0), 'skiprows', loc(lfi, load_call),
             {'skiprows': ast.unparse(skip) if skip else None}, key='skiprows')

    r2 = run.rule('R2', 'columns (X, Y, E) = (coord values, data values, sqrt(variances)); loader reads 0,1,2 and squares E', 2)
    data_arg = save_call.args[1] if len(save_call.args) > 1 else kw(save_call, 'X')
    cols = None
    if isinstance(data_arg, ast.Name):
        for st in scfg.stmt.values():
            if isinstance(st, ast.Assign) and isinstance(st.targets[0], ast.Name) and st.targets[0].id == data_arg.id:
                v = st.value
                if isinstance(v, ast.Subscript) and ast.unparse(v.value) in ('np.c_', 'numpy.c_') and isinstance(v.slice, ast.Tuple):
                    cols = [ast.unparse(e) for e in v.slice.elts]
                elif isinstance(v, ast.Call) and ast.unparse(v.func).endswith(('column_stack', 'stack')) and v.args \
                        and isinstance(v.args[0], ast.List | ast.Tuple):
                    cols = [ast.unparse(e) for e in v.args[0].elts]
                    if ast.unparse(v.func).endswith('.stack') and not (kw(v, 'axis') is not None and ast.unparse(kw(v, 'axis')) in ('1', '-1')):
                        cols = None
    ok2 = cols is not None and len(cols) == 3 and re.fullmatch(r'da\.coords\[coord\]\.values', cols[0]) is not None \
        and cols[1] == 'da.values' and cols[2] in ('np.sqrt(da.variances)', 'numpy.sqrt(da.variances)', 'sc.stddevs(da.data).values', 'da.variances ** 0.5')
    r2.check(ok2, 'save columns', loc(sfi, save_call), {'columns': cols}, key='save-columns')
    unpack = kw(load_call, 'unpack')
    unp = isinstance(unpack, ast.Constant) and unpack.value is True
    col = (lambda i: f'loaded[{i}]') if unp else (lambda i: f'loaded[:, {i}]')
    reads = {}
    for n in ast.walk(lfi.node):
        if isinstance(n, ast.Call) and ast.unparse(n.func).endswith('DataArray'):
            data = n.args[0] if n.args else kw(n, 'data')
            if isinstance(data, ast.Call):
                reads['Y'] = ast.unparse(kw(data, 'values')) if kw(data, 'values') is not None else None
                reads['E'] = ast.unparse(kw(data, 'variances')) if kw(data, 'variances') is not None else None
            coords = kw(n, 'coords')
            if isinstance(coords, ast.Dict) and len(coords.values) == 1 and isinstance(coords.values[0], ast.Call):
                cv = kw(coords.values[0], 'values')
                reads['X'] = ast.unparse(cv) if cv is not None else None
    squares = {f'{col(2)} ** 2', f'np.square({col(2)})', f'{col(2)} * {col(2)}', f'numpy.square({col(2)})'}
    ok = reads.get('X') == col(0) and reads.get('Y') == col(1) and reads.get('E') in squares
    r2.check(ok, 'load columns', loc(lfi, load_call), {'reads': reads, 'unpack': unp,
                                                       'expected': {'X': col(0), 'Y': col(1), 'E': f'{col(2)} ** 2'}}, key='load-columns')

    r3 = run.rule('R3', 'each refusal guards every path to savetxt', 6)
    guards = scfg.guards()
    for name, attr, excs in REFUSALS:
        found = None
        for g, label, exc in guards:
            names = {n.attr for n in ast.walk(g.test) if isinstance(n, ast.Attribute)} | {n.id for n in ast.walk(g.test) if isinstance(n, ast.Name)}
            if attr in names and exc in excs:
                if attr == 'coords' and 'is_edges' in names:
                    continue
                found = (g, label, exc)
                break
        if found is None:
            r3.fail(name, loc(sfi), {'problem': f'no guard testing `{attr}` that raises one of {sorted(excs)}',
                                     'guards_present': [ast.unparse(g.test) for g, _, _ in guards]}, key=name)
            continue
        g, label, exc = found
        # a conjunction narrows the refusal to fewer inputs than documented
        narrowed = isinstance(g.test, ast.BoolOp) and isinstance(g.test.op, ast.And) and label is True
        r3.check(scfg.guarded_by(save_st, g, label) and not narrowed, name, loc(sfi, g),
                 {'guard': ast.unparse(g.test), 'raises': exc, 'narrowed_by_conjunction': narrowed}, key=name)
    # ambiguous coordinate: inside _deduce_coord, whose call must dominate savetxt on the coord-is-None arm
    dfi = repo.func('io.xye', '_deduce_coord')
    dcalls = scfg.calls(lambda c: ast.unparse(c.func) == '_deduce_coord')
    ok = False
    detail = {}
    if dcalls:
        st, call = dcalls[0]
        cond_ok = False
        for n in ast.walk(st):
            if isinstance(n, ast.IfExp) and ast.unparse(n.test) in ('coord is None', 'coord is not None'):
                arm = n.body if ast.unparse(n.test) == 'coord is None' else n.orelse
                cond_ok = any(x is call for x in ast.walk(arm))
        if isinstance(st, ast.If):
            cond_ok = ast.unparse(st.test) == 'coord is None'
        ok = scfg.dominates(st, save_st) and cond_ok
        detail = {'call_statement': ast.unparse(st)[:100], 'on_coord_is_None_arm': cond_ok}
    r3.check(ok, 'ambiguous coordinate', loc(sfi), detail, key='ambiguous')

    r4 = run.rule('R4', 'single-row files: the reshape guard dominates the column indexing', 1)
    idx_st = None
    for st in lcfg.stmt.values():
        if isinstance(st, ast.Return):
            idx_st = st
    lg = [s for s in lcfg.stmt.values() if isinstance(s, ast.If) and 'ndim' in ast.unparse(s.test)]
    ok = bool(lg) and idx_st is not None and lcfg.dominates(lg[0], idx_st) and \
        any(isinstance(x, ast.Assign) and 'newaxis' in ast.unparse(x) or 'reshape' in ast.unparse(x) or 'atleast_2d' in ast.unparse(x) for x in lg[0].body)
    alt = any('atleast_2d' in ast.unparse(s) or 'ndmin=2' in ast.unparse(s) for s in lcfg.stmt.values())
    r4.check(ok or alt, 'one-row guard', loc(lfi), {'guard': ast.unparse(lg[0].test) if lg else None, 'ndmin_or_atleast_2d': alt}, key='one-row')

    r5 = run.rule('R5', 'coordinate deduction decision table (1 coordinate / dim-coordinate / ambiguous), independent of alignment flags', 6)
    cases = [
        ({'a': True}, 'x', 'a'), ({'a': False}, 'x', 'a'),
        ({'a': True, 'x': True}, 'x', 'x'), ({'a': True, 'x': False}, 'x', 'x'),
        ({'a': True, 'b': True}, 'x', ValueError), ({'a': True, 'b': False}, 'x', ValueError),
    ]
    for coords, dim, want in cases:
        T.reset()
        it = Interp(repo, Model())
        stub = DaStub({k: CoordStub(al) for k, al in coords.items()}, dim)
        outs = it.run_all(lambda i, s=stub: i.call_function(dfi, [s], {}))
        got = []
        for o in outs:
            got.append(o.value if o.kind == 'return' else o.exc_type)
        w = 'ValueError' if want is ValueError else want
        inst = f'coords={coords} dim={dim}'
        r5.check(got == [w], inst, loc(dfi), {'deduced': got, 'documented': w}, key=inst)
    return run
