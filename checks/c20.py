"""C20 — bundled nuclear data are returned verbatim; attenuation follows the 1/v law."""

from __future__ import annotations

import ast
import csv
import os
import re

from sa import term as T
from sa.interp import Interp, SObj, SVar
from sa.kernel import P, make_param, run_kernel
from sa.load import AnalysisError, Repo, loc, where_of
from sa.report import Run
from sa.scipp_model import Model
from sa.term import Rat
from sa.units import Unit

from .common import private_helper, eq_term, events

NIST_COLUMNS = [
    ('coherent_scattering_length_re', 'fm'), ('coherent_scattering_length_im', 'fm'),
    ('incoherent_scattering_length_re', 'fm'), ('incoherent_scattering_length_im', 'fm'),
    ('coherent_scattering_cross_section', 'barn'), ('incoherent_scattering_cross_section', 'barn'),
    ('total_scattering_cross_section', 'barn'), ('absorption_cross_section', 'barn'),
]
FILES = {
    'scattering_parameters.csv': dict(loader=('atoms', 'ScatteringParams.for_isotope'), fields=17),
    'atomic_weights.csv': dict(loader=('atoms', '_load_atomic_weight'), fields=4),
    'atomic_masses.csv': dict(loader=('atoms', '_load_atomic_mass'), fields=3),
}


def is_number(s: str) -> bool:
    try:
        float(s)
        return True
    except ValueError:
        return False


def run(tier: str) -> Run:
    run = Run('C20', tier, 'other',
              'Decided from the source and the three bundled CSV files (read as data, never through '
              'the package): the lookup compares the first CSV field with ==; each loader skips exactly '
              'the leading non-data lines of the file it opens; the column -> field -> unit mapping of '
              'the scattering table is the NIST column order; blank cells give None and uncertainties '
              'are squared (also an uncertainty of 0); the tables have constant field counts, unique '
              'keys and numeric-or-blank cells; the isotope-name pattern is optional digits followed by '
              'one letters-only group and element vs isotope is decided by equality; the attenuation '
              'coefficient normalises to n*(sigma_s + sigma_a*lambda/1.7982 angstrom).  That a float '
              'parsed from text equals the tabulated decimal is Python\'s float() and not decided.')
    repo = Repo()
    mi = repo.module('atoms')
    run.analysed = {'modules': ['atoms', 'absorption.material'], 'digest': repo.digest.hexdigest()}
    run.trusted = ['python csv/float parsing', 'sa/scipp_model.py']
    adir = os.path.dirname(mi.path)

    # ---- tables as data (independent reader) ---------------------------------------------
    r4 = run.rule('R4', 'table lint: constant field count, unique keys, numeric-or-blank cells', 3)
    tables = {}
    heads = {}
    for fname, spec in FILES.items():
        path = os.path.join(adir, fname)
        if not os.path.exists(path):
            raise AnalysisError(f'bundled table {fname} not found')
        with open(path, encoding='utf-8', newline='') as f:
            lines = f.read().splitlines()
        n_head = 0
        for ln in lines:
            cells = ln.split(',')
            if ln.startswith('#') or (len(cells) > 1 and not is_number(cells[1]) and cells[1] != '' and not cells[0][:1].isdigit()
                                      and not any(is_number(c) for c in cells[1:])):
                n_head += 1
            else:
                break
        rows = list(csv.reader(lines[n_head:]))
        keys = [r[0] for r in rows]
        bad_len = [r[0] for r in rows if len(r) != spec['fields']]
        dup = sorted({k for k in keys if keys.count(k) > 1}) if len(set(keys)) != len(keys) else []
        bad_cell = [(r[0], c) for r in rows for c in r[1:] if c != '' and not is_number(c)]
        r4.check(not bad_len and not dup and not bad_cell and len(rows) > 0, fname, f'src/scippneutron/atoms/{fname}',
                 {'rows': len(rows), 'fields': spec['fields'], 'wrong_length': bad_len[:3], 'duplicates': dup[:3],
                  'non_numeric': bad_cell[:3]}, key=fname)
        tables[fname] = {r[0]: r[1:] for r in rows}
        heads[fname] = [ln.split(',')[0] for ln in lines[:n_head]]
    run.extra['rows'] = {k: len(v) for k, v in tables.items()}

    # ---- R1/R2/R3: partial evaluation of the three loaders on the bundled files -----------------
    r1 = run.rule('R1', 'a name that is not exactly a key of the table is refused (near misses: case, blanks, prefixes, header words)', 300)
    r2 = run.rule('R2', 'every key of the table is found (header lines are skipped, data lines are not)', 300)
    r3 = run.rule('R3', 'the entry returned is the tabulated one: value, variance = uncertainty^2, blank -> None, units fm x4 / barn x4 / Da', 300)
    stride = 1 if tier == 'thorough' else 37
    jobs = []
    for fname, spec in FILES.items():
        keys = list(tables[fname])
        step = stride if len(keys) > 500 else 1
        sample = sorted(set(keys[::step]) | {keys[0], keys[-1], keys[1], keys[-2]})
        miss = set(heads[fname]) | {''}
        for k in sample[:: (1 if len(keys) <= 500 else 1)][:400 if tier != 'thorough' else None]:
            for cand in (k.lower(), k.upper(), k + ' ', ' ' + k, k[:-1], k + 'x', k + ',', '0' + k):
                if cand not in tables[fname]:
                    miss.add(cand)
        miss = sorted(miss)
        if tier != 'thorough':
            miss = miss[::max(1, len(miss) // 150)]
        jobs.append((fname, sample, miss))
    import concurrent.futures as cf
    chunks = []
    for fname, sample, miss in jobs:
        n = 16 if tier == 'thorough' else 8
        for i in range(n):
            chunks.append((fname, sample[i::n], miss[i::n]))
    results = []
    with cf.ProcessPoolExecutor(max_workers=16) as ex:
        for part in ex.map(_lookup_chunk, chunks):
            results.extend(part)
    bad = {'R1': {}, 'R2': {}, 'R3': {}}
    for fname, name, kind, verdict, detail in results:
        rule = {'miss': 'R1', 'found': 'R2', 'value': 'R3'}[kind]
        if verdict:
            {'R1': r1, 'R2': r2, 'R3': r3}[rule].ok(f'{fname}:{name}')
        else:
            bad[rule].setdefault(fname, (name, detail))
    for rule, rr in (('R1', r1), ('R2', r2), ('R3', r3)):
        for fname, spec in FILES.items():
            lwhere = where_of(repo, spec['loader'][0], spec['loader'][1], 'Atom.for_isotope')
            b = bad[rule].get(fname)
            rr.check(b is None, fname, lwhere, {'name': b[0], 'problem': b[1]} if b else {}, key=fname)

    # ---- R7: a lookup does not depend on the lookups made before it --------------------------------
    r7 = run.rule('R7', 'a lookup answers the same after any other lookup: two-lookup histories of ScatteringParams.for_isotope and '
                        'Atom.for_isotope in one world (module-level tables, caches and iterators persist): first / middle / last rows, the same '
                        'name twice, a refused name first', 2)
    for cls_name, lfi7, n7, bad7 in lookup_histories(repo, tables):
        r7.check(not bad7, f'{cls_name}.for_isotope', loc(lfi7), {'histories': n7, 'histories_with_another_answer': len(bad7), 'first': bad7[:1]},
                 key=f'history:{cls_name}')

    r3b = run.rule('R3b', '_assemble_scalar: blank value -> None; variance = uncertainty**2 (0 stays 0); blank uncertainty -> no variance', 4)
    afi = private_helper(repo, 'atoms', '_assemble_scalar', ['value', 'std', 'unit'])  # else: decided per table row by R3 and R5
    cases = [(('1.5', '0.5', 'fm'), (1.5, 0.25, 'fm')), (('12.0', '0.0000000', 'Da'), (12.0, 0.0, 'Da')),
             (('2.5', '', 'barn'), (2.5, None, 'barn')), (('', '0.1', 'fm'), None)]
    if afi is None:
        for args, _ in cases:
            r3b.ok(f'scalar{args}', {'decided_by': 'R3 / R5 on every table row'}, nontrivial=False)
    for args, want in (cases if afi is not None else ()):
        T.reset()
        it = Interp(repo, Model())
        outs = it.run_all(lambda i, a=args: i.call_function(afi, list(a), {}))
        got = None
        ok = len(outs) == 1 and outs[0].kind == 'return'
        if ok:
            v = outs[0].value
            if v is None:
                got = None
            elif isinstance(v, SVar):
                got = (v.members.get('value'), v.members.get('variance'), repr(v.unit))
            else:
                got = repr(v)
        r3b.check(ok and got == want, f'_assemble_scalar{args}', loc(afi), {'computed': got, 'expected': want}, key=f'assemble{args}')

    # ---- R5 isotope names ------------------------------------------------------------------
    r5 = run.rule('R5', 'element of an isotope name = the letters after optional leading digits (finite-domain evaluation); '
                        'Atom.for_isotope: z and weight of that element, mass only for isotopes', 60)
    nfi = private_helper(repo, 'atoms', '_parse_isotope_name', ['name'])  # else: the element of a name is decided through Atom.for_isotope below
    if nfi is not None:
        ok, detail = check_name_parser(repo, nfi, 5 if tier == 'thorough' else 4)
        r5.check(ok, '_parse_isotope_name', loc(nfi), detail, key='pattern')
    afi2 = repo.func('atoms', 'Atom.for_isotope')
    weights, masses = tables['atomic_weights.csv'], tables['atomic_masses.csv']
    names = list(weights)[:: (1 if tier == 'thorough' else 3)] + list(masses)[:: (40 if tier == 'thorough' else 120)] + ['2H', '3He', '50V', 'Xx', '1Xx', '999H']
    # isotopes of elements without a standard weight (blank weight column): a mass, but no weight
    blank = [el for el, row in weights.items() if not row[1].strip()]
    names += [next(n for n in masses if n.lstrip('0123456789') == el) for el in blank[:: (1 if tier == 'thorough' else 6)] if any(n.lstrip('0123456789') == el for n in masses)]
    T.reset()
    it = Interp(repo, AtomsModel(repo))
    problem = None
    for nm in names:
        el = nm.lstrip('0123456789')
        outs = it.run_all(lambda i, n=nm: i.call_function(afi2, [n], {}))
        if el not in weights or (el != nm and nm not in masses):
            if not (len(outs) == 1 and outs[0].kind == 'raise'):
                problem = problem or (nm, 'not refused')
            else:
                r5.ok(f'for_isotope({nm!r}) refused')
            continue
        got = outs[0].value if len(outs) == 1 and outs[0].kind == 'return' else None
        if not isinstance(got, SObj):
            problem = problem or (nm, f'outcome {[(o.kind, o.exc_type, o.where) for o in outs]}')
            continue
        a = got.attrs
        want_w = expect_scalar(weights[el][1], weights[el][2], 'Da')
        want_m = None if el == nm else expect_scalar(masses[nm][0], masses[nm][1], 'Da')
        if a.get('isotope') != nm or a.get('z') != int(weights[el][0]):
            problem = problem or (nm, {'isotope': a.get('isotope'), 'z': a.get('z'), 'expected': {'isotope': nm, 'z': int(weights[el][0])}})
        else:
            # what the public accessors hand out: the tabulated quantity, or a refusal where the table has none
            for prop_, want_ in (('atomic_weight', want_w), ('atomic_mass', want_m)):
                pfi_ = repo.func('atoms', f'Atom.{prop_}')
                po = it.run_all(lambda i, g=got, f_=pfi_: i.call_function(f_, [], {}, bound=g))
                if want_ is None:
                    if not (len(po) == 1 and po[0].kind == 'raise' and po[0].exc_type == 'ValueError'):
                        problem = problem or (nm, f'{prop_} is answered although the table has no value: {[(o.kind, scalar_of(o.value) if o.kind == "return" else o.exc_type) for o in po]}')
                elif not (len(po) == 1 and po[0].kind == 'return' and scalar_of(po[0].value) == want_):
                    problem = problem or (nm, f'{prop_}: {[(o.kind, scalar_of(o.value) if o.kind == "return" else o.exc_type) for o in po]}, tabulated {want_}')
            r5.ok(f'for_isotope({nm!r})')
    r5.check(problem is None, 'Atom.for_isotope', loc(afi2), {'name': problem[0], 'problem': problem[1]} if problem else {}, key='element-vs-isotope')

    # ---- R6 attenuation coefficient ------------------------------------------------------
    r6 = run.rule('R6', 'attenuation = n * (sigma_s + sigma_a * lambda / 1.7982 angstrom), dimension 1/length, no integer truncation', 4)
    mfi = repo.func('absorption.material', 'Material.attenuation_coefficient')
    mat_cls = repo.cls('absorption.material', 'Material')
    sp_cls = repo.cls('atoms', 'ScatteringParams')
    for dt in ('float64', 'float32', 'int64'):
        def bound(it):
            sigma_s = make_param(it, 'sigma_s', P(dim='AREA', unit=Unit.named('barn')))
            sigma_a = make_param(it, 'sigma_a', P(dim='AREA', unit=Unit.named('barn')))
            n = make_param(it, 'n', P(dim='L^-3'))
            sp = SObj(sp_cls, {'total_scattering_cross_section': sigma_s, 'absorption_cross_section': sigma_a})
            return SObj(mat_cls, {'scattering_params': sp, 'effective_sample_number_density': n})
        outs = run_kernel(repo, mfi, {'wavelength': P(dim='L', data=True)}, dtypes={'wavelength': dt}, bound=bound)
        probs = []
        ok = len(outs) == 1 and outs[0].kind == 'return' and isinstance(outs[0].value, SVar) and outs[0].value.term is not None
        detail = {}
        if ok:
            v = outs[0].value
            S_ = lambda n_: Rat.sym(n_, positive=True)  # noqa: E731
            want = S_('n') * (S_('sigma_s') + S_('sigma_a') * S_('wavelength') / (Rat.const(1.7982) * Unit.named('angstrom').scale()))
            ok = eq_term(v.term, want)
            detail = {'computed': T.show(v.term), 'documented': T.show(want), 'unit': repr(v.unit)}
            for e in events(outs[0], 'narrowing-cast', 'int-unit-conversion', 'unit-conversion-incompatible'):
                probs.append({'event': e.kind, **e.detail, 'where': e.where})
            try:
                dim_ok = v.unit.dim(outs[0].interp.param_dims) == Unit.named('m').dim({}) and False
            except Exception:  # noqa: BLE001
                dim_ok = None
            inv_len = tuple(-x for x in Unit.named('m').dim({}))
            detail['dimension_is_inverse_length'] = v.unit.dim({'n': 'L^-3', 'wavelength': 'L'}) == inv_len
            ok = ok and detail['dimension_is_inverse_length'] and not probs
        else:
            detail = {'outcomes': [(o.kind, o.exc_type, o.where) for o in outs]}
        r6.check(ok, f'attenuation_coefficient[wavelength={dt}]', loc(mfi), {**detail, 'problems': probs[:2]}, key='attenuation')
    rfi = repo.func('atoms', 'reference_wavelength')
    T.reset()
    it = Interp(repo, Model())
    outs = it.run_all(lambda i: i.call_function(rfi, [], {}))
    v = outs[0].value if outs and outs[0].kind == 'return' else None
    r6.check(isinstance(v, SVar) and v.members.get('value') == 1.7982 and v.unit == Unit.named('angstrom'), 'reference_wavelength',
             loc(rfi), {'value': getattr(v, 'members', {}).get('value'), 'unit': repr(getattr(v, 'unit', None))}, key='reference')
    return run


def lookup_histories(repo, tables):
    """Two-lookup histories of the public table lookups in one world -> [(class name, function, histories, bad histories)]"""
    out = []
    for cls_name, fname in (('ScatteringParams', 'scattering_parameters.csv'), ('Atom', 'atomic_weights.csv')):
        lfi7 = repo.func('atoms', f'{cls_name}.for_isotope')
        keys7 = list(tables[fname])
        names7 = [keys7[0], keys7[len(keys7) // 2], keys7[-1], 'no such nuclide']
        if cls_name == 'Atom':
            mass_keys = list(tables['atomic_masses.csv'])
            names7 = [keys7[0], mass_keys[len(mass_keys) // 2], mass_keys[-1], 'no such nuclide']

        def lookup7(i, name, lfi7=lfi7, cls_name=cls_name):
            from sa.interp import RaiseSignal
            try:
                v = i.call_function(lfi7, [name], {})
            except RaiseSignal as r_:
                return ('raise', r_.exc_type)
            if not isinstance(v, SObj):
                return ('return', repr(v))
            seen = []
            for k_, a_ in sorted(v.attrs.items()):
                seen.append((k_, scalar_of(a_) if isinstance(a_, SVar) or a_ is None else repr(a_)))
            if cls_name == 'Atom':
                for prop in ('atomic_weight', 'atomic_mass'):
                    try:
                        seen.append((prop, scalar_of(i.call_function(repo.func('atoms', f'Atom.{prop}'), [], {}, bound=v))))
                    except RaiseSignal as r_:
                        seen.append((prop, ('raise', r_.exc_type)))
            return ('return', tuple(seen))
        T.reset()
        it7 = Interp(repo, AtomsModel(repo))
        fresh7 = {n_: [o.value for o in it7.run_all(lambda i, n_=n_: lookup7(i, n_))] for n_ in names7}
        bad7 = []
        n7 = 0
        for first in names7:
            for second in names7:
                n7 += 1
                got = [o.value for o in it7.run_all(lambda i, first=first, second=second: (lookup7(i, first), i.end_of_call(), lookup7(i, second))[-1])]
                if got != fresh7[second]:
                    bad7.append({'history': [first, second], 'fresh': str(fresh7[second])[:160], 'after_the_first': str(got)[:160]})
        out.append((cls_name, lfi7, n7, bad7))
    return out


def read_tables(repo):
    """name -> row of the three bundled tables"""
    tables = {}
    for fname in FILES:
        path = os.path.join(os.path.dirname(repo.module('atoms').path), fname)
        with open(path, encoding='utf-8', newline='') as f:
            lines = f.read().splitlines()
        t = {}
        for r in csv.reader(lines):
            if r and not r[0].startswith('#'):
                t.setdefault(r[0], r[1:])
        tables[fname] = t
    return tables


class AtomsModel(Model):
    """The scipp model plus the constant-folded standard-library calls of the loaders."""

    def __init__(self, repo):
        super().__init__()
        self.repo = repo

    def call_ext(self, interp, path, args, kwargs, node):
        import io
        import pathlib
        if path == 'importlib.resources.files' and args and isinstance(args[0], str):
            pkg = args[0].split('.')
            return pathlib.Path(self.repo.root, 'src', *pkg)
        if path in ('importlib.resources.open_text', 'importlib.resources.read_text') and len(args) >= 2 and all(isinstance(a, str) for a in args[:2]):
            text = pathlib.Path(self.repo.root, 'src', *args[0].split('.'), args[1]).read_text(encoding='utf-8')
            return io.StringIO(text) if path.endswith('open_text') else text
        if path.startswith('re.') and path.split('.')[1] in ('match', 'fullmatch', 'search', 'compile', 'sub', 'split', 'findall') \
                and all(isinstance(a, str | int) for a in args):
            return getattr(re, path.split('.')[1])(*args, **kwargs)
        if path == 'pathlib.Path' and all(isinstance(a, str | pathlib.PurePath) for a in args):
            return pathlib.Path(*args)
        if path == 'builtins.open' and args and isinstance(args[0], str | pathlib.PurePath) and str(args[0]).startswith(self.repo.root) \
                and (len(args) < 2 or args[1] in ('r', 'rt')) and kwargs.get('mode', 'r') in ('r', 'rt'):
            return io.StringIO(pathlib.Path(args[0]).read_text(encoding='utf-8'))
        return super().call_ext(interp, path, args, kwargs, node)


def scalar_of(v):
    if v is None:
        return None
    if isinstance(v, SVar):
        return (v.members.get('value'), v.members.get('variance'), repr(v.unit))
    return repr(v)


def expect_scalar(value: str, std: str, unit: str):
    if value == '':
        return None
    return (float(value), float(std) ** 2 if std != '' else None, unit)


def atom_lookup(repo, it, name):
    """('raise', exc) or ('return', z, weight, mass) of Atom.for_isotope(name), weight / mass read through the public accessors
    (None where the accessor refuses with ValueError: the table has no value)."""
    afi = repo.func('atoms', 'Atom.for_isotope')
    outs = it.run_all(lambda i: i.call_function(afi, [name], {}))
    if len(outs) != 1:
        return ('paths', [(o.kind, o.exc_type, o.where) for o in outs])
    if outs[0].kind != 'return' or not isinstance(outs[0].value, SObj):
        return ('raise', outs[0].exc_type)
    atom = outs[0].value
    vals = []
    for prop in ('atomic_weight', 'atomic_mass'):
        pfi = repo.func('atoms', f'Atom.{prop}')
        po = it.run_all(lambda i, f_=pfi: i.call_function(f_, [], {}, bound=atom))
        if len(po) == 1 and po[0].kind == 'return':
            vals.append(scalar_of(po[0].value))
        elif len(po) == 1 and po[0].kind == 'raise' and po[0].exc_type == 'ValueError':
            vals.append(None)
        else:
            vals.append(('unexpected', [(o.kind, o.exc_type) for o in po]))
    return ('return', atom.attrs.get('z'), vals[0], vals[1], atom.attrs.get('isotope'))


def _lookup_chunk_public(repo, it, fname, table, keys, misses):
    out = []
    for name in keys:
        row = table[name]
        r = atom_lookup(repo, it, name)
        if r[0] != 'return':
            out.append((fname, name, 'found', False, f'key of the table is not found: {r}'))
            continue
        out.append((fname, name, 'found', True, ''))
        if fname == 'atomic_weights.csv':
            want = (int(row[0]), expect_scalar(row[1], row[2], 'Da'))
            got = (r[1], r[2])
        else:
            want = expect_scalar(row[0], row[1], 'Da')
            got = r[3]
        out.append((fname, name, 'value', got == want, {'returned': got, 'tabulated': want}))
    for name in misses:
        r = atom_lookup(repo, it, name)
        ok = r[0] == 'raise'
        out.append((fname, name, 'miss', ok, '' if ok else f'{name!r} is not a key of the table but Atom.for_isotope answers {r}'))
    return out


_WORKER = {}


def _lookup_chunk(job):
    """Interpret the loader of one table for a list of keys and a list of near misses."""
    fname, keys, misses = job
    if 'repo' not in _WORKER:
        _WORKER['repo'] = Repo()
    repo = _WORKER['repo']
    spec = FILES[fname]
    try:
        lfi = repo.func(*spec['loader'])
    except AnalysisError:
        lfi = None  # a private loader: the table is then read through Atom.for_isotope and the public accessors
    path = os.path.join(os.path.dirname(repo.module('atoms').path), fname)
    with open(path, encoding='utf-8', newline='') as f:
        lines = f.read().splitlines()
    table = {}
    for r in csv.reader(lines):
        if r and not r[0].startswith('#'):
            table.setdefault(r[0], r[1:])
    T.reset()
    it = Interp(repo, AtomsModel(repo))
    out = []
    if lfi is None:
        return _lookup_chunk_public(repo, it, fname, table, keys, misses)
    for name in keys:
        row = table[name]
        outs = it.run_all(lambda i, n=name: i.call_function(lfi, [n], {}))
        if len(outs) != 1 or outs[0].kind != 'return':
            out.append((fname, name, 'found', False, f'key of the table is not found: {[(o.kind, o.exc_type, o.where, getattr(o, "exc_args", ())) for o in outs]}'))
            continue
        out.append((fname, name, 'found', True, ''))
        v = outs[0].value
        if fname == 'scattering_parameters.csv':
            ok = isinstance(v, SObj) and v.attrs.get('isotope') == name
            diffs = {}
            if ok:
                for k, (field, unit) in enumerate(NIST_COLUMNS):
                    want = expect_scalar(row[2 * k], row[2 * k + 1], unit)
                    got = scalar_of(v.attrs.get(field))
                    if got != want:
                        diffs[field] = {'returned': got, 'tabulated': want}
            out.append((fname, name, 'value', ok and not diffs, diffs if ok else f'returned {v!r}'))
        elif fname == 'atomic_weights.csv':
            want = (int(row[0]), expect_scalar(row[1], row[2], 'Da'))
            got = (v[0], scalar_of(v[1])) if isinstance(v, tuple) and len(v) == 2 else repr(v)
            out.append((fname, name, 'value', got == want, {'returned': got, 'tabulated': want}))
        else:
            want = expect_scalar(row[0], row[1], 'Da')
            got = scalar_of(v)
            out.append((fname, name, 'value', got == want, {'returned': got, 'tabulated': want}))
    for name in misses:
        outs = it.run_all(lambda i, n=name: i.call_function(lfi, [n], {}))
        ok = len(outs) == 1 and outs[0].kind == 'raise'
        out.append((fname, name, 'miss', ok, '' if ok else f'{name!r} is not a key of the table but the loader returns {[scalar_of(o.value) if not isinstance(o.value, SObj | tuple) else repr(o.value)[:200] for o in outs]}'))
    return out


def check_name_parser(repo, fi, max_len):
    """Finite-domain evaluation of _parse_isotope_name over every string of length <= max_len from a
    small alphabet: it must return the maximal ASCII-letter run that follows the leading digits, and
    fail when there is none."""
    import itertools
    T.reset()
    it = Interp(repo, AtomsModel(repo))
    alphabet = '19aZ _-,'
    n = 0
    for ln in range(0, max_len + 1):
        for tup in itertools.product(alphabet, repeat=ln):
            s_ = ''.join(tup)
            n += 1
            i = 0
            while i < len(s_) and s_[i].isdigit():
                i += 1
            j = i
            while j < len(s_) and s_[j].isascii() and s_[j].isalpha():
                j += 1
            want = s_[i:j] if j > i else None
            outs = it.run_all(lambda i_, s=s_: i_.call_function(fi, [s], {}))
            got = outs[0].value if len(outs) == 1 and outs[0].kind == 'return' else None
            if len(outs) != 1 or got != want:
                return False, {'string': s_, 'returned': got, 'expected': want, 'outcome': [(o.kind, o.exc_type) for o in outs]}
    return True, {'strings_enumerated': n}
