"""C20 — bundled nuclear data are returned verbatim; attenuation follows the 1/v law."""

from __future__ import annotations

import ast
import csv
import os
import re

from sa import term as T
from sa.interp import Interp, SObj, SVar
from sa.kernel import P, make_param, run_kernel
from sa.load import AnalysisError, Repo, loc
from sa.report import Run
from sa.scipp_model import Model
from sa.term import Rat
from sa.units import Unit

from .common import eq_term, events

NIST_COLUMNS = [
    ('coherent_scattering_length_re', 'fm'), ('coherent_scattering_length_im', 'fm'),
    ('incoherent_scattering_length_re', 'fm'), ('incoherent_scattering_length_im', 'fm'),
    ('coherent_scattering_cross_section', 'barn'), ('incoherent_scattering_cross_section', 'barn'),
    ('total_scattering_cross_section', 'barn'), ('absorption_cross_section', 'barn'),
]
FILES = {
    'scattering_parameters.csv': dict(loader=('atoms', 'ScatteringParams.for_isotope'), fields=17),
    'atomic_weights.csv': dict(loader=('atoms', '_load_atomic_weight'), fields=4),
    'atomic_masses.csv': dict(loader=('atoms', '_load_atomic_mass'), fields=3),
}


def is_number(s: str) -> bool:
    try:
        float(s)
        return True
    except ValueError:
        return False


def run(tier: str) -> Run:
    run = Run('C20', tier, 'other',
              'Decided from the source and the three bundled CSV files (read as data, never through '
              'the package): the lookup compares the first CSV field with ==; each loader skips exactly '
              'the leading non-data lines of the file it opens; the column -> field -> unit mapping of '
              'the scattering table is the NIST column order; blank cells give None and uncertainties '
              'are squared (also an uncertainty of 0); the tables have constant field counts, unique '
              'keys and numeric-or-blank cells; the isotope-name pattern is optional digits followed by '
              'one letters-only group and element vs isotope is decided by equality; the attenuation '
              'coefficient normalises to n*(sigma_s + sigma_a*lambda/1.7982 angstrom).  That a float '
              'parsed from text equals the tabulated decimal is Python\'s float() and not decided.')
    repo = Repo()
    mi = repo.module('atoms')
    run.analysed = {'modules': ['atoms', 'absorption.material'], 'digest': repo.digest.hexdigest()}
    run.trusted = ['python csv/float parsing', 'sa/scipp_model.py']
    adir = os.path.dirname(mi.path)

    # ---- R1 exact-match lookup -------------------------------------------------
    r1 = run.rule('R1', 'lookup returns a row only when its first field == the requested name', 1)
    fi = repo.func('atoms', '_find_line_with_isotope')
    ok, detail = check_lookup(fi)
    r1.check(ok, '_find_line_with_isotope', loc(fi), detail, key='lookup')

    # ---- R2 header lines -----------------------------------------------------------
    r2 = run.rule('R2', 'lines skipped by each loader == leading non-data lines of its file', 3)
    r4 = run.rule('R4', 'table lint: constant field count, unique keys, numeric-or-blank cells', 3)
    tables = {}
    for fname, spec in FILES.items():
        path = os.path.join(adir, fname)
        if not os.path.exists(path):
            raise AnalysisError(f'bundled table {fname} not found')
        with open(path, encoding='utf-8', newline='') as f:
            lines = f.read().splitlines()
        n_head = 0
        for ln in lines:
            cells = ln.split(',')
            if ln.startswith('#') or (len(cells) > 1 and not is_number(cells[1]) and cells[1] != '' and not cells[0][:1].isdigit()
                                      and not any(is_number(c) for c in cells[1:])):
                n_head += 1
            else:
                break
        lfi = repo.func(*spec['loader'])
        opened, skipped = loader_skips(lfi)
        r2.check(opened == fname and skipped == n_head, fname, loc(lfi),
                 {'file_opened': opened, 'lines_skipped_by_loader': skipped, 'leading_non_data_lines': n_head,
                  'first_lines': lines[:3]}, key=fname)
        rows = list(csv.reader(lines[n_head:]))
        keys = [r[0] for r in rows]
        bad_len = [r[0] for r in rows if len(r) != spec['fields']]
        dup = sorted({k for k in keys if keys.count(k) > 1}) if len(set(keys)) != len(keys) else []
        bad_cell = [(r[0], c) for r in rows for c in r[1:] if c != '' and not is_number(c)]
        r4.check(not bad_len and not dup and not bad_cell and len(rows) > 0, fname, f'src/scippneutron/atoms/{fname}',
                 {'rows': len(rows), 'fields': spec['fields'], 'wrong_length': bad_len[:3], 'duplicates': dup[:3],
                  'non_numeric': bad_cell[:3]}, key=fname)
        tables[fname] = rows
    run.extra['rows'] = {k: len(v) for k, v in tables.items()}

    # ---- R3 column mapping + _assemble_scalar -------------------------------------------
    r3 = run.rule('R3', 'column pairs (2k, 2k+1) map to the 8 NIST fields with units fm x4, barn x4; weights and masses in Da', 10)
    pfi = repo.func('atoms', 'ScatteringParams._parse_line')
    mapping = parse_line_mapping(pfi)
    for k, (field, unit) in enumerate(NIST_COLUMNS):
        got = mapping.get(field)
        r3.check(got == (2 * k, 2 * k + 1, unit), field, loc(pfi), {'computed': got, 'expected': (2 * k, 2 * k + 1, unit)}, key=field)
    for lname in ('_load_atomic_weight', '_load_atomic_mass'):
        lfi = repo.func('atoms', lname)
        units = [ast.literal_eval(c.args[2]) for c in ast.walk(lfi.node)
                 if isinstance(c, ast.Call) and ast.unparse(c.func) == '_assemble_scalar' and len(c.args) == 3
                 and isinstance(c.args[2], ast.Constant)]
        r3.check(units == ['Da'], lname, loc(lfi), {'units': units}, key=lname)

    r3b = run.rule('R3b', '_assemble_scalar: blank value -> None; variance = uncertainty**2 (0 stays 0); blank uncertainty -> no variance', 4)
    afi = repo.func('atoms', '_assemble_scalar')
    cases = [(('1.5', '0.5', 'fm'), (1.5, 0.25, 'fm')), (('12.0', '0.0000000', 'Da'), (12.0, 0.0, 'Da')),
             (('2.5', '', 'barn'), (2.5, None, 'barn')), (('', '0.1', 'fm'), None)]
    for args, want in cases:
        T.reset()
        it = Interp(repo, Model())
        outs = it.run_all(lambda i, a=args: i.call_function(afi, list(a), {}))
        got = None
        ok = len(outs) == 1 and outs[0].kind == 'return'
        if ok:
            v = outs[0].value
            if v is None:
                got = None
            elif isinstance(v, SVar):
                got = (v.members.get('value'), v.members.get('variance'), repr(v.unit))
            else:
                got = repr(v)
        r3b.check(ok and got == want, f'_assemble_scalar{args}', loc(afi), {'computed': got, 'expected': want}, key=f'assemble{args}')

    # ---- R5 isotope-name pattern ------------------------------------------------------
    r5 = run.rule('R5', 'isotope name pattern: optional digits then one letters-only group, matched at the start; element vs isotope by ==', 2)
    nfi = repo.func('atoms', '_parse_isotope_name')
    pat = None
    how = None
    for c in ast.walk(nfi.node):
        if isinstance(c, ast.Call) and isinstance(c.func, ast.Attribute) and c.func.attr in ('match', 'fullmatch', 'search') \
                and c.args and isinstance(c.args[0], ast.Constant):
            pat, how = c.args[0].value, c.func.attr
    ok, detail = check_pattern(pat, how)
    r5.check(ok, '_parse_isotope_name', loc(nfi), detail, key='pattern')
    afi2 = repo.func('atoms', 'Atom.for_isotope')
    eq = [ast.unparse(n) for n in ast.walk(afi2.node) if isinstance(n, ast.Compare) and len(n.ops) == 1 and isinstance(n.ops[0], ast.Eq)
          and {ast.unparse(n.left), ast.unparse(n.comparators[0])} == {'element', 'isotope'}]
    r5.check(bool(eq), 'Atom.for_isotope', loc(afi2), {'comparison': eq}, key='element-vs-isotope')

    # ---- R6 attenuation coefficient ------------------------------------------------------
    r6 = run.rule('R6', 'attenuation = n * (sigma_s + sigma_a * lambda / 1.7982 angstrom), dimension 1/length, no integer truncation', 4)
    mfi = repo.func('absorption.material', 'Material.attenuation_coefficient')
    mat_cls = repo.cls('absorption.material', 'Material')
    sp_cls = repo.cls('atoms', 'ScatteringParams')
    for dt in ('float64', 'float32', 'int64'):
        def bound(it):
            sigma_s = make_param(it, 'sigma_s', P(dim='AREA', unit=Unit.named('barn')))
            sigma_a = make_param(it, 'sigma_a', P(dim='AREA', unit=Unit.named('barn')))
            n = make_param(it, 'n', P(dim='L^-3'))
            sp = SObj(sp_cls, {'total_scattering_cross_section': sigma_s, 'absorption_cross_section': sigma_a})
            return SObj(mat_cls, {'scattering_params': sp, 'effective_sample_number_density': n})
        outs = run_kernel(repo, mfi, {'wavelength': P(dim='L', data=True)}, dtypes={'wavelength': dt}, bound=bound)
        probs = []
        ok = len(outs) == 1 and outs[0].kind == 'return' and isinstance(outs[0].value, SVar) and outs[0].value.term is not None
        detail = {}
        if ok:
            v = outs[0].value
            S_ = lambda n_: Rat.sym(n_, positive=True)  # noqa: E731
            want = S_('n') * (S_('sigma_s') + S_('sigma_a') * S_('wavelength') / (Rat.const(1.7982) * Unit.named('angstrom').scale()))
            ok = eq_term(v.term, want)
            detail = {'computed': T.show(v.term), 'documented': T.show(want), 'unit': repr(v.unit)}
            for e in events(outs[0], 'narrowing-cast', 'int-unit-conversion', 'unit-conversion-incompatible'):
                probs.append({'event': e.kind, **e.detail, 'where': e.where})
            try:
                dim_ok = v.unit.dim(outs[0].interp.param_dims) == Unit.named('m').dim({}) and False
            except Exception:  # noqa: BLE001
                dim_ok = None
            inv_len = tuple(-x for x in Unit.named('m').dim({}))
            detail['dimension_is_inverse_length'] = v.unit.dim({'n': 'L^-3', 'wavelength': 'L'}) == inv_len
            ok = ok and detail['dimension_is_inverse_length'] and not probs
        else:
            detail = {'outcomes': [(o.kind, o.exc_type, o.where) for o in outs]}
        r6.check(ok, f'attenuation_coefficient[wavelength={dt}]', loc(mfi), {**detail, 'problems': probs[:2]}, key='attenuation')
    rfi = repo.func('atoms', 'reference_wavelength')
    T.reset()
    it = Interp(repo, Model())
    outs = it.run_all(lambda i: i.call_function(rfi, [], {}))
    v = outs[0].value if outs and outs[0].kind == 'return' else None
    r6.check(isinstance(v, SVar) and v.members.get('value') == 1.7982 and v.unit == Unit.named('angstrom'), 'reference_wavelength',
             loc(rfi), {'value': getattr(v, 'members', {}).get('value'), 'unit': repr(getattr(v, 'unit', None))}, key='reference')
    return run


def check_lookup(fi):
    """Every `return <non-None>` sits under `if <first field> == <requested name>`."""
    param = fi.node.args.args[0].arg
    first_field = None
    for n in ast.walk(fi.node):
        if isinstance(n, ast.Assign) and isinstance(n.targets[0], ast.Tuple) and isinstance(n.value, ast.Call) \
                and isinstance(n.value.func, ast.Attribute) and n.value.func.attr == 'split':
            first_field = n.targets[0].elts[0].id
            sep = n.value.args[0].value if n.value.args and isinstance(n.value.args[0], ast.Constant) else None
            if sep != ',':
                return False, {'split_separator': sep}
    if first_field is None:
        return False, {'problem': 'no `name, rest = line.split(",", 1)` found'}
    guarded = []
    unguarded = []

    def walk(body, guards):
        for st in body:
            if isinstance(st, ast.Return) and st.value is not None and not (isinstance(st.value, ast.Constant) and st.value.value is None):
                (guarded if any(g for g in guards) else unguarded).append(ast.unparse(st))
                if guards and not all(guards):
                    pass
            elif isinstance(st, ast.If):
                t = st.test
                good = isinstance(t, ast.Compare) and len(t.ops) == 1 and isinstance(t.ops[0], ast.Eq) \
                    and {ast.unparse(t.left), ast.unparse(t.comparators[0])} == {first_field, param}
                walk(st.body, [*guards, good])
                walk(st.orelse, guards)
            elif isinstance(st, ast.While | ast.For | ast.With | ast.Try):
                walk(st.body, guards)
                walk(getattr(st, 'orelse', []), guards)
    walk(fi.node.body, [])
    tests = [ast.unparse(n.test) for n in ast.walk(fi.node) if isinstance(n, ast.If)]
    return bool(guarded) and not unguarded, {'first_field': first_field, 'conditions': tests, 'unguarded_returns': unguarded}


def loader_skips(fi):
    """(file name opened, number of f.readline() statements before the lookup)."""
    opened = None
    skipped = 0
    for n in ast.walk(fi.node):
        if isinstance(n, ast.Call) and ast.unparse(n.func) == '_open_bundled_parameters_file' and n.args \
                and isinstance(n.args[0], ast.Constant):
            opened = n.args[0].value
    for n in ast.walk(fi.node):
        if isinstance(n, ast.With):
            for st in n.body:
                if isinstance(st, ast.Expr) and isinstance(st.value, ast.Call) and isinstance(st.value.func, ast.Attribute) \
                        and st.value.func.attr == 'readline':
                    skipped += 1
                elif isinstance(st, ast.For | ast.While):
                    skipped = -1
    return opened, skipped


def parse_line_mapping(fi):
    out = {}
    for n in ast.walk(fi.node):
        if isinstance(n, ast.Call) and ast.unparse(n.func).endswith('ScatteringParams'):
            for kw in n.keywords:
                c = kw.value
                if isinstance(c, ast.Call) and ast.unparse(c.func) == '_assemble_scalar' and len(c.args) == 3:
                    idx = []
                    for a in c.args[:2]:
                        if isinstance(a, ast.Subscript) and ast.unparse(a.value) == 'line' and isinstance(a.slice, ast.Constant):
                            idx.append(a.slice.value)
                    unit = c.args[2].value if isinstance(c.args[2], ast.Constant) else None
                    if len(idx) == 2:
                        out[kw.arg] = (idx[0], idx[1], unit)
    # `line` must be the remainder split on ','
    splits = [ast.unparse(n) for n in ast.walk(fi.node) if isinstance(n, ast.Call) and isinstance(n.func, ast.Attribute) and n.func.attr == 'split']
    if not any("split(',')" in s for s in splits):
        return {}
    return out


def check_pattern(pat, how):
    """Finite-domain evaluation of the constant pattern: over every string of length
    <= 5 from a small alphabet it must behave like `digits* letters+` anchored at the
    start, capturing exactly the maximal letter run."""
    if pat is None:
        return False, {'problem': 'no literal pattern'}
    import itertools
    detail = {'pattern': pat, 'method': how}
    if how not in ('match', 'fullmatch'):
        detail['problem'] = 'pattern is not anchored at the start'
        return False, detail
    try:
        rx = re.compile(pat)
    except re.error as ex:
        return False, {**detail, 'problem': str(ex)}
    alphabet = '19aZ _-,'
    n = 0
    for ln in range(0, 6):
        for tup in itertools.product(alphabet, repeat=ln):
            s_ = ''.join(tup)
            n += 1
            i = 0
            while i < len(s_) and s_[i].isdigit():
                i += 1
            j = i
            while j < len(s_) and s_[j].isascii() and s_[j].isalpha():
                j += 1
            want = s_[i:j] if j > i else None
            m = getattr(rx, how)(s_)
            got = m[1] if m else None
            if how == 'fullmatch':
                want = want if j == len(s_) else None
            if got != want:
                return False, {**detail, 'string': s_, 'captured': got, 'expected': want}
    detail['strings_enumerated'] = n
    return True, detail
