"""C01 — elastic TOF kinematics reproduce the de Broglie / Bragg definitions."""

from __future__ import annotations

from sa import term as T
from sa.interp import FuncRef, SVar
from sa.kernel import run_kernel, specs_for
from sa.load import AnalysisError, Repo, loc
from sa.report import Run
from spec import formulas

from .common import elastic_graphs, eq_term, events, history_free, kernel_histories, returns, show, term_of

KERNELS = [
    'wavelength_from_tof', 'dspacing_from_tof', 'energy_from_tof', 'energy_from_wavelength',
    'wavelength_from_energy', 'Q_from_wavelength', 'wavelength_from_Q',
    'dspacing_from_wavelength', 'dspacing_from_energy',
]
# operations allowed on the data path of a power-product kernel
ALLOWED_OPS = {'mul', 'div', 'pow', 'sqrt', 'sin', 'cast', 'unit-scale', 'reciprocal'}
MAX_OPS = 14  # frozen: today's maximum is 9 (dspacing_from_tof)


class Branching(Exception):
    """The kernel branches on its (symbolic) inputs or refuses some of them."""

    def __init__(self, fi, outs):
        self.fi, self.outs = fi, outs
        self.detail = {'paths': [(o.kind, o.exc_type, o.where) for o in outs][:6],
                       'documented': 'one formula for all valid inputs, no refusal'}


def single_return(outs, fi):
    """The one result of a kernel: no path refuses, and all paths (an implementation may branch, e.g. around a memo table) return
    the same normal form, unit and dtype."""
    rs = returns(outs)
    if not rs or len(rs) != len(outs):
        raise Branching(fi, outs)
    first = rs[0].value
    for o in rs[1:]:
        v = o.value
        same = isinstance(v, SVar) and isinstance(first, SVar) and v.unit == first.unit and v.dtype == first.dtype and \
            ((v.term is None and first.term is None) or (v.term is not None and first.term is not None and eq_term(v.term, first.term)))
        if not same:
            raise Branching(fi, outs)
    return rs[0]


def run(tier: str) -> Run:
    try:
        return _run(tier)
    except Branching as b:
        r = Run('C01', tier, 'other', 'see the regular run; this run stopped at a kernel that branches on its inputs')
        r.analysed = {'modules': ['conversion.tof']}
        rr = r.rule('R0', 'every elastic kernel is one formula for all valid inputs (no data-dependent branch, no refusal)', 1)
        rr.fail(b.fi.qualname, loc(b.fi), b.detail, key=f'{b.fi.qualname}:branching')
        return r


def _run(tier: str) -> Run:
    run = Run('C01', tier, 'other',
              'Each elastic kernel of conversion/tof.py is interpreted once over its AST in an exact '
              'algebraic normal form (power products of the parameters and of the scipp.constants '
              'symbols h, m_n, pi); the normal form is compared with the documented formula by '
              'cross-multiplication.  The graph tables are partially evaluated and every entry is '
              'checked to be one-step sound against the documented definition of its target, which '
              'by induction makes every route through any graph compute the same function; the '
              'inverse pairs are composed symbolically.  The rounding clause is decided only as an '
              'operation-discipline rule (no add/sub on the data path, bounded number of rounding '
              'operations, no narrowing cast on a float64 path); the error of a concrete run is '
              'not measured.')
    repo = Repo()
    run.analysed = {'modules': ['conversion.tof', 'conversion.graph.tof', '_utils'], 'digest': repo.digest.hexdigest()}
    run.trusted = ['sa/scipp_model.py (semantics of scipp operations)', 'spec/formulas.py', 'sa/term.py normal form']
    run.assumptions = ['physical quantities under a fractional power are positive',
                       'scipp.to_unit preserves the physical value',
                       'scipp.transform_coords evaluates a graph node from its parameter names']

    r1 = run.rule('R1', 'kernel normal form equals the documented power product, with h, m_n, pi from scipp.constants', 9)
    r2 = run.rule('R2', 'rounding discipline: only mul/div/sqrt/pow/sin on the data path, bounded op count, no narrowing cast for float64 data', 9)
    r8 = run.rule('R8', 'no kernel writes to its arguments: the next route through the graph (and the inverse conversion) finds the inputs as they were', 9)
    results = {}
    for name in KERNELS:
        fi = repo.func('conversion.tof', name)
        specs = specs_for(fi)
        outs_all = run_kernel(repo, fi, specs)
        writes = [dict(e.detail, where=e.where) for o_ in outs_all for e in events(o_, 'mutates-param')]
        r8.check(not writes, name, (writes[0]['where'] if writes else loc(fi)), {'writes': writes[:3]}, key=f'conversion.tof:{name}:writes-argument')
        out = single_return(outs_all, fi)
        got = term_of(out.value, fi)
        want = formulas.kernel_formulas()[name]
        results[name] = got
        r1.check(eq_term(got, want), name, loc(fi), {'computed': T.show(got), 'documented': T.show(want)},
                 key=f'conversion.tof:{name}')
        # constants must come from scipp.constants: literal stand-ins show up as a
        # different normal form (R1); U:<param> symbols show up if a raw number was
        # re-labelled with an input unit.
        ops = sorted({op for _, op, _ in out.value.hist})
        bad_ops = [op for op in ops if op not in ALLOWED_OPS]
        narrowing = events(out, 'narrowing-cast')
        ok = not bad_ops and len(out.value.hist) <= MAX_OPS and not narrowing
        r2.check(ok, name, loc(fi),
                 {'ops': ops, 'n_ops': len(out.value.hist), 'max': MAX_OPS,
                  'forbidden_ops': bad_ops, 'narrowing_casts': [e.where for e in narrowing]},
                 key=f'conversion.tof:{name}')
        # float32 data: exactly the data operand's precision (checked in C07); here the
        # float32 path must still respect the op discipline
        if tier == 'thorough':
            data = [p for p, s in specs.items() if s.data]
            out32 = single_return(run_kernel(repo, fi, specs, dtypes={p: 'float32' for p in data}), fi)
            ops32 = sorted({op for _, op, _ in out32.value.hist})
            bad32 = [op for op in ops32 if op not in ALLOWED_OPS]
            r2.check(not bad32 and len(out32.value.hist) <= MAX_OPS, name + '[float32 data]', loc(fi),
                     {'ops': ops32, 'n_ops': len(out32.value.hist)}, key=f'conversion.tof:{name}[f32]')

    # ---- R5: precision class over the mixed dtype grid ----------------------
    r5 = run.rule('R5', 'with a float64 data operand, sin(theta) is evaluated in float64 in every kernel that takes '
                        'two_theta (a float32 angle is widened first; sibling agreement)', 5)
    import itertools
    for name in KERNELS:
        fi = repo.func('conversion.tof', name)
        specs = specs_for(fi)
        scalars = [p for p, s_ in specs.items() if s_.kind == 'scalar']
        data = [p for p, s_ in specs.items() if s_.data]
        for combo in itertools.product(('float64', 'float32'), repeat=len(scalars)):
            dt = dict(zip(scalars, combo, strict=True))
            if any(dt[p] == 'float32' for p in data) or all(d == 'float64' for d in combo):
                continue
            out = single_return(run_kernel(repo, fi, specs, dtypes=dt), fi)
            low = sorted({op for _, op, d in out.value.hist if d == 'float32' and op in ('sin', 'cos', 'tan')})
            if 'two_theta' not in specs or dt.get('two_theta') != 'float32':
                continue
            inst = f'{name}[' + ','.join(f'{p}={d}' for p, d in dt.items()) + ']'
            r5.check(not low and out.value.dtype == 'float64', inst, loc(fi),
                     {'float32_operations': low, 'result_dtype': out.value.dtype}, key=f'conversion.tof:{name}:single-precision-op')

    # ---- R7: single precision over the whole quantified box -------------------
    r7 = run.rule('R7', 'float32 inputs anywhere in 1e-9..1e9 (SI) in any unit of the grid: whenever the exact result is a normal float32, no '
                        'power-product intermediate overflows or drops below the magnitude (7e-41) where a subnormal still has 1e-5 accuracy', 9)
    from checks.magrule import WIDE, worst_f32_given_result
    run.extra['single_precision_box_SI'] = {k: list(v) for k, v in WIDE.items()}
    for name in KERNELS:
        fi = repo.func('conversion.tof', name)
        worst, n_runs, n_checked = worst_f32_given_result(repo, fi, corners=tier == 'quick')
        if n_runs == 0:
            raise AnalysisError(f'{fi.fq}: parameters outside the table of ranges')
        r7.check(worst is None, name, (worst or {}).get('where') or loc(fi),
                 {'unit_assignments': n_runs, 'intermediates_bounded': n_checked, 'worst': worst}, key=f'conversion.tof:{name}:f32-box')

    # ---- R6: kernels are history-free -----------------------------------------
    r6 = run.rule('R6', 'results do not depend on call history: after any other kernel call (other units, other precision, another kernel) a kernel '
                        'returns what it returns in a fresh interpreter (two-call histories interpreted in one world: memo tables, lru_cache '
                        'stores and globals persist); no memoised object is handed out', 9)
    kfis = [repo.func('conversion.tof', n) for n in KERNELS]
    history_free(repo, kfis, r6, histories=kernel_histories(repo, kfis))

    # ---- R3: graph wiring ------------------------------------------------
    r3 = run.rule('R3', 'every graph entry q -> f(params) satisfies term(f)[p := D(p)] == D(q) (one-step soundness)', 23)
    table = elastic_graphs(repo)  # through the public factory, not a private table name
    entries = []
    for origin, graph in table.items():
        for key, ref in graph.items():
            entries.append((f'elastic[{origin}]', key, ref))
    for fac in ('direct_inelastic', 'indirect_inelastic'):
        pass  # inelastic entries are wired in C05/C02; counted there
    gmi = repo.module('conversion.graph.tof')
    unspecified = []
    for gname, key, ref in entries:
        if not isinstance(ref, FuncRef):
            raise AnalysisError(f'graph entry {gname}[{key!r}] is not a function of the package')
        fi = ref.fi
        specs = specs_for(fi)
        outs = returns(run_kernel(repo, fi, specs))
        if not outs:
            raise AnalysisError(f'{fi.fq} has no returning path')
        D = formulas.definitions()
        mapping = {}
        for p in specs:
            a = formulas.param_atom(p)
            if a is None:
                continue
            if p not in D:
                raise AnalysisError(f'no definition for graph input {p}')
            mapping[a.id] = D[p]
        keys = key if isinstance(key, tuple) else (key,)
        for out in outs:
            for k in keys:
                inst = f'{gname}[{k}] = {fi.qualname}'
                if k not in D:
                    unspecified.append(inst)
                    continue
                val = out.value[k] if isinstance(out.value, dict) else out.value
                if isinstance(out.value, dict) and k not in out.value:
                    r3.fail(inst, loc(gmi.functions['elastic']), f'kernel does not return key {k}', key=inst)
                    continue
                got = term_of(val, fi).subst(mapping)
                r3.check(eq_term(got, D[k]), inst, f'{gmi.path.split("/src/")[-1]}:elastic',
                         {'computed': T.show(got), 'definition': T.show(D[k])}, key=inst)
    run.extra['unspecified_graph_nodes'] = unspecified

    # ---- R4: inverse pairs and agreement of routes -------------------------
    r4 = run.rule('R4', 'round trips and route agreement as identities of composed kernel terms', 5)

    def kern(name, keep=True):
        fi = repo.func('conversion.tof', name)
        out = single_return(run_kernel(repo, fi, specs_for(fi), keep_table=keep), fi)
        return term_of(out.value, fi), fi

    def composed(outer: str, inner: str, param: str):
        """term(outer)[param := term(inner)] in one atom table"""
        t_in, _ = kern(inner, keep=False)
        t_out, fo = kern(outer)
        a = formulas.param_atom(param)
        return t_out.subst({a.id: t_in}), T.show(t_in), fo

    cases = [
        ('lambda->E->lambda', 'wavelength_from_energy', 'energy_from_wavelength', 'energy', lambda: formulas.S('wavelength')),
        ('E->lambda->E', 'energy_from_wavelength', 'wavelength_from_energy', 'wavelength', lambda: formulas.S('energy')),
        ('lambda->Q->lambda', 'wavelength_from_Q', 'Q_from_wavelength', 'Q', lambda: formulas.S('wavelength')),
        ('d(E) == d(lambda(E))', 'dspacing_from_wavelength', 'wavelength_from_energy', 'wavelength', None),
    ]
    for label, outer, inner, param, want in cases:
        got, inner_text, fo = composed(outer, inner, param)
        if want is None:
            expected, _ = kern('dspacing_from_energy')
        else:
            expected = want()
        r4.check(eq_term(got, expected), label, loc(fo), {'composed': T.show(got), 'expected': T.show(expected)}, key=label)
    # Q*d = 2*pi
    tq, fq = kern('Q_from_wavelength', keep=False)
    td, _ = kern('dspacing_from_wavelength')
    prod = tq * td
    r4.check(eq_term(prod, 2 * formulas.pi()), 'Q*d == 2*pi', loc(fq), {'product': T.show(prod)}, key='Q*d')
    return run
