"""C17 — peak fitting returns one coherent result per peak; removal touches only windows."""

from __future__ import annotations

import ast

from sa.cfg import CFG, EXIT
from sa.effects import Effects
from sa.load import AnalysisError, Repo, loc
from sa.report import Run

CONSUMERS = ('_guess_background', '_guess_peak', '_fit_background', '_perform_fit')
REQUIREMENTS = {
    'background_is_better': 'aic',
    'p_too_small': 'p_value',
    'peak_near_edge': '_peak_is_near_edge',
    'peak_points_down': '_curve_points_down',
    'peak_too_wide': '_peak_is_too_wide',
    'peak_too_narrow': '_peak_is_too_narrow',
}


def returns_call_of(st, name: str) -> bool:
    return isinstance(st, ast.Return) and st.value is not None and name in ast.unparse(st.value)


def norm(node) -> str:
    return ast.unparse(node).replace(' ', '')


def stmt_texts(fn) -> list[str]:
    return [norm(s) for s in ast.walk(fn) if isinstance(s, ast.stmt) and not isinstance(s, ast.FunctionDef | ast.If | ast.For | ast.Try | ast.With)]


def run(tier: str) -> Run:
    run = Run('C17', tier, 'other',
              'Control-flow and table rules over peaks/_fit_peaks.py and _remove_peaks.py (statement CFG '
              'with dominators): the point-count guard returning a window-too-narrow result guards '
              'every call that consumes the window data (or such a call sits in a try whose handler '
              'returns a failure result); success is returned only after every requirement check took '
              'its passing arm, and the near-edge check precedes the neighbour indexing; exactly one '
              'result is appended per estimate, in order, first success wins else first candidate; the '
              'statistics are chi2/(n-k), 1-cdf, n ln(chi2/n)+2k computed from popt and the window; '
              'windows are [c-w/2, nextafter(c+w/2)) clipped to the data range with neighbour separation '
              'on interior edges only; remove_peaks copies before subtracting, skips unsuccessful fits '
              'and subtracts eval_peak on the window slice.  Optimiser results and third-party '
              'exceptions are not decided.')
    repo = Repo()
    run.analysed = {'modules': ['peaks._fit_peaks', 'peaks._remove_peaks'], 'digest': repo.digest.hexdigest()}
    run.trusted = ['sa/cfg.py (statement CFG, networkx dominators)']

    # ---- R1 ------------------------------------------------------------------
    r1 = run.rule('R1', 'the point-count guard (window too narrow) guards every consumer of the window data', 4)
    fi = repo.func('peaks._fit_peaks', '_fit_peak_single_model')
    cfg = CFG(fi.node)
    guard = None
    for st in cfg.stmt.values():
        if isinstance(st, ast.If) and st.body and returns_call_of(st.body[-1], 'for_too_narrow_window'):
            guard = st
    if guard is None:
        raise AnalysisError('no `return FitResult.for_too_narrow_window(...)` guard found in _fit_peak_single_model')
    t = guard.test
    shape_ok = isinstance(t, ast.Compare) and len(t.ops) == 1 and (
        (isinstance(t.ops[0], ast.Lt) and norm(t.left) == 'len(data)' and norm(t.comparators[0]) in ('len(p0)', 'len(model.param_names)', 'len(bounds)'))
        or (isinstance(t.ops[0], ast.Gt) and norm(t.comparators[0]) == 'len(data)' and norm(t.left) in ('len(p0)', 'len(model.param_names)')))
    for name in CONSUMERS:
        sites = cfg.calls(lambda c, n=name: ast.unparse(c.func) == n)
        if not sites:
            raise AnalysisError(f'anchor call {name}(...) not found in _fit_peak_single_model')
        bad = []
        for st, call in sites:
            if cfg.guarded_by(st, guard, True):
                continue
            # alternative idiom: the call sits in a try whose handlers all return a failure result
            in_safe_try = False
            for tr in ast.walk(fi.node):
                if isinstance(tr, ast.Try) and any(call is x for b in tr.body for x in ast.walk(b)):
                    hs = tr.handlers
                    in_safe_try = bool(hs) and all(
                        h.body and isinstance(h.body[-1], ast.Return) and any(k in ast.unparse(h.body[-1]) for k in ('for_too_narrow_window', 'for_failure'))
                        and (h.type is None or any(n in ast.unparse(h.type) for n in ('Exception', 'ValueError')))
                        for h in hs)
            if not in_safe_try:
                bad.append(ast.unparse(st)[:90])
        r1.check(not bad and shape_ok, f'{name} after guard', loc(fi, guard),
                 {'guard': ast.unparse(t), 'guard_shape_ok': shape_ok, 'unguarded_statements': bad}, key=f'guard:{name}')

    # ---- R2 -----------------------------------------------------------------------
    r2 = run.rule('R2', 'success is returned only after every requirement check passed; near-edge precedes neighbour indexing', 8)
    afi = repo.func('peaks._fit_peaks', '_assess_fit')
    acfg = CFG(afi.node)
    succ = [st for st in acfg.stmt.values() if isinstance(st, ast.Return) and norm(st.value) == 'FitAssessment.success'] if True else []
    succ = [st for st in acfg.stmt.values() if isinstance(st, ast.Return) and st.value is not None and norm(st.value) == 'FitAssessment.success']
    if len(succ) != 1:
        raise AnalysisError(f'_assess_fit: expected one `return FitAssessment.success`, found {len(succ)}')
    succ = succ[0]
    guards = {}
    for st in acfg.stmt.values():
        if isinstance(st, ast.If) and st.body and isinstance(st.body[-1], ast.Return) and st.body[-1].value is not None:
            v = norm(st.body[-1].value)
            if v.startswith('FitAssessment.'):
                guards[v.split('.')[1]] = st
    parents = {}
    for st in acfg.stmt.values():
        if isinstance(st, ast.If):
            for ch in st.body:
                parents[id(ch)] = st
    for req, needle in REQUIREMENTS.items():
        g = guards.get(req)
        if g is None:
            r2.fail(req, loc(afi), {'problem': f'no check returning FitAssessment.{req}'}, key=req)
            continue
        uses = needle in ast.unparse(g.test) and not (isinstance(g.test, ast.BoolOp) and isinstance(g.test.op, ast.And))
        ok = acfg.guarded_by(succ, g, True)
        if not ok and id(g) in parents:
            p = parents[id(g)]
            ok = 'is not None' in ast.unparse(p.test) and p.body[0] is g and acfg.dominates(p, succ) \
                and not acfg.reachable_via(g, True, succ)
        r2.check(ok and uses, req, loc(afi, g), {'test': ast.unparse(g.test), 'guards_success': ok, 'uses': needle}, key=req)
    r2.check('peak_near_edge' in guards and 'peak_too_narrow' in guards and acfg.dominates(guards['peak_near_edge'], guards['peak_too_narrow']),
             'near-edge before neighbour indexing', loc(afi), {}, key='edge-before-narrow')
    # predicate shapes
    shapes = {
        '_peak_is_too_wide': {'return(fwhm>fit_requirements.max_peak_width_factor*(coord[-1]-coord[0])).value'},
        '_peak_is_too_narrow': {'return(fwhm<fit_requirements.min_peak_width_factor*bin_width).value'},
    }
    for fname, accepted in shapes.items():
        f = repo.func('peaks._fit_peaks', fname)
        texts = stmt_texts(f.node)
        ok = any(a in texts for a in accepted)
        extra = {}
        if fname == '_peak_is_too_narrow':
            ok = ok and 'bin_width=(coord[center_idx+1]-coord[center_idx-1])/2' in texts \
                and "center_idx=np.argmin(abs(coord.values-popt['peak_loc'].values))" in texts
            extra = {'bin_width': [t_ for t_ in texts if t_.startswith('bin_width=')], 'center': [t_ for t_ in texts if t_.startswith('center_idx=')]}
        r2.check(ok, fname, loc(f), {'returns': [t_ for t_ in texts if t_.startswith('return')], **extra}, key=fname)

    # ---- R3 -------------------------------------------------------------------------
    r3 = run.rule('R3', 'one result per estimate, in order; first success wins, else the first candidate', 3)
    ffi = repo.func('peaks._fit_peaks', 'fit_peaks')
    loops = [n for n in ffi.node.body if isinstance(n, ast.For)]
    ok = False
    detail = {}
    if len(loops) == 1:
        lp = loops[0]
        appends = [s for s in lp.body if isinstance(s, ast.Expr) and norm(s.value).startswith('results.append(')]
        jumps = [n for n in ast.walk(lp) if isinstance(n, ast.Break | ast.Continue | ast.Try | ast.Return)]
        it = norm(lp.iter)
        rets = [s for s in ffi.node.body if isinstance(s, ast.Return)]
        ok = len(appends) == 1 and not jumps and it == 'range(windows.sizes[peak_estimates.dim])' \
            and len(rets) == 1 and norm(rets[0].value) == 'results' \
            and any(norm(s) == 'window=windows[peak_estimates.dim,i]' for s in lp.body) \
            and any(norm(s) == 'data_in_window=data[data.dim,window[0]:window[1]]' for s in lp.body)
        detail = {'iter': it, 'appends': len(appends), 'jumps': [type(j).__name__ for j in jumps]}
    r3.check(ok, 'fit_peaks loop', loc(ffi), detail, key='loop')
    pfi = repo.func('peaks._fit_peaks', '_fit_peak')
    pl = [n for n in pfi.node.body if isinstance(n, ast.For)]
    ok = False
    detail = {}
    if len(pl) == 1:
        lp = pl[0]
        body = lp.body
        succ_ret = [s for s in body if isinstance(s, ast.If) and norm(s.test) in ('result.assessment==FitAssessment.success', 'result.success')
                    and len(s.body) == 1 and isinstance(s.body[0], ast.Return) and norm(s.body[0].value) == 'result' and not s.orelse]
        cand = [s for s in body if isinstance(s, ast.If) and norm(s.test) == 'candidate_resultisNone'
                and len(s.body) == 1 and norm(s.body[0]) == 'candidate_result=result' and not s.orelse]
        other_assign = [s for s in ast.walk(lp) if isinstance(s, ast.Assign) and norm(s.targets[0]) == 'candidate_result']
        tail = pfi.node.body[-1]
        ok = len(succ_ret) == 1 and len(cand) == 1 and len(other_assign) == 1 \
            and norm(lp.iter) == 'itertools.product(peaks,backgrounds)' \
            and isinstance(tail, ast.Return) and norm(tail.value) == 'candidate_result' \
            and body.index(succ_ret[0]) < body.index(cand[0])
        detail = {'iter': norm(lp.iter), 'success_return': len(succ_ret), 'candidate_assign': len(cand)}
    r3.check(ok, '_fit_peak selection', loc(pfi), detail, key='selection')
    sfi = repo.func('peaks._fit_peaks', '_fit_peak_single_model')
    texts = stmt_texts(sfi.node)
    r3.check('model=background+peak' in texts, 'model = background + peak', loc(sfi), {}, key='model-sum')

    # ---- R4 --------------------------------------------------------------------------
    r4 = run.rule('R4', 'statistics: chi2 = sum((y-f)^2/var); red = chi2/(n-k); p = 1-cdf(chi2); aic = n ln(chi2/n) + 2k', 3)
    want = {
        '_chi_square': ['aux=(sc.values(data)-best_fit)**2', 'aux/=sc.variances(data)', "returnsc.sum(aux.data).to(unit='one')"],
        '_goodness_of_fit_statistics': ['n_dof=len(data)-len(params)', 'chi_square=_chi_square(data,best_fit)', 'reduced_chi_square=chi_square/n_dof',
                                        'p=sc.scalar(1-_scipy_chi2(n_dof).cdf(chi_square.value))', 'aic=_akaike_information_criterion(data,chi_square,params)',
                                        "return{'red_chisq':reduced_chi_square,'p_value':p,'aic':aic}"],
        '_akaike_information_criterion': ['neg2_log_likelihood=len(data)*sc.log(chi_square/len(data))', 'returnneg2_log_likelihood+2*len(params)'],
    }
    for fname, stmts in want.items():
        f = repo.func('peaks._fit_peaks', fname)
        texts = stmt_texts(f.node)
        missing = [s for s in stmts if s not in texts]
        r4.check(not missing, fname, loc(f), {'missing_statements': missing, 'present': texts[:8]}, key=fname)
    # popt values and window data feed the statistics
    pf = repo.func('peaks._fit_peaks', '_perform_fit')
    texts = stmt_texts(pf.node)
    r4.check('goodness_stats=_goodness_of_fit_statistics(data,best_fit,popt)' in texts
             and any(t_.startswith('best_fit=sc.DataArray(model(data.coords[data.dim],**{k:sc.values(p)fork,pinpopt.items()})') for t_ in texts),
             '_perform_fit feeds popt and window data', loc(pf), {'statements': texts[:6]}, key='perform-fit')

    # ---- R5 windows --------------------------------------------------------------------
    r5 = run.rule('R5', 'windows: [c-w/2, nextafter(c+w/2)) clipped to the data range; neighbour separation on interior edges only', 3)
    want = {
        '_fit_windows': ["windows['range',0]=center-width/2", "windows['range',1]=np.nextafter(center.values+width.value/2,np.inf)",
                         'windows=_clip_to_data_range(data,windows)', '_separate_from_neighbors_in_place(center,windows,fit_parameters)', 'returnwindows'],
        '_clip_to_data_range': ['lo=data.coords[data.dim].min()', 'hi=data.coords[data.dim].max()', 'windows=sc.where(windows<lo,lo,windows)',
                                'windows=sc.where(windows>hi,hi,windows)', 'returnwindows'],
        '_separate_from_neighbors_in_place': ['left_neighbor=center[:-1]', 'right_neighbor=center[1:]',
                                              'min_separation=(right_neighbor-left_neighbor)*fit_parameters.neighbor_separation_factor',
                                              'lo=left_neighbor+min_separation', 'hi=right_neighbor-min_separation',
                                              "left_edge=windows['range',0][1:]", "right_edge=windows['range',1][:-1]",
                                              'left_edge[:]=sc.where(left_edge<lo,lo,left_edge)', 'right_edge[:]=sc.where(right_edge>hi,hi,right_edge)'],
    }
    for fname, stmts in want.items():
        f = repo.func('peaks._fit_peaks', fname)
        texts = stmt_texts(f.node)
        missing = [s for s in stmts if s not in texts]
        r5.check(not missing, fname, loc(f), {'missing_statements': missing}, key=fname)

    # ---- R6 remove_peaks ---------------------------------------------------------------------
    r6 = run.rule('R6', 'remove_peaks: copy before subtracting; unsuccessful fits skipped; subtrahend is eval_peak on the window slice; input not written', 4)
    rfi = repo.func('peaks._remove_peaks', 'remove_peaks')
    rcfg = CFG(rfi.node)
    sub = [st for st in rcfg.stmt.values() if isinstance(st, ast.AugAssign) and isinstance(st.op, ast.Sub)]
    if len(sub) != 1:
        raise AnalysisError('remove_peaks: expected one in-place subtraction')
    sub = sub[0]
    copies = [st for st in rcfg.stmt.values() if isinstance(st, ast.Assign) and 'copy(' in ast.unparse(st.value) and 'deep=False' not in ast.unparse(st.value)]
    r6.check(bool(copies) and any(rcfg.dominates(c, sub) for c in copies), 'deep copy dominates subtraction', loc(rfi, sub),
             {'copies': [ast.unparse(c) for c in copies]}, key='copy')
    skip = [st for st in rcfg.stmt.values() if isinstance(st, ast.If) and norm(st.test) in ('notresult.success', 'result.assessment!=FitAssessment.success')
            and len(st.body) == 1 and isinstance(st.body[0], ast.Continue)]
    loops_r = [st for st in rcfg.stmt.values() if isinstance(st, ast.For)]
    r6.check(len(skip) == 1 and rcfg.dominates(skip[0], sub) and not rcfg.reachable_via(skip[0], True, sub, without=loops_r) if skip else False,
             'unsuccessful fits are skipped', loc(rfi), {'guards': [ast.unparse(s.test) for s in skip]}, key='skip')
    texts = stmt_texts(rfi.node)
    r6.check('in_window-=result.eval_peak(in_window.coords[data.dim])' in texts
             and 'in_window=data[data.dim,result.window[0]:result.window[1]]' in texts, 'subtrahend and slice', loc(rfi, sub),
             {'statements': [t_ for t_ in texts if 'in_window' in t_]}, key='subtrahend')
    eff = Effects(repo)
    eff.solve()
    s_ = eff.summaries[rfi.fq]
    r6.check(not s_.mutates, 'input not written', loc(rfi), {'writes_to': sorted(s_.mutates)}, key='no-mutation')
    return run
