"""C17 — peak fitting returns one coherent result per peak; removal touches only windows."""

from __future__ import annotations

import ast

import itertools
import math
from fractions import Fraction as F

from sa import term as T
from sa.effects import Effects
from sa.interp import EnumMember, Opaque, RaiseSignal, SObj, SVar
from sa.load import AnalysisError, Repo, loc, where_of
from sa.report import Run
from sa.term import Rat
from sa.units import NO_UNIT, Unit
from sa.witness import WitnessInterp, WitnessModel, items_of, rows_of, sym_scalar

MOD = 'peaks._fit_peaks'
ANG = Unit.named('angstrom')
CNT = Unit.named('counts')
REQUIREMENTS = ('background_is_better', 'p_too_small', 'peak_near_edge', 'peak_points_down', 'peak_too_wide', 'peak_too_narrow')


class FitModel(WitnessModel):
    """WitnessModel plus the two third-party calls of the fitting code, as recording stubs."""

    def __init__(self):
        super().__init__()
        self.fits: list = []
        self.fit_raises = False
        self.popt_factory = None

    def _isinstance(self, interp, x, t, node):
        if isinstance(x, ModelStub):
            ts = t if isinstance(t, tuple) else (getattr(t, 'members', None) or (t,))
            return any(getattr(getattr(t_, 'ci', None), 'name', '') == 'Model' for t_ in ts)
        return super()._isinstance(interp, x, t, node)

    def call_ext(self, interp, path, args, kwargs, node):
        if path.endswith('curve_fit'):
            self.fits.append({'f': args[0] if args else kwargs.get('f'), 'data': args[1] if len(args) > 1 else kwargs.get('da'),
                              'p0': kwargs.get('p0'), 'bounds': kwargs.get('bounds')})
            if self.fit_raises(kwargs.get('p0')) if callable(self.fit_raises) else self.fit_raises:
                raise RaiseSignal('RuntimeError', node, interp.where(node), ('optimiser did not converge',))
            return (self.popt_factory(interp, self, kwargs.get('p0')), Opaque('covariance'))
        if path.endswith('chi2') and len(args) == 1:
            return _Chi2(self, interp, args[0])
        if path.endswith(('chi2.cdf', 'chi2.sf')) and len(args) + len(kwargs) == 2:
            # the distribution's functions called directly: cdf(x, df) / sf(x, df) = 1 - cdf(x, df)
            x = args[0] if args else kwargs.get('x')
            dof = args[1] if len(args) > 1 else kwargs.get('df')
            c = _Chi2(self, interp, dof).cdf(x)
            return c if path.endswith('cdf') else interp.binop('sub', lambda a, b: a - b, 1, c, node)
        return super().call_ext(interp, path, args, kwargs, node)


class _Chi2:
    def __init__(self, model, interp, dof):
        self.model, self.interp, self.dof = model, interp, dof

    def cdf(self, x):
        t = Rat.fn('chi2cdf', Rat.const(self.dof), x.term) if isinstance(x, SVar) and isinstance(x.term, Rat) and isinstance(self.dof, int) else None
        r = self.model.new(self.interp, t, Unit(), 'float64', why='chi2 cdf of unknown arguments')
        r.kind = 'pyfloat'
        r.members['dims'] = []
        return r

    def sf(self, x):
        return self.interp.binop('sub', lambda a, b: a - b, 1, self.cdf(x), None)


class ModelStub:
    """A fit model: named parameters, bounds, guesses, symbolic evaluation."""

    def __init__(self, world, name, params, is_sum=False):
        self.world, self.name = world, name
        self.param_names = set(params)
        self.prefix = name + '_'
        self.calls = []
        self.guesses = []
        self.parts = ()
        self.fwhm_value = None
        self.prefixes = []

    @property
    def param_bounds(self):
        return {p: (-float('inf'), float('inf')) for p in sorted(self.param_names)}

    def __add__(self, other):
        m = ModelStub(self.world, f'{self.name}+{other.name}', self.param_names | other.param_names)
        m.parts = (self, other)
        self.world.composites.append(m)
        return m

    def guess(self, data, **kw):
        self.guesses.append(data)
        if self.world.guess_needs is not None and len(items_of(data) or []) < self.world.guess_needs:
            raise RaiseSignal('ValueError', None, f'{self.name}.guess', ('not enough points to guess from',))
        w = self.world
        return {p: sym_scalar(w.it, w.model, f'g_{p}', CNT, 1) for p in sorted(self.param_names)}

    def __call__(self, x, **params):
        self.calls.append((x, params))
        w = self.world
        its = items_of(x)
        if its is None:
            raise AnalysisError(f'model {self.name} evaluated on {x!r}')
        k = len(self.calls)
        fv = w.f_values.get(self.name, lambda i: 1 + i)
        out = [sym_scalar(w.it, w.model, f'f_{self.name}_{k}_{T.show(c.term)}', CNT, fv(i)) for i, c in enumerate(its)]
        return w.model.array(w.it, out, x.members['dims'][0])

    def fwhm(self, popt):
        return self.fwhm_value

    def with_prefix(self, prefix):
        self.prefixes.append(prefix)  # the stub's parameter names already carry the prefix the caller will ask for
        return self


class World:
    def __init__(self, repo):
        T.reset()
        self.repo = repo
        self.model = FitModel()
        self.it = WitnessInterp(repo, self.model)
        self.it.concrete_enums = True
        self.it.events, self.it.conditions = [], []
        self.guess_needs = None
        # witness value of a logarithm (only to decide comparisons between statistics; the terms stay exact)
        self.model.fns['log'] = lambda x: F(math.log(float(x))).limit_denominator(10 ** 9)
        self.f_values: dict = {}   # model name -> witness value of its i-th evaluated point (default 1 + i)
        self.composites: list = []  # the sums of models the code under analysis builds
        self.assess = self.it.enum_members(repo.cls(MOD, 'FitAssessment'))

    def scalar(self, name, unit, value, positive=False):
        return sym_scalar(self.it, self.model, name, unit, value, positive=positive)

    def data(self, n, name='y', x0=0, step=1, variances=True, grid=None):
        xs = [self.scalar(f'x{i}', ANG, F(grid[i]) if grid is not None else F(x0) + F(step) * i) for i in range(n)]
        ys = []
        for i in range(n):
            y = self.scalar(f'{name}{i}', CNT, 10 + i)
            if variances:
                y.members['var'] = self.scalar(f'v{i}', Unit({'counts': 2}), 2 + i, positive=True)
            ys.append(y)
        da = self.model.array(self.it, ys, 'x')
        da.kind = 'dataarray'
        da.origin = 'data'
        da.members['coords'] = {'x': self.model.array(self.it, xs, 'x')}
        return da

    def call(self, fi, args, kwargs=None, bound=None):
        try:
            return 'return', self.it.call_function(fi, list(args), dict(kwargs or {}), bound=bound)
        except RaiseSignal as r:
            return 'raise', r.exc_type


def fit_through_public(w, repo, data, *, peaks, bkgs, windows=None, window=None, estimates=None, width=None, requirements=None, parameters=None):
    """fit_peaks(...) itself: explicit windows (one row per estimate) or a 0-d width.  Returns (kind, list of FitResult | exc)."""
    ffi = repo.func(MOD, 'fit_peaks')
    if window is not None:
        windows = w.model.matrix(w.it, [window], 'x')
        wv = [w.model.value(x) for x in items_of(window)]
        estimates = w.model.array(w.it, [w.scalar('c0', ANG, (wv[0] + wv[1]) / 2)], 'x')
    kwargs = {'peak_estimates': estimates, 'windows': windows if windows is not None else width, 'background': bkgs, 'peak': peaks}
    if parameters is not None:
        kwargs['fit_parameters'] = parameters  # otherwise the package's own defaults apply (they are part of the behaviour)
    if requirements is not None:
        kwargs['fit_requirements'] = requirements
    return w.call(ffi, [data], kwargs)


def requirements(repo, **kw):
    return SObj(repo.cls('peaks._common', 'FitRequirements'), {'min_p_value': 0.01, 'max_peak_width_factor': 1.0, 'min_peak_width_factor': 1.0, **kw})


def program(w, peaks, bkgs, *, violate=(), loc_val=None, width=None, offset=0, bkg_fit_fails=False):
    """Program the stubs of the third-party calls (optimiser, chi-square distribution) and the model stand-ins so that every
    candidate (peak, background) fit of the window meets every requirement except those named in `violate`."""
    for pk in peaks:
        pk.fwhm_value = w.scalar(f'fwhm_{pk.name}', ANG, width if width is not None else (6 if 'peak_too_wide' in violate else (3 if 'peak_too_narrow' in violate else F(49, 10))),
                                 positive=True)
    good, poor = (lambda i: 9 + offset + i), (lambda i: 0)  # data points are 10 + offset + i: a small chi-square against a large one
    better = 'background_is_better' in violate
    for bg in bkgs:
        w.f_values[bg.name] = good if better else poor
        for pk in peaks:
            w.f_values[f'{bg.name}+{pk.name}'] = poor if better else good
    w.model.fns['chi2cdf'] = lambda dof, x: F(999, 1000) if 'p_too_small' in violate else F(1, 2)
    # (a positive amplitude below 1 is still positive)
    vals = {'peak_loc': (ANG, F(6) if loc_val is None else loc_val), 'peak_amplitude': (CNT, -1 if 'peak_points_down' in violate else F(1, 2))}
    w.model.popt_factory = lambda it, m, p0, w=w: {k: with_variance(w, w.scalar(f'opt_{k}', *vals.get(k, (CNT, 1)))) for k in sorted(p0)}
    if bkg_fit_fails:
        w.model.fit_raises = lambda p0: not any(k.startswith('peak_') for k in (p0 or {}))


def steer(w, *, violate=(), loc_val=None, width=None, params=('peak_amplitude', 'peak_loc'), bkg_params=('bkg_a0',), bkg_fit_fails=False, offset=0):
    """One peak and one background stand-in, programmed by program().  Returns (peak, background)."""
    peak = ModelStub(w, 'peak', list(params))
    bkg = ModelStub(w, 'bkg', list(bkg_params))
    program(w, [peak], [bkg], violate=violate, loc_val=loc_val, width=width, offset=offset, bkg_fit_fails=bkg_fit_fails)
    return peak, bkg


def full_fits(w):
    """The optimiser calls for a peak + background model (those for a background alone are the comparison fits)."""
    return [f_ for f_ in w.model.fits if any(k.startswith('peak_') for k in (f_.get('p0') or {}))]


def assessment_name(v):
    return v.name if isinstance(v, EnumMember) else repr(v)


def run(tier: str) -> Run:
    run = Run('C17', tier, 'other',
              'Witness-guided interpretation of peaks/_fit_peaks.py and _remove_peaks.py with recording stubs for the '
              'optimiser (scipp.curve_fit), the chi-square distribution and the fit models.  Decided: (R1) with fewer '
              'points than parameters _fit_peak_single_model returns a window-too-narrow result without touching the '
              'data (guesses that cannot cope with short windows raise in the model), a failing optimiser gives a '
              'failed result, otherwise the result carries the optimiser parameters, the assessment and the statistics; '
              '(R2) over all combinations of violated requirements _assess_fit returns success iff none is violated and '
              'otherwise names a violated one, never raising (a peak at the edge is reported before its neighbours are '
              'indexed); (R3) fit_peaks returns one result per window in order, each fitted on the data inside its '
              'window, and _fit_peak returns the first success in (peak, background) product order, else the first '
              'candidate, for all 16 success patterns; (R4) the statistics are chi2 = sum((y-f)^2/var), chi2/(n-k), '
              '1-cdf(chi2; n-k), n ln(chi2/n)+2k as exact terms of the window data and the model evaluated at the '
              'returned parameters; (R5) automatic windows are [c-w/2, nextafter(c+w/2)] clipped to the data range and '
              'to the neighbour separation, for several witness layouts; (R6) remove_peaks subtracts exactly the peaks '
              'of successful results inside their windows from a copy and leaves its input untouched.  What the '
              'optimiser returns is not decided.')
    repo = Repo()
    run.analysed = {'modules': [MOD, 'peaks._remove_peaks'], 'digest': repo.digest.hexdigest()}
    run.trusted = ['sa/witness.py', 'scipp.curve_fit and scipy.stats.chi2 (stubs)', 'label-based slicing selects lo <= x < hi on a sorted coordinate']

    # ---- R1: the point-count guard and the failure paths (through fit_peaks) --------------------------------------
    r1 = run.rule('R1', 'too few points -> window-too-narrow result (no exception, data not consumed); optimiser failure -> failed result', 6)
    ffi = repo.func(MOD, 'fit_peaks')
    ffi_loc = loc(ffi)
    where1 = where_of(repo, MOD, '_fit_peak_single_model', 'fit_peaks')
    k_params = 5
    for n_points in (0, 1, 3, 4, 5, 8):
        for fit_raises in (False, True):
            w = World(repo)
            w.guess_needs = 1  # a guess from an empty selection fails inside the model
            data = w.data(12)  # x = 0 .. 11, the window [2, 2 + n) selects n points
            peak, bkg = steer(w, params=('peak_amplitude', 'peak_loc', 'peak_scale'), bkg_params=('bkg_a0', 'bkg_a1'), width=2,
                              loc_val=F(2) + F(max(n_points, 1) - 1, 2), offset=2)
            w.model.fit_raises = fit_raises
            window = w.model.array(w.it, [w.scalar('wlo', ANG, 2), w.scalar('whi', ANG, 2 + n_points)], 'range')
            kind, res = fit_through_public(w, repo, data, peaks=peak, bkgs=bkg, window=window, requirements=requirements(repo))
            inst = f'{n_points} points, optimiser {"fails" if fit_raises else "converges"}'
            if kind != 'return' or not isinstance(res, list) or len(res) != 1 or not isinstance(res[0], SObj):
                r1.fail(inst, where1, {'outcome': (kind, res if kind == 'raise' else repr(res)[:120]), 'documented': 'a FitResult, never an exception'}, key='guard')
                continue
            res = res[0]
            got = assessment_name(res.attrs.get('assessment'))
            if n_points < k_params:
                ok = got == 'window_too_narrow' and not w.model.fits and not peak.guesses and not bkg.guesses
                r1.check(ok, inst, where1, {'assessment': got, 'optimiser_calls': len(w.model.fits), 'guess_calls': len(peak.guesses) + len(bkg.guesses)}, key='guard')
            elif fit_raises:
                r1.check(got == 'failed', inst, where1, {'assessment': got}, key='failure')
            else:
                popt = res.attrs.get('popt')
                full = [f_ for f_ in w.model.fits if any(k.startswith('peak_') for k in (f_.get('p0') or {}))]
                fitted = items_of(full[-1]['data']) if full and isinstance(full[-1].get('data'), SVar) else None
                on_window = fitted is not None and len(fitted) == n_points and all(x is y for x, y in zip(fitted, items_of(data)[2:2 + n_points], strict=True))
                rw = res.attrs.get('window')
                same_window = isinstance(rw, SVar) and items_of(rw) is not None and all(x is y for x, y in zip(items_of(rw), items_of(window), strict=True))
                ok = got == 'success' and isinstance(popt, dict) and sorted(popt) == sorted(peak.param_names | bkg.param_names) \
                    and all(isinstance(res.attrs.get(s_), SVar) for s_ in ('red_chisq', 'p_value', 'aic')) and same_window and on_window
                r1.check(ok, inst, where1, {'assessment': got, 'popt': sorted(popt) if isinstance(popt, dict) else repr(popt)[:80],
                                            'fitted_on_the_window_data': on_window, 'result_carries_the_window': same_window}, key='result')

    # ---- R2: the assessment cascade (through fit_peaks; the third-party calls are programmed) ---------------------------
    r2 = run.rule('R2', 'success iff no requirement is violated; otherwise a violated requirement is named; never raises', 40)
    where2 = where_of(repo, MOD, '_assess_fit', 'fit_peaks')
    bad2 = {}
    n2 = 0
    for flags in itertools.product((False, True), repeat=6):
        viol = dict(zip(REQUIREMENTS, flags, strict=True))
        if viol['peak_too_wide'] and viol['peak_too_narrow']:
            continue
        for edge_side in (('left', 'right', 'last point', 'outside left', 'outside right') if viol['peak_near_edge'] else ('left',)):
            for with_bkg_stats in ((True,) if viol['background_is_better'] else (True, False)):
                w = World(repo)
                # a non-uniform grid: fine below x = 2, coarse above; spacing around x = 6 is 2, the smallest spacing 1/2
                # (coordinates far from zero: a distance is a difference, not the coordinate itself)
                X0 = 100
                data = w.data(9, grid=tuple(X0 + g_ for g_ in (0, F(1, 2), 1, F(3, 2), 2, 4, 6, 8, 10)))
                # (a fitted location outside the window, by more than two steps, is closer to the edge than any point inside)
                loc_val = X0 + ({'left': F(1, 4), 'right': F(19, 2), 'last point': F(10), 'outside left': F(-3), 'outside right': F(14)}[edge_side] if viol['peak_near_edge'] else F(6))
                violated = [k for k, v in viol.items() if v]
                # window width 10 (first to last point), spacing around the centre 2: max width factor 0.5 (-> 5), min width factor 2 (-> 4); fwhm 4.9 meets both
                peak, bkg = steer(w, violate=violated, loc_val=loc_val, bkg_fit_fails=not with_bkg_stats)
                window = w.model.array(w.it, [w.scalar('wlo', ANG, X0 - 1), w.scalar('whi', ANG, X0 + 100)], 'range')
                kind, res = fit_through_public(w, repo, data, peaks=peak, bkgs=bkg, window=window,
                                               requirements=requirements(repo, max_peak_width_factor=0.5, min_peak_width_factor=2.0))
                n2 += 1
                ok_shape = kind == 'return' and isinstance(res, list) and len(res) == 1 and isinstance(res[0], SObj)
                got = assessment_name(res[0].attrs.get('assessment')) if ok_shape else None
                if not ok_shape:
                    bad2.setdefault('never raises', {'violated': violated, 'outcome': (kind, res if kind == 'raise' else repr(res)[:120])})
                elif not violated and got != 'success':
                    bad2.setdefault('all requirements met -> success', {'assessment': got, 'separate_background_fit': with_bkg_stats})
                elif violated and got == 'success':
                    bad2.setdefault('success only when ' + violated[0] + ' is met', {'violated': violated, 'assessment': got, 'peak_location': str(loc_val)})
                elif violated and got not in violated:
                    bad2.setdefault('reported reason is a violated requirement', {'violated': violated, 'assessment': got})
    # a peak model without an amplitude parameter cannot point down: nothing violated -> success
    w = World(repo)
    data = w.data(9, grid=tuple(100 + g_ for g_ in (0, F(1, 2), 1, F(3, 2), 2, 4, 6, 8, 10)))
    peak, bkg = steer(w, loc_val=F(106), params=('peak_loc', 'peak_scale'))
    window = w.model.array(w.it, [w.scalar('wlo', ANG, 99), w.scalar('whi', ANG, 200)], 'range')
    kind, res = fit_through_public(w, repo, data, peaks=peak, bkgs=bkg, window=window, requirements=requirements(repo, max_peak_width_factor=0.5, min_peak_width_factor=2.0))
    n2 += 1
    got = assessment_name(res[0].attrs.get('assessment')) if kind == 'return' and isinstance(res, list) and len(res) == 1 and isinstance(res[0], SObj) else (kind, res)
    if got != 'success':
        bad2.setdefault('all requirements met -> success', {'assessment': got, 'peak_model': 'without an amplitude parameter'})
    names = ['never raises', 'all requirements met -> success', 'reported reason is a violated requirement'] + [f'success only when {r_} is met' for r_ in REQUIREMENTS]
    for inst in names:
        hit = next((v for k, v in bad2.items() if k == inst), None)
        r2.check(hit is None, inst, where2, hit or {'configurations': n2}, key=inst)
    for _ in range(n2 - len(names)):
        r2.ok('configuration')

    # ---- R3: one result per window; first success wins (through fit_peaks) -----------------------------------------------
    r3 = run.rule('R3', 'one result per estimate, in order, fitted on the window data; first success in product order, else first candidate', 18)
    where3 = where_of(repo, MOD, '_fit_peak', 'fit_peaks')
    for pattern in itertools.product((False, True), repeat=4):
        w = World(repo)
        peaks = (ModelStub(w, 'p0', ['peak_amplitude', 'peak_loc']), ModelStub(w, 'p1', ['peak_amplitude', 'peak_loc', 'peak_scale']))
        bkgs = (ModelStub(w, 'b0', ['bkg_a0']), ModelStub(w, 'b1', ['bkg_a0', 'bkg_a1']))
        order = [(p, b) for p in peaks for b in bkgs]
        program(w, peaks, bkgs, width=2, loc_val=F(5))
        tried = []

        def fails(p0, order=order, pattern=pattern, tried=tried):
            keys = set(p0 or {})
            idx = next((i for i, (p, b) in enumerate(order) if keys == p.param_names | b.param_names), None)
            if idx is None:
                return False  # a background-only comparison fit
            tried.append(idx)
            return not pattern[idx]
        w.model.fit_raises = fails
        data = w.data(11)
        window = w.model.array(w.it, [w.scalar('wlo', ANG, 0), w.scalar('whi', ANG, 100)], 'range')
        kind, res = fit_through_public(w, repo, data, peaks=peaks, bkgs=bkgs, window=window, requirements=requirements(repo))
        want = pattern.index(True) if any(pattern) else 0
        got = None
        if kind == 'return' and isinstance(res, list) and len(res) == 1 and isinstance(res[0], SObj):
            got = next((i for i, (p, b) in enumerate(order) if res[0].attrs.get('peak') is p and res[0].attrs.get('background') is b), None)
            if got is not None and (assessment_name(res[0].attrs.get('assessment')) == 'success') != any(pattern):
                got = ('wrong assessment', assessment_name(res[0].attrs.get('assessment')))
        r3.check(got == want, f'success pattern {pattern}', where3, {'returned_candidate': got, 'documented': want, 'tried': tried, 'outcome': kind}, key='selection')
    for order_label, los, his in (('increasing windows', (1, 6), (6, 11)), ('overlapping and empty windows', (2, 5, 9), (9, 5, 20))):
        w = World(repo)
        data = w.data(12)
        peak, bkg = steer(w, width=2, loc_val=F(4))
        rows = [w.model.array(w.it, [w.scalar(f'lo{i}', ANG, lo), w.scalar(f'hi{i}', ANG, hi)], 'range') for i, (lo, hi) in enumerate(zip(los, his, strict=True))]
        windows = w.model.matrix(w.it, rows, 'x')
        est = w.model.array(w.it, [w.scalar(f'c{i}', ANG, F(lo + hi, 2)) for i, (lo, hi) in enumerate(zip(los, his, strict=True))], 'x')
        kind, res = fit_through_public(w, repo, data, peaks=peak, bkgs=bkg, windows=windows, estimates=est)
        ok = kind == 'return' and isinstance(res, list) and len(res) == len(los) and all(isinstance(r_, SObj) for r_ in res)
        detail = {'outcome': kind, 'results': repr(res)[:120]}
        if ok:
            fits = full_fits(w)
            k_par = len(peak.param_names | bkg.param_names)
            for i, r_ in enumerate(res):
                want_idx = [j for j in range(12) if los[i] <= j < his[i]]
                rw = r_.attrs.get('window')
                if not (isinstance(rw, SVar) and items_of(rw) is not None and all(x is y for x, y in zip(items_of(rw), items_of(rows[i]), strict=True))):
                    ok, detail = False, {'window': i, 'problem': 'result i does not carry window i'}
                    break
                if len(want_idx) < k_par:
                    if assessment_name(r_.attrs.get('assessment')) != 'window_too_narrow':
                        ok, detail = False, {'window': i, 'points': len(want_idx), 'assessment': assessment_name(r_.attrs.get('assessment'))}
                        break
                    continue
                fit = fits.pop(0) if fits else None
                its = items_of(fit['data']) if fit and isinstance(fit.get('data'), SVar) else None
                got_idx = [next((j for j, y in enumerate(items_of(data)) if y is x), None) for x in (its or [])]
                if got_idx != want_idx:
                    ok, detail = False, {'window': i, 'points_fitted': got_idx, 'points_inside_the_window': want_idx}
                    break
            if ok and fits:
                ok, detail = False, {'problem': f'{len(fits)} more peak fits than windows with enough points'}
        r3.check(ok, f'fit_peaks [{order_label}]', ffi_loc, detail, key='loop')

    # ---- R4: statistics (through fit_peaks: the fields of the FitResult) -------------------------------------------------------
    r4 = run.rule('R4', 'chi2 = sum((y-f)^2/var); red = chi2/(n-k); p = 1-cdf(chi2; n-k); aic = n ln(chi2/n) + 2k, from the returned parameters and the window data', 4)
    where4 = where_of(repo, MOD, '_goodness_of_fit_statistics', '_perform_fit', 'fit_peaks')

    def fit_window_of(n_pts):
        """fit_peaks on a window of n_pts points (3 parameters); returns (world, data, peak, bkg, kind, result)."""
        w = World(repo)
        data = w.data(n_pts)
        peak, bkg = steer(w, width=F(3, 2), loc_val=F(n_pts - 1, 2))
        window = w.model.array(w.it, [w.scalar('wlo', ANG, -1), w.scalar('whi', ANG, 100)], 'range')
        kind, res = fit_through_public(w, repo, data, peaks=peak, bkgs=bkg, window=window, requirements=requirements(repo))
        return w, data, peak, bkg, kind, (res[0] if kind == 'return' and isinstance(res, list) and len(res) == 1 else res)

    def chi2_of(n_pts, f_name):
        t = Rat.const(0)
        for i in range(n_pts):
            t = t + (Rat.sym(f'y{i}') - Rat.sym(f'{f_name}_x{i}')) ** 2 / Rat.sym(f'v{i}', positive=True)
        return t

    n, k_ = 7, 3
    w, data, peak, bkg, kind, res = fit_window_of(n)
    probs = []
    if kind != 'return' or not isinstance(res, SObj):
        probs.append(f'fit_peaks: {kind} {res!r}'[:200])
    else:
        fits = full_fits(w)
        comp = w.composites[-1] if w.composites else None
        if len(fits) != 1 or comp is None:
            probs.append(f'{len(fits)} optimiser calls for the peak + background model, one expected')
        else:
            fit = fits[0]
            fitted = items_of(fit['data']) if isinstance(fit.get('data'), SVar) else None
            p0 = fit.get('p0') or {}
            if fitted is None or len(fitted) != n or any(a_ is not b_ for a_, b_ in zip(fitted, items_of(data), strict=False)) \
                    or sorted(p0) != sorted(comp.param_names) or not all(isinstance(v, SVar) and isinstance(v.term, Rat) and v.term.eq(Rat.sym(f'g_{k}')) for k, v in p0.items()):
                probs.append('the optimiser is not handed the window data and the initial parameters guessed by the models')
            if not comp.calls:
                probs.append('the model is never evaluated at the returned parameters')
            else:
                x_arg, params = comp.calls[-1]
                if items_of(x_arg) is None or any(a_ is not b_ for a_, b_ in zip(items_of(x_arg), items_of(data.members['coords']['x']), strict=False)):
                    probs.append('the best fit is not evaluated on the window coordinate')
                for k, v in params.items():
                    if not (isinstance(v, SVar) and isinstance(v.term, Rat) and v.term.eq(Rat.sym(f'opt_{k}'))):
                        probs.append(f'parameter {k} handed to the model is not the optimised value')
                chi2 = chi2_of(n, f'f_{comp.name}_{len(comp.calls)}')
                want = {'red_chisq': chi2 / (n - k_), 'aic': n * T.FN_CTORS['log'](chi2 / n) + 2 * k_,
                        'p_value': 1 - Rat.fn('chi2cdf', Rat.const(n - k_), chi2)}
                for name, wt in want.items():
                    g = res.attrs.get(name)
                    if not (isinstance(g, SVar) and isinstance(g.term, Rat) and g.term.eq(wt)):
                        probs.append(f'{name} = {T.show(g.term)[:200] if isinstance(g, SVar) and g.term is not None else g!r}, expected {T.show(wt)[:200]}')
                popt = res.attrs.get('popt')
                if not (isinstance(popt, dict) and sorted(popt) == sorted(comp.param_names)
                        and all(isinstance(v, SVar) and isinstance(v.term, Rat) and v.term.eq(Rat.sym(f'opt_{k}')) for k, v in popt.items())):
                    probs.append('popt of the result is not what the optimiser returned')
    r4.check(not [p_ for p_ in probs if ' = ' in p_ or 'fit_peaks:' in p_ or 'optimiser calls' in p_], 'statistics of the result', where4, {'problems': probs[:3]}, key='_goodness_of_fit_statistics')
    # a window with exactly as many points as parameters has no degree of freedom: chi2/(n-k) is not a number,
    # and with one degree of freedom the divisor is 1
    for n_pts in (3, 4):
        inst = f'{n_pts} points, 3 parameters'
        try:
            w, data, peak, bkg, kind, res = fit_window_of(n_pts)
        except AnalysisError as ex:
            if n_pts == 3:
                r4.ok(f'reduced chi-square is undefined for {inst}', {'outcome': f'not a number: {ex}'[:160]})
                continue
            raise
        red = res.attrs.get('red_chisq') if kind == 'return' and isinstance(res, SObj) else None
        comp = w.composites[-1] if w.composites else None
        if n_pts == 3:
            # either an exception or an undefined (non-finite) statistic; never a finite chi2 / m
            finite = isinstance(red, SVar) and isinstance(red.term, Rat) and w.model.value(red) is not None
            r4.check(not finite, f'reduced chi-square is undefined for {inst}', where4,
                     {'red_chisq': T.show(red.term) if finite else None, 'documented': 'chi2 / (n - k) with n - k = 0'}, key='dof-zero')
        else:
            ok = isinstance(red, SVar) and isinstance(red.term, Rat) and comp is not None and red.term.eq(chi2_of(n_pts, f'f_{comp.name}_{len(comp.calls)}') / 1)
            r4.check(ok, f'reduced chi-square for {inst}', where4, {'outcome': kind, 'red_chisq': T.show(red.term)[:160] if isinstance(red, SVar) and red.term is not None else repr(red)}, key='dof-one')
    r4.check(not [p_ for p_ in probs if 'optimis' in p_ or 'evaluated' in p_ or 'parameter' in p_ or 'popt' in p_], 'the optimiser gets the window data and the guesses; its result is evaluated and reported', where4,
             {'problems': probs[:3]}, key='perform-fit')

    # ---- R5: automatic windows ---------------------------------------------------------------------------------------------
    r5 = run.rule('R5', 'windows: [c-w/2, nextafter(c+w/2)] clipped to the data range and to the neighbour separation on interior edges', 4)
    where5 = where_of(repo, MOD, '_fit_windows', 'fit_peaks')
    layouts = {
        'isolated peaks, window inside the data': ((10, 30, 50), 4),
        'windows wider than the peak distance': ((10, 14, 50), 12),
        'estimates at and beyond the data range': ((0, 30, 62), 10),
        'estimates farther outside the data than half a window': ((-20, 30, 90), 10),
        'a single estimate': ((30,), 100),
    }
    # every layout with the exact documented separation factor (terms compared exactly), and the crowded one again with the package's
    # own default parameters (the default is part of the behaviour; a float 1/3, compared at the witness to 1e-12)
    runs5 = [(n_, v_, True) for n_, v_ in layouts.items()] + [('windows wider than the peak distance [default parameters]', layouts['windows wider than the peak distance'], False)]
    for name, (centres, width), use_exact in runs5:
        w = World(repo)
        fp = fit_params(w)
        data = w.data(61)  # x = 0 .. 60
        cs = [w.scalar(f'c{i}', ANG, c) for i, c in enumerate(centres)]
        centre = w.model.array(w.it, cs, 'x')
        wd = w.scalar('width', ANG, width, positive=True)
        peak, bkg = steer(w, width=2)
        # the windows are what fit_peaks reports in its results when it is given a width instead of explicit windows
        kind, res = fit_through_public(w, repo, data, peaks=peak, bkgs=bkg, estimates=centre, width=wd, parameters=fp if use_exact else None)
        probs = []
        wins = [r_.attrs.get('window') for r_ in res] if kind == 'return' and isinstance(res, list) and all(isinstance(r_, SObj) for r_ in res) else None
        if wins is None or len(wins) != len(centres) or not all(isinstance(x, SVar) and items_of(x) is not None and len(items_of(x)) == 2 for x in wins):
            probs.append(f'{kind} {res!r}'[:160])
        else:
            val = w.model.val
            sep = Rat.const(F(1, 3))
            lo_d, hi_d = Rat.sym('x0'), Rat.sym('x60')
            for i, row in enumerate(wins):
                lo_c, hi_c = items_of(row)
                c = cs[i].term
                half = wd.term / 2
                u = ANG.scale()
                cand_lo = [c - half, lo_d] + ([cs[i - 1].term + (c - cs[i - 1].term) * sep] if i > 0 else [])
                cand_hi = [Rat.fn('nextafter_up', (c + half) / u) * u, hi_d] + ([cs[i + 1].term - (cs[i + 1].term - c) * sep] if i < len(centres) - 1 else [])
                ev = lambda t: T.evaluate(t, val, w.model.fns)  # noqa: E731
                want_lo = max(cand_lo, key=ev)
                # an upper edge below the data range is clipped up to the lower data bound first
                want_hi = min(cand_hi, key=ev)
                if ev(want_hi) < ev(lo_d):
                    want_hi = lo_d
                if ev(want_lo) > ev(hi_d):
                    want_lo = hi_d
                for label, got, want in (('lower', lo_c, want_lo), ('upper', hi_c, want_hi)):
                    if not (isinstance(got.term, Rat) and (got.term.eq(want) or ev(got.term) == ev(want) or (not use_exact and abs(ev(got.term) - ev(want)) < F(1, 10 ** 12) * ev(u)))):
                        probs.append(f'{label} edge of window {i}: {T.show(got.term) if got.term is not None else None}, expected {T.show(want)}')
        r5.check(not probs, name, where5, {'problems': probs[:3]}, key='_fit_windows')

    # ---- R7: the documented defaults (what "every stated requirement" means when the caller states none) -----------------------------
    r7 = run.rule('R7', 'defaults of FitRequirements (p >= 0.01, width factors 1.0) and FitParameters (background fraction 0.5, neighbour separation 1/3) '
                        'are the documented ones', 2)
    w = World(repo)
    for cname, want_defaults in (('FitRequirements', {'min_p_value': 0.01, 'max_peak_width_factor': 1.0, 'min_peak_width_factor': 1.0}),
                                 ('FitParameters', {'guess_background_fraction': 0.5, 'neighbor_separation_factor': 1 / 3})):
        kind, obj = 'return', None
        try:
            obj = w.it.construct(repo.cls('peaks._common', cname), [], {}, None)
        except RaiseSignal as r_:
            kind = f'raises {r_.exc_type}'
        got = {k: obj.attrs.get(k) for k in want_defaults} if isinstance(obj, SObj) else None
        ok = got is not None and all(isinstance(got[k], int | float) and abs(got[k] - v) <= 1e-15 for k, v in want_defaults.items())
        r7.check(ok, f'{cname}()', f'src/scippneutron/peaks/_common.py:{cname}', {'defaults': {k: repr(v) for k, v in (got or {}).items()}, 'documented': want_defaults, 'outcome': kind},
                 key=f'defaults:{cname}')

    # ---- R8: model specifications by name (helper-level: applies where the parser exists with today's signature) ------------------------
    r8 = run.rule('R8', "model names: 'linear' / 'quadratic' are polynomials of degree 1 / 2, 'gaussian' / 'lorentzian' / 'pseudo_voigt' the peak classes; "
                        'a list gives the models in order; the prefix is applied', 1)
    from .common import private_helper
    spec_fi = private_helper(repo, MOD, '_parse_model_spec', ['spec', 'prefix'])
    if spec_fi is None:
        r8.ok('model names', {'not_decided': 'no parser helper of the known shape; the classes themselves are C16'}, nontrivial=False)
    else:
        w = World(repo)
        want_names = {'linear': ('PolynomialModel', 1), 'quadratic': ('PolynomialModel', 2), 'gaussian': ('GaussianModel', None),
                      'lorentzian': ('LorentzianModel', None), 'pseudo_voigt': ('PseudoVoigtModel', None)}
        probs = []
        for spec, (cname, degree) in want_names.items():
            kind, res = w.call(spec_fi, [spec], {'prefix': 'x_'})
            m = res[0] if kind == 'return' and isinstance(res, tuple | list) and len(res) == 1 else None
            if not isinstance(m, SObj) or m.cls.name != cname:
                probs.append(f'{spec!r} gives {m.cls.name if isinstance(m, SObj) else (kind, res)!r}, expected {cname}')
                continue
            if degree is not None and w.it.getattr(m, 'degree', None) != degree:
                probs.append(f'{spec!r} gives a polynomial of degree {w.it.getattr(m, "degree", None)}, expected {degree}')
            if w.it.getattr(m, 'prefix', None) != 'x_':
                probs.append(f'{spec!r}: prefix {w.it.getattr(m, "prefix", None)!r}')
        kind, res = w.call(spec_fi, [['quadratic', 'linear']], {'prefix': 'b_'})
        if not (kind == 'return' and isinstance(res, tuple | list) and [getattr(getattr(x, 'cls', None), 'name', None) for x in res] == ['PolynomialModel'] * 2
                and [w.it.getattr(x, 'degree', None) for x in res] == [2, 1]):
            probs.append(f"['quadratic', 'linear'] gives {res!r}"[:160])
        r8.check(not probs, 'model names', loc(spec_fi), {'problems': probs[:3]}, key='names')

    # ---- R6: remove_peaks ------------------------------------------------------------------------------------------------------
    r6 = run.rule('R6', 'remove_peaks: exactly the peaks of successful results are subtracted inside their windows, from a copy; input untouched', 4)
    rfi = repo.func('peaks._remove_peaks', 'remove_peaks')
    w = World(repo)
    data = w.data(8, variances=False)
    before = [(y, y.term) for y in items_of(data)]
    results = []
    for r_idx, (lo, hi, success) in enumerate(((1, 4, True), (3, 6, False), (5, 8, True), (20, 30, True), (2, 7, True))):
        results.append(ResultStub(w, r_idx, lo, hi, success))
    kind, res = w.call(rfi, [data, results])
    probs = []
    if kind != 'return' or not isinstance(res, SVar) or items_of(res) is None or len(items_of(res)) != 8:
        probs.append(f'{kind} {res!r}'[:160])
    else:
        for j, out in enumerate(items_of(res)):
            want = Rat.sym(f'y{j}')
            for r_ in results:
                if r_.success and r_.lo <= j < r_.hi:
                    want = want - Rat.sym(f'peak{r_.idx}_x{j}')
            if not (isinstance(out.term, Rat) and out.term.eq(want)):
                probs.append(f'point {j}: {T.show(out.term) if out.term is not None else None}, expected {T.show(want)}')
        if any(y.term is not t0 and not (isinstance(y.term, Rat) and y.term.eq(t0)) for y, t0 in before) or items_of(data) is None \
                or [y for y, _ in before] != list(items_of(data)):
            probs.append('the input data array was modified')
        if any(a is b for a, b in zip(items_of(res), items_of(data), strict=True)):
            probs.append('the result shares its data buffer with the input')
        for r_ in results:
            if not r_.success and r_.evaluated:
                probs.append(f'the peak of unsuccessful result {r_.idx} was evaluated')
    r6.check(not probs, 'subtraction inside successful windows only', loc(rfi), {'problems': probs[:4]}, key='subtrahend')
    r6.check(not [p_ for p_ in probs if 'input' in p_ or 'shares' in p_], 'deep copy before subtracting', loc(rfi), {'problems': probs[:4]}, key='copy')
    r6.check(not [p_ for p_ in probs if 'unsuccessful' in p_], 'unsuccessful fits are skipped', loc(rfi), {'problems': probs[:4]}, key='skip')
    w = World(repo)
    data = w.data(4, variances=True)
    kind, res = w.call(rfi, [data, []])
    r6.check(kind == 'raise', 'data with variances is refused', loc(rfi), {'outcome': kind}, key='variances')
    eff = Effects(repo)
    eff.solve()
    s_ = eff.summaries[rfi.fq]
    written6 = sorted(t for t in s_.mutates if t.startswith('p:'))
    r6.check(not written6, 'input not written', loc(rfi), {'writes_to': written6}, key='no-mutation')

    # ---- R9: a fit does not depend on the fits made before it ------------------------------------------------------------
    r9 = run.rule('R9', 'the result for a spectrum does not depend on the spectra fitted before it: two fit_peaks calls in one world (module-level '
                        'tables, caches and decorator closures persist), same grid and window, other data, with the comparison fits programmed to '
                        'come out the other way round: the assessment of the second call is the one of a fresh interpreter', 4)
    hist = [((), ('background_is_better',)), (('background_is_better',), ()), ((), ('p_too_small',)), (('peak_points_down',), ())]

    def one_fit(w, violate, tag):
        data = w.data(9, name=tag, grid=tuple(100 + g_ for g_ in (0, F(1, 2), 1, F(3, 2), 2, 4, 6, 8, 10)))
        peak, bkg = steer(w, violate=violate, loc_val=F(106))
        window = w.model.array(w.it, [w.scalar('wlo', ANG, 99), w.scalar('whi', ANG, 200)], 'range')
        kind, res = fit_through_public(w, repo, data, peaks=peak, bkgs=bkg, window=window,
                                       requirements=requirements(repo, max_peak_width_factor=0.5, min_peak_width_factor=2.0))
        if kind == 'return' and isinstance(res, list) and len(res) == 1 and isinstance(res[0], SObj):
            return assessment_name(res[0].attrs.get('assessment'))
        return (kind, repr(res)[:80])
    for first, second in hist:
        fresh9 = one_fit(World(repo), second, 'z')
        w = World(repo)
        one_fit(w, first, 'y')
        w.it.end_of_call()
        got9 = one_fit(w, second, 'z')
        r9.check(got9 == fresh9, f'violated {list(second) or "nothing"} after a spectrum with {list(first) or "nothing"} violated', ffi_loc,
                 {'fresh': fresh9, 'after_the_first_spectrum': got9}, key=f'history:{"+".join(second) or "success"}')
    return run


def fit_params(w):
    return SObj(w.repo.cls('peaks._common', 'FitParameters'), {'guess_background_fraction': 0.5, 'neighbor_separation_factor': F(1, 3)})


def with_variance(w, v):
    v.members['var'] = w.scalar('var_' + T.show(v.term), Unit({'counts': 2}), 1, positive=True)
    return v


class ResultStub:
    def __init__(self, w, idx, lo, hi, success):
        self.w, self.idx, self.lo, self.hi, self.success = w, idx, lo, hi, success
        self.window = w.model.array(w.it, [w.scalar(f'r{idx}lo', ANG, lo), w.scalar(f'r{idx}hi', ANG, hi)], 'range')
        self.assessment = w.assess['success'] if success else w.assess['failed']
        self.popt = {}
        self.evaluated = False

    def eval_model(self, x):
        w = self.w
        return w.model.array(w.it, [sym_scalar(w.it, w.model, f'model{self.idx}_x{T.show(c.term)[1:]}', CNT, 1) for c in items_of(x)], x.members['dims'][0])

    def eval_peak(self, x):
        self.evaluated = True
        w = self.w
        out = []
        for c in items_of(x):
            j = T.show(c.term)[1:]
            out.append(sym_scalar(w.it, w.model, f'peak{self.idx}_x{j}', CNT, 1))
        return w.model.array(w.it, out, x.members['dims'][0])
