"""C17 — peak fitting returns one coherent result per peak; removal touches only windows."""

from __future__ import annotations

import ast

import itertools
from fractions import Fraction as F

from sa import term as T
from sa.effects import Effects
from sa.interp import EnumMember, Opaque, RaiseSignal, SObj, SVar
from sa.load import AnalysisError, Repo, loc
from sa.report import Run
from sa.term import Rat
from sa.units import NO_UNIT, Unit
from sa.witness import WitnessInterp, WitnessModel, items_of, rows_of, sym_scalar

MOD = 'peaks._fit_peaks'
ANG = Unit.named('angstrom')
CNT = Unit.named('counts')
REQUIREMENTS = ('background_is_better', 'p_too_small', 'peak_near_edge', 'peak_points_down', 'peak_too_wide', 'peak_too_narrow')


class FitModel(WitnessModel):
    """WitnessModel plus the two third-party calls of the fitting code, as recording stubs."""

    def __init__(self):
        super().__init__()
        self.fits: list = []
        self.fit_raises = False
        self.popt_factory = None

    def call_ext(self, interp, path, args, kwargs, node):
        if path.endswith('curve_fit'):
            self.fits.append({'f': args[0] if args else kwargs.get('f'), 'data': args[1] if len(args) > 1 else kwargs.get('da'),
                              'p0': kwargs.get('p0'), 'bounds': kwargs.get('bounds')})
            if self.fit_raises:
                raise RaiseSignal('RuntimeError', node, interp.where(node), ('optimiser did not converge',))
            return (self.popt_factory(interp, self, kwargs.get('p0')), Opaque('covariance'))
        if path.endswith('chi2') and len(args) == 1:
            return _Chi2(self, interp, args[0])
        if path.endswith(('chi2.cdf', 'chi2.sf')) and len(args) + len(kwargs) == 2:
            # the distribution's functions called directly: cdf(x, df) / sf(x, df) = 1 - cdf(x, df)
            x = args[0] if args else kwargs.get('x')
            dof = args[1] if len(args) > 1 else kwargs.get('df')
            c = _Chi2(self, interp, dof).cdf(x)
            return c if path.endswith('cdf') else interp.binop('sub', lambda a, b: a - b, 1, c, node)
        return super().call_ext(interp, path, args, kwargs, node)


class _Chi2:
    def __init__(self, model, interp, dof):
        self.model, self.interp, self.dof = model, interp, dof

    def cdf(self, x):
        t = Rat.fn('chi2cdf', Rat.const(self.dof), x.term) if isinstance(x, SVar) and isinstance(x.term, Rat) and isinstance(self.dof, int) else None
        r = self.model.new(self.interp, t, Unit(), 'float64', why='chi2 cdf of unknown arguments')
        r.kind = 'pyfloat'
        r.members['dims'] = []
        return r

    def sf(self, x):
        return self.interp.binop('sub', lambda a, b: a - b, 1, self.cdf(x), None)


class ModelStub:
    """A fit model: named parameters, bounds, guesses, symbolic evaluation."""

    def __init__(self, world, name, params, is_sum=False):
        self.world, self.name = world, name
        self.param_names = set(params)
        self.prefix = name + '_'
        self.calls = []
        self.guesses = []
        self.parts = ()
        self.fwhm_value = None

    @property
    def param_bounds(self):
        return {p: (-float('inf'), float('inf')) for p in sorted(self.param_names)}

    def __add__(self, other):
        m = ModelStub(self.world, f'{self.name}+{other.name}', self.param_names | other.param_names)
        m.parts = (self, other)
        return m

    def guess(self, data, **kw):
        self.guesses.append(data)
        if self.world.guess_needs is not None and len(items_of(data) or []) < self.world.guess_needs:
            raise RaiseSignal('ValueError', None, f'{self.name}.guess', ('not enough points to guess from',))
        w = self.world
        return {p: sym_scalar(w.it, w.model, f'g_{p}', CNT, 1) for p in sorted(self.param_names)}

    def __call__(self, x, **params):
        self.calls.append((x, params))
        w = self.world
        its = items_of(x)
        if its is None:
            raise AnalysisError(f'model {self.name} evaluated on {x!r}')
        k = len(self.calls)
        out = [sym_scalar(w.it, w.model, f'f_{self.name}_{k}_{T.show(c.term)}', CNT, 1 + i) for i, c in enumerate(its)]
        return w.model.array(w.it, out, x.members['dims'][0])

    def fwhm(self, popt):
        return self.fwhm_value


class World:
    def __init__(self, repo):
        T.reset()
        self.repo = repo
        self.model = FitModel()
        self.it = WitnessInterp(repo, self.model)
        self.it.concrete_enums = True
        self.it.events, self.it.conditions = [], []
        self.guess_needs = None
        self.assess = self.it.enum_members(repo.cls(MOD, 'FitAssessment'))

    def scalar(self, name, unit, value, positive=False):
        return sym_scalar(self.it, self.model, name, unit, value, positive=positive)

    def data(self, n, name='y', x0=0, step=1, variances=True, grid=None):
        xs = [self.scalar(f'x{i}', ANG, F(grid[i]) if grid is not None else F(x0) + F(step) * i) for i in range(n)]
        ys = []
        for i in range(n):
            y = self.scalar(f'{name}{i}', CNT, 10 + i)
            if variances:
                y.members['var'] = self.scalar(f'v{i}', Unit({'counts': 2}), 2 + i, positive=True)
            ys.append(y)
        da = self.model.array(self.it, ys, 'x')
        da.kind = 'dataarray'
        da.origin = 'data'
        da.members['coords'] = {'x': self.model.array(self.it, xs, 'x')}
        return da

    def call(self, fi, args, kwargs=None, bound=None):
        try:
            return 'return', self.it.call_function(fi, list(args), dict(kwargs or {}), bound=bound)
        except RaiseSignal as r:
            return 'raise', r.exc_type


def stub_existing(w, repo, name, fn):
    """Replace a private helper by a stub where the helper exists (it is not part of the rule)."""
    try:
        w.it.stubs[repo.func(MOD, name).fq] = fn
    except AnalysisError:
        pass


def assessment_name(v):
    return v.name if isinstance(v, EnumMember) else repr(v)


def as_declared(repo, fi, param: str, stats):
    """The statistics in the representation `fi` declares for `param`: a dict today, a private record (NamedTuple / dataclass)
    with those fields after a refactoring."""
    if stats is None:
        return None
    a = next((x for x in fi.node.args.args + fi.node.args.kwonlyargs if x.arg == param), None)
    ann = ast.unparse(a.annotation).strip('\'"') if a is not None and a.annotation is not None else ''
    for part in ann.split('|'):
        ci = repo.module(fi.module).classes.get(part.strip())
        if ci is not None and {n for n, _ in ci.dataclass_fields()} >= set(stats):
            return SObj(ci, dict(stats))
    return stats


def stats_dict(w, stats):
    """Statistics handed out as a dict or as a record with the same field names."""
    if isinstance(stats, dict):
        return stats
    if isinstance(stats, SObj):
        return {n: w.it.getattr(stats, n, None) for n, _ in stats.cls.dataclass_fields()}
    return None


def run(tier: str) -> Run:
    run = Run('C17', tier, 'other',
              'Witness-guided interpretation of peaks/_fit_peaks.py and _remove_peaks.py with recording stubs for the '
              'optimiser (scipp.curve_fit), the chi-square distribution and the fit models.  Decided: (R1) with fewer '
              'points than parameters _fit_peak_single_model returns a window-too-narrow result without touching the '
              'data (guesses that cannot cope with short windows raise in the model), a failing optimiser gives a '
              'failed result, otherwise the result carries the optimiser parameters, the assessment and the statistics; '
              '(R2) over all combinations of violated requirements _assess_fit returns success iff none is violated and '
              'otherwise names a violated one, never raising (a peak at the edge is reported before its neighbours are '
              'indexed); (R3) fit_peaks returns one result per window in order, each fitted on the data inside its '
              'window, and _fit_peak returns the first success in (peak, background) product order, else the first '
              'candidate, for all 16 success patterns; (R4) the statistics are chi2 = sum((y-f)^2/var), chi2/(n-k), '
              '1-cdf(chi2; n-k), n ln(chi2/n)+2k as exact terms of the window data and the model evaluated at the '
              'returned parameters; (R5) automatic windows are [c-w/2, nextafter(c+w/2)] clipped to the data range and '
              'to the neighbour separation, for several witness layouts; (R6) remove_peaks subtracts exactly the peaks '
              'of successful results inside their windows from a copy and leaves its input untouched.  What the '
              'optimiser returns is not decided.')
    repo = Repo()
    run.analysed = {'modules': [MOD, 'peaks._remove_peaks'], 'digest': repo.digest.hexdigest()}
    run.trusted = ['sa/witness.py', 'scipp.curve_fit and scipy.stats.chi2 (stubs)', 'label-based slicing selects lo <= x < hi on a sorted coordinate']

    # ---- R1: the point-count guard and the failure paths --------------------------------------------------
    r1 = run.rule('R1', 'too few points -> window-too-narrow result (no exception, data not consumed); optimiser failure -> failed result', 6)
    sfi = repo.func(MOD, '_fit_peak_single_model')
    stub_names = ('_assess_fit',)
    for n_points in (0, 1, 3, 4, 5, 8):
        for fit_raises in (False, True):
            w = World(repo)
            w.guess_needs = 1  # a guess from an empty selection fails inside the model
            w.model.fit_raises = fit_raises
            w.model.popt_factory = lambda it, m, p0, w=w: {k: w.scalar(f'opt_{k}', CNT, 3) for k in sorted(p0)}
            peak = ModelStub(w, 'peak', ['peak_amplitude', 'peak_loc', 'peak_scale'])
            bkg = ModelStub(w, 'bkg', ['bkg_a0', 'bkg_a1'])
            data = w.data(n_points)
            window = w.model.array(w.it, [w.scalar('wlo', ANG, 0), w.scalar('whi', ANG, 100)], 'range')
            token = object()
            w.it.stubs[repo.func(MOD, '_assess_fit').fq] = lambda it, a, k, b, w=w: w.assess['success']
            kind, res = w.call(sfi, [data], {'peak': peak, 'background': bkg, 'window': window,
                                             'fit_parameters': fit_params(w), 'fit_requirements': None})
            k_params = 5
            inst = f'{n_points} points, optimiser {"fails" if fit_raises else "converges"}'
            if kind != 'return' or not isinstance(res, SObj):
                r1.fail(inst, loc(sfi), {'outcome': (kind, res if kind == 'raise' else repr(res)[:120]), 'documented': 'a FitResult, never an exception'}, key='guard')
                continue
            got = assessment_name(res.attrs.get('assessment'))
            if n_points < k_params:
                ok = got == 'window_too_narrow' and not w.model.fits and not peak.guesses and not bkg.guesses
                r1.check(ok, inst, loc(sfi), {'assessment': got, 'optimiser_calls': len(w.model.fits), 'guess_calls': len(peak.guesses) + len(bkg.guesses)}, key='guard')
            elif fit_raises:
                r1.check(got == 'failed', inst, loc(sfi), {'assessment': got}, key='failure')
            else:
                popt = res.attrs.get('popt')
                fit = w.model.fits[-1] if w.model.fits else {}
                ok = got == 'success' and isinstance(popt, dict) and sorted(popt) == sorted(peak.param_names | bkg.param_names) \
                    and all(isinstance(res.attrs.get(s_), SVar) for s_ in ('red_chisq', 'p_value', 'aic')) \
                    and res.attrs.get('window') is window and fit.get('data') is data
                r1.check(ok, inst, loc(sfi), {'assessment': got, 'popt': sorted(popt) if isinstance(popt, dict) else repr(popt)[:80],
                                              'fitted_on_the_window_data': fit.get('data') is data}, key='result')

    # ---- R2: the assessment cascade ------------------------------------------------------------------------------
    r2 = run.rule('R2', 'success iff no requirement is violated; otherwise a violated requirement is named; never raises', 40)
    afi = repo.func(MOD, '_assess_fit')
    bad2 = {}
    n2 = 0
    for flags in itertools.product((False, True), repeat=6):
        viol = dict(zip(REQUIREMENTS, flags, strict=True))
        if viol['peak_too_wide'] and viol['peak_too_narrow']:
            continue
        for edge_side in (('left', 'right', 'last point', 'outside left', 'outside right') if viol['peak_near_edge'] else ('left',)):
            for with_bkg_stats in ((True,) if viol['background_is_better'] else (True, False)):
                w = World(repo)
                # a non-uniform grid: fine below x = 2, coarse above; spacing around x = 6 is 2, the average spacing 1.25
                data = w.data(9, variances=False, grid=(0, F(1, 2), 1, F(3, 2), 2, 4, 6, 8, 10))
                # (a fitted location outside the window, by more than two steps, is closer to the edge than any point inside)
                loc_val = {'left': F(1, 4), 'right': F(19, 2), 'last point': F(10), 'outside left': F(-3), 'outside right': F(14)}[edge_side] if viol['peak_near_edge'] else F(6)
                popt = {'peak_loc': w.scalar('loc', ANG, loc_val), 'peak_amplitude': w.scalar('amp', CNT, -1 if viol['peak_points_down'] else 5),
                        'bkg_a0': w.scalar('a0', CNT, 1)}
                peak = ModelStub(w, 'peak', ['peak_amplitude', 'peak_loc'])
                # window width 10, spacing around the centre 2: max width factor 0.5 (-> 5), min width factor 2 (-> 4)
                peak.fwhm_value = w.scalar('fwhm', ANG, 6 if viol['peak_too_wide'] else (3 if viol['peak_too_narrow'] else F(9, 2)), positive=True)
                stats = {'aic': w.scalar('aic', Unit(), 10), 'p_value': w.scalar('p', Unit(), F(1, 1000) if viol['p_too_small'] else F(1, 2)),
                         'red_chisq': w.scalar('rchi', Unit(), 1)}
                bstats = {'aic': w.scalar('baic', Unit(), 5 if viol['background_is_better'] else 20), 'p_value': w.scalar('bp', Unit(), F(1, 2)),
                          'red_chisq': w.scalar('brchi', Unit(), 1)} if with_bkg_stats else None
                req = SObj(repo.cls('peaks._common', 'FitRequirements'), {'min_p_value': w.scalar('minp', Unit(), F(1, 100)),
                                                                           'max_peak_width_factor': F(1, 2), 'min_peak_width_factor': 2})
                req.attrs['max_peak_width_factor'] = 0.5
                req.attrs['min_peak_width_factor'] = 2.0
                kind, res = w.call(afi, [data, peak, popt, as_declared(repo, afi, 'goodness_stats', stats), as_declared(repo, afi, 'bkg_goodness_stats', bstats)], {'fit_requirements': req})
                n2 += 1
                violated = [k for k, v in viol.items() if v]
                got = assessment_name(res) if kind == 'return' else None
                if kind != 'return':
                    bad2.setdefault('never raises', {'violated': violated, 'outcome': (kind, res)})
                elif not violated and got != 'success':
                    bad2.setdefault('all requirements met -> success', {'assessment': got})
                elif violated and got == 'success':
                    bad2.setdefault('success only when ' + violated[0] + ' is met', {'violated': violated, 'assessment': got})
                elif violated and got not in violated:
                    bad2.setdefault('reported reason is a violated requirement', {'violated': violated, 'assessment': got})
    names = ['never raises', 'all requirements met -> success', 'reported reason is a violated requirement'] + [f'success only when {r_} is met' for r_ in REQUIREMENTS]
    for inst in names:
        hit = next((v for k, v in bad2.items() if k == inst), None)
        r2.check(hit is None, inst, loc(afi), hit or {'configurations': n2}, key=inst)
    for _ in range(n2 - len(names)):
        r2.ok('configuration')

    # ---- R3: one result per window; first success wins ---------------------------------------------------------------
    r3 = run.rule('R3', 'one result per estimate, in order, fitted on the window data; first success in product order, else first candidate', 18)
    ffi = repo.func(MOD, 'fit_peaks')
    try:
        pfi = repo.func(MOD, '_fit_peak')
    except AnalysisError:
        pfi = None
    for pattern in itertools.product((False, True), repeat=4):
        w = World(repo)
        peaks = (ModelStub(w, 'p0', ['peak_loc']), ModelStub(w, 'p1', ['peak_loc']))
        bkgs = (ModelStub(w, 'b0', ['bkg_a0']), ModelStub(w, 'b1', ['bkg_a0']))
        order = [(p, b) for p in peaks for b in bkgs]
        made = []

        def single(it, args, kwargs, bound, w=w, order=order, pattern=pattern, made=made):
            pk, bg = kwargs.get('peak'), kwargs.get('background')
            idx = next(i for i, (p, b) in enumerate(order) if p is pk and b is bg)
            res = SObj(repo.cls(MOD, 'FitResult'), {'assessment': w.assess['success'] if pattern[idx] else w.assess['failed'], 'tag': idx})
            made.append(idx)
            return res
        w.it.stubs[repo.func(MOD, '_fit_peak_single_model').fq] = single
        data = w.data(6)
        window = w.model.array(w.it, [w.scalar('wlo', ANG, 0), w.scalar('whi', ANG, 100)], 'range')
        if pfi is not None:
            kind, res = w.call(pfi, [data, window, bkgs, peaks, fit_params(w), None])
        else:
            # no per-window helper of today's shape: the same question through fit_peaks with one explicit window
            stub_existing(w, repo, '_assert_data_is_supported', lambda *a: None)
            stub_existing(w, repo, '_parse_model_spec', lambda it, args, kwargs, bound: tuple(args[0]))
            est = w.model.array(w.it, [w.scalar('c0', ANG, 50)], 'x')
            kind, res = w.call(ffi, [data], {'peak_estimates': est, 'windows': w.model.matrix(w.it, [window], 'x'), 'background': bkgs, 'peak': peaks,
                                             'fit_parameters': fit_params(w)})
            if kind == 'return':
                res = res[0] if isinstance(res, list) and len(res) == 1 else None
        want = pattern.index(True) if any(pattern) else 0
        got = res.attrs.get('tag') if kind == 'return' and isinstance(res, SObj) else None
        r3.check(got == want, f'success pattern {pattern}', loc(pfi or ffi), {'returned_candidate': got, 'documented': want, 'tried': made, 'outcome': kind}, key='selection')
    ffi = repo.func(MOD, 'fit_peaks')
    for order_label, los, his in (('increasing windows', (1, 4), (3, 7)), ('overlapping and empty windows', (2, 5, 9), (6, 5, 20))):
        w = World(repo)
        data = w.data(8)
        rows = [w.model.array(w.it, [w.scalar(f'lo{i}', ANG, lo), w.scalar(f'hi{i}', ANG, hi)], 'range') for i, (lo, hi) in enumerate(zip(los, his, strict=True))]
        windows = w.model.matrix(w.it, rows, 'x')
        est = w.model.array(w.it, [w.scalar(f'c{i}', ANG, (lo + hi) / 2) for i, (lo, hi) in enumerate(zip(los, his, strict=True))], 'x')
        seen = []

        def one(it, args, kwargs, bound, seen=seen, w=w):
            seen.append((args[0], args[1] if len(args) > 1 else kwargs.get('window')))
            if pfi is None:
                return SObj(repo.cls(MOD, 'FitResult'), {'assessment': w.assess['success'], 'tag': len(seen) - 1})
            return ('result', len(seen) - 1)
        if pfi is not None:
            w.it.stubs[pfi.fq] = one
        else:
            w.it.stubs[repo.func(MOD, '_fit_peak_single_model').fq] = one  # one candidate per window: its first result is the window's result
        stub_existing(w, repo, '_assert_data_is_supported', lambda *a: None)
        stub_existing(w, repo, '_parse_model_spec', lambda it, args, kwargs, bound: ('models', kwargs.get('prefix')))
        kind, res = w.call(ffi, [data], {'peak_estimates': est, 'windows': windows, 'background': 'linear', 'peak': 'gaussian'})
        if pfi is None and kind == 'return' and isinstance(res, list):
            res = [('result', r_.attrs.get('tag')) if isinstance(r_, SObj) else r_ for r_ in res]
        ok = kind == 'return' and res == [('result', i) for i in range(len(los))] and len(seen) == len(los)
        detail = {'outcome': kind, 'results': repr(res)[:120]}
        if ok:
            for i, (d_in, win) in enumerate(seen):
                its = items_of(d_in) or []
                want_idx = [j for j in range(8) if los[i] <= j < his[i]]
                got_idx = [next((j for j, y in enumerate(items_of(data)) if y is x), None) for x in its]
                if got_idx != want_idx or items_of(win) is None or items_of(win)[0] is not items_of(rows[i])[0]:
                    ok = False
                    detail = {'window': i, 'points_fitted': got_idx, 'points_inside_the_window': want_idx}
        r3.check(ok, f'fit_peaks [{order_label}]', loc(ffi), detail, key='loop')

    # ---- R4: statistics ---------------------------------------------------------------------------------------------------
    r4 = run.rule('R4', 'chi2 = sum((y-f)^2/var); red = chi2/(n-k); p = 1-cdf(chi2; n-k); aic = n ln(chi2/n) + 2k, from the returned parameters and the window data', 4)
    perf = repo.func(MOD, '_perform_fit')
    w = World(repo)
    w.model.popt_factory = lambda it, m, p0, w=w: {k: with_variance(w, w.scalar(f'opt_{k}', CNT, 3)) for k in sorted(p0)}
    model = ModelStub(w, 'm', ['a', 'b'])
    data = w.data(4)
    p0 = {'a': w.scalar('a0', CNT, 1), 'b': w.scalar('b0', CNT, 1)}
    kind, res = w.call(perf, [model, data], {'p0': p0, 'bounds': model.param_bounds})
    probs = []
    if kind != 'return' or not isinstance(res, tuple) or len(res) != 2 or stats_dict(w, res[1]) is None:
        probs.append(f'_perform_fit: {kind} {res!r}'[:200])
    else:
        popt, stats = res[0], stats_dict(w, res[1])
        fit = w.model.fits[-1]
        if fit.get('data') is not data or fit.get('p0') is not p0:
            probs.append('the optimiser is not handed the window data and the initial parameters')
        if not model.calls:
            probs.append('the model is never evaluated at the returned parameters')
        else:
            x_arg, params = model.calls[-1]
            if items_of(x_arg) is None or any(a is not b for a, b in zip(items_of(x_arg), items_of(data.members['coords']['x']), strict=False)):
                probs.append('the best fit is not evaluated on the window coordinate')
            for k, v in params.items():
                if not (isinstance(v, SVar) and isinstance(v.term, Rat) and v.term.eq(Rat.sym(f'opt_{k}'))):
                    probs.append(f'parameter {k} handed to the model is not the optimised value')
            f_items = [Rat.sym(f'f_m_{len(model.calls)}_x{i}') for i in range(4)]
            chi2 = Rat.const(0)
            for i in range(4):
                chi2 = chi2 + (Rat.sym(f'y{i}') - f_items[i]) ** 2 / Rat.sym(f'v{i}', positive=True)
            n, k_ = 4, 2
            want = {'red_chisq': chi2 / (n - k_), 'aic': n * T.FN_CTORS['log'](chi2 / n) + 2 * k_,
                    'p_value': 1 - Rat.fn('chi2cdf', Rat.const(n - k_), chi2)}
            for name, wt in want.items():
                g = stats.get(name)
                if not (isinstance(g, SVar) and isinstance(g.term, Rat) and g.term.eq(wt)):
                    probs.append(f'{name} = {T.show(g.term)[:200] if isinstance(g, SVar) and g.term is not None else g!r}, expected {T.show(wt)[:200]}')
    r4.check(not probs, '_perform_fit statistics', loc(perf), {'problems': probs[:3]}, key='_goodness_of_fit_statistics')
    # a window with exactly as many points as parameters has no degree of freedom: chi2/(n-k) is not a number,
    # and with one degree of freedom the divisor is 1
    gfi = repo.func(MOD, '_goodness_of_fit_statistics')
    for n_pts, k_par in ((2, 2), (3, 2)):
        w = World(repo)
        data = w.data(n_pts)
        best = w.model.array(w.it, [w.scalar(f'f{i}', CNT, 1 + i) for i in range(n_pts)], 'x')
        best.kind = 'dataarray'
        best.members['coords'] = dict(data.members['coords'])
        params = {f'p{j}': w.scalar(f'p{j}', CNT, 1) for j in range(k_par)}
        kind, st = w.call(gfi, [data, best, params])
        st = stats_dict(w, st) if kind == 'return' and stats_dict(w, st) is not None else st
        chi2 = Rat.const(0)
        for i in range(n_pts):
            chi2 = chi2 + (Rat.sym(f'y{i}') - Rat.sym(f'f{i}')) ** 2 / Rat.sym(f'v{i}', positive=True)
        inst = f'{n_pts} points, {k_par} parameters'
        if n_pts == k_par:
            # either an exception or an undefined (non-finite) statistic; never a finite chi2 / m
            finite = kind == 'return' and isinstance(st, dict) and isinstance(st.get('red_chisq'), SVar) and isinstance(st['red_chisq'].term, Rat)
            r4.check(not finite, f'reduced chi-square is undefined for {inst}', loc(gfi),
                     {'red_chisq': T.show(st['red_chisq'].term) if finite else None, 'documented': 'chi2 / (n - k) with n - k = 0'}, key='dof-zero')
        else:
            ok = kind == 'return' and isinstance(st, dict) and isinstance(st.get('red_chisq'), SVar) and isinstance(st['red_chisq'].term, Rat) \
                and st['red_chisq'].term.eq(chi2 / (n_pts - k_par))
            r4.check(ok, f'reduced chi-square for {inst}', loc(gfi), {'outcome': kind}, key='dof-one')
    r4.check(not [p_ for p_ in probs if 'optimis' in p_ or 'evaluated' in p_ or 'parameter' in p_], '_perform_fit feeds popt and window data', loc(perf), {'problems': probs[:3]}, key='perform-fit')

    # ---- R5: automatic windows ---------------------------------------------------------------------------------------------
    r5 = run.rule('R5', 'windows: [c-w/2, nextafter(c+w/2)] clipped to the data range and to the neighbour separation on interior edges', 4)
    wfi = repo.func(MOD, '_fit_windows')
    layouts = {
        'isolated peaks, window inside the data': ((10, 30, 50), 4),
        'windows wider than the peak distance': ((10, 14, 50), 12),
        'estimates at and beyond the data range': ((0, 30, 62), 10),
        'estimates farther outside the data than half a window': ((-20, 30, 90), 10),
        'a single estimate': ((30,), 100),
    }
    for name, (centres, width) in layouts.items():
        w = World(repo)
        data = w.data(61)  # x = 0 .. 60
        cs = [w.scalar(f'c{i}', ANG, c) for i, c in enumerate(centres)]
        centre = w.model.array(w.it, cs, 'x')
        wd = w.scalar('width', ANG, width, positive=True)
        fp = fit_params(w)
        kind, res = w.call(wfi, [data, centre, wd, fp])
        probs = []
        if kind != 'return' or not isinstance(res, SVar) or rows_of(res) is None or len(rows_of(res)) != len(centres):
            probs.append(f'{kind} {res!r}'[:160])
        else:
            val = w.model.val
            sep = Rat.const(F(1, 3))
            lo_d, hi_d = Rat.sym('x0'), Rat.sym('x60')
            for i, row in enumerate(rows_of(res)):
                lo_c, hi_c = items_of(row)
                c = cs[i].term
                half = wd.term / 2
                u = ANG.scale()
                cand_lo = [c - half, lo_d] + ([cs[i - 1].term + (c - cs[i - 1].term) * sep] if i > 0 else [])
                cand_hi = [Rat.fn('nextafter_up', (c + half) / u) * u, hi_d] + ([cs[i + 1].term - (cs[i + 1].term - c) * sep] if i < len(centres) - 1 else [])
                ev = lambda t: T.evaluate(t, val, w.model.fns)  # noqa: E731
                want_lo = max(cand_lo, key=ev)
                # an upper edge below the data range is clipped up to the lower data bound first
                want_hi = min(cand_hi, key=ev)
                if ev(want_hi) < ev(lo_d):
                    want_hi = lo_d
                if ev(want_lo) > ev(hi_d):
                    want_lo = hi_d
                for label, got, want in (('lower', lo_c, want_lo), ('upper', hi_c, want_hi)):
                    if not (isinstance(got.term, Rat) and (got.term.eq(want) or ev(got.term) == ev(want))):
                        probs.append(f'{label} edge of window {i}: {T.show(got.term) if got.term is not None else None}, expected {T.show(want)}')
        r5.check(not probs, name, loc(wfi), {'problems': probs[:3]}, key='_fit_windows')

    # ---- R6: remove_peaks ------------------------------------------------------------------------------------------------------
    r6 = run.rule('R6', 'remove_peaks: exactly the peaks of successful results are subtracted inside their windows, from a copy; input untouched', 4)
    rfi = repo.func('peaks._remove_peaks', 'remove_peaks')
    w = World(repo)
    data = w.data(8, variances=False)
    before = [(y, y.term) for y in items_of(data)]
    results = []
    for r_idx, (lo, hi, success) in enumerate(((1, 4, True), (3, 6, False), (5, 8, True), (20, 30, True), (2, 7, True))):
        results.append(ResultStub(w, r_idx, lo, hi, success))
    kind, res = w.call(rfi, [data, results])
    probs = []
    if kind != 'return' or not isinstance(res, SVar) or items_of(res) is None or len(items_of(res)) != 8:
        probs.append(f'{kind} {res!r}'[:160])
    else:
        for j, out in enumerate(items_of(res)):
            want = Rat.sym(f'y{j}')
            for r_ in results:
                if r_.success and r_.lo <= j < r_.hi:
                    want = want - Rat.sym(f'peak{r_.idx}_x{j}')
            if not (isinstance(out.term, Rat) and out.term.eq(want)):
                probs.append(f'point {j}: {T.show(out.term) if out.term is not None else None}, expected {T.show(want)}')
        if any(y.term is not t0 and not (isinstance(y.term, Rat) and y.term.eq(t0)) for y, t0 in before) or items_of(data) is None \
                or [y for y, _ in before] != list(items_of(data)):
            probs.append('the input data array was modified')
        if any(a is b for a, b in zip(items_of(res), items_of(data), strict=True)):
            probs.append('the result shares its data buffer with the input')
        for r_ in results:
            if not r_.success and r_.evaluated:
                probs.append(f'the peak of unsuccessful result {r_.idx} was evaluated')
    r6.check(not probs, 'subtraction inside successful windows only', loc(rfi), {'problems': probs[:4]}, key='subtrahend')
    r6.check(not [p_ for p_ in probs if 'input' in p_ or 'shares' in p_], 'deep copy before subtracting', loc(rfi), {'problems': probs[:4]}, key='copy')
    r6.check(not [p_ for p_ in probs if 'unsuccessful' in p_], 'unsuccessful fits are skipped', loc(rfi), {'problems': probs[:4]}, key='skip')
    w = World(repo)
    data = w.data(4, variances=True)
    kind, res = w.call(rfi, [data, []])
    r6.check(kind == 'raise', 'data with variances is refused', loc(rfi), {'outcome': kind}, key='variances')
    eff = Effects(repo)
    eff.solve()
    s_ = eff.summaries[rfi.fq]
    r6.check(not s_.mutates, 'input not written', loc(rfi), {'writes_to': sorted(s_.mutates)}, key='no-mutation')
    return run


def fit_params(w):
    return SObj(w.repo.cls('peaks._common', 'FitParameters'), {'guess_background_fraction': 0.5, 'neighbor_separation_factor': F(1, 3)})


def with_variance(w, v):
    v.members['var'] = w.scalar('var_' + T.show(v.term), Unit({'counts': 2}), 1, positive=True)
    return v


class ResultStub:
    def __init__(self, w, idx, lo, hi, success):
        self.w, self.idx, self.lo, self.hi, self.success = w, idx, lo, hi, success
        self.window = w.model.array(w.it, [w.scalar(f'r{idx}lo', ANG, lo), w.scalar(f'r{idx}hi', ANG, hi)], 'range')
        self.assessment = w.assess['success'] if success else w.assess['failed']
        self.popt = {}
        self.evaluated = False

    def eval_model(self, x):
        w = self.w
        return w.model.array(w.it, [sym_scalar(w.it, w.model, f'model{self.idx}_x{T.show(c.term)[1:]}', CNT, 1) for c in items_of(x)], x.members['dims'][0])

    def eval_peak(self, x):
        self.evaluated = True
        w = self.w
        out = []
        for c in items_of(x):
            j = T.show(c.term)[1:]
            out.append(sym_scalar(w.it, w.model, f'peak{self.idx}_x{j}', CNT, 1))
        return w.model.array(w.it, out, x.members['dims'][0])
