"""C19.R6 - the bins find_plateaus returns are exactly the maximal runs (finite-domain, witness-guided).

The series is an array of symbolic scalars with exact rational witness values; every comparison the
code makes is decided at the witness.  scipp's `group` and the operations on its result that the
function uses are modelled by `Binned` below (group by the integer label, events keep their order,
the grouped coordinate leaves the events).  The result is compared with the runs computed from the
definition: cut the series wherever |slope| > atol, keep the pieces with at least min_n_points
points, in input order.  What is compared is object identity of the points (values and coordinates
unchanged, none missing, none twice).
"""

from __future__ import annotations

import itertools
from fractions import Fraction as F

from sa import term as T
from sa.interp import RaiseSignal, SVar
from sa.load import AnalysisError
from sa.units import Unit
from sa.witness import WitnessInterp, WitnessModel, items_of, sym_scalar

SEC = Unit.named('s')
HZ = Unit.named('Hz')


class _IndexValue:
    def __init__(self, k):
        self.value = k
        self.values = k


class _BinItem:
    """One element of a binned data array: `.value` is the content of the bin."""

    def __init__(self, content, dim, k):
        self.value = content
        self.coords = {dim: _IndexValue(k)}


class _BinsAccessor:
    def __init__(self, owner):
        self.owner = owner

    @property
    def constituents(self):
        """begin / end indices into one buffer holding all the bins' points one after the other."""
        m, it = self.owner.model, self.owner.interp
        flat, begins, ends = [], [], []
        coords: dict = {}
        for b in self.owner.contents:
            begins.append(len(flat))
            flat.extend(items_of(b))
            ends.append(len(flat))
            for n, c in (b.members.get('coords') or {}).items():
                coords.setdefault(n, []).extend(items_of(c))
        like = self.owner.contents[0] if self.owner.contents else None
        inner = like.members['dims'][0] if like is not None else 'event'
        buf = m.array(it, flat, inner, like=like)
        buf.kind = 'dataarray'
        buf.members['coords'] = {n: m.array(it, v, inner) for n, v in coords.items()}

        def ints(vals):
            out = []
            for v in vals:
                x = m.new(it, T.Rat.const(v), None, 'int64')
                x.members['concrete'] = v
                x.members['dims'] = []
                out.append(x)
            return m.array(it, out, self.owner.dim)
        return {'data': buf, 'begin': ints(begins), 'end': ints(ends), 'dim': inner}

    def size(self):
        m, it = self.owner.model, self.owner.interp
        items = []
        for b in self.owner.contents:
            v = m.new(it, T.Rat.const(len(items_of(b))), Unit.named('dimensionless') if False else None, 'int64')
            v.members['concrete'] = len(items_of(b))
            v.members['dims'] = []
            items.append(v)
        return _SizeResult(m.array(it, items, self.owner.dim) if items else m.array(it, [], self.owner.dim))


class _SizeResult:
    def __init__(self, data):
        self.data = data


class Binned:
    """What `DataArray.group(label)` returns, as far as find_plateaus uses it."""

    def __init__(self, model, interp, dim, contents, coords=None):
        self.model, self.interp, self.dim = model, interp, dim
        self.contents = list(contents)
        self.coords = dict(coords or {})
        self.ndim = 1
        self.dims = (dim,)

    @property
    def bins(self):
        return _BinsAccessor(self)

    @property
    def sizes(self):
        return {self.dim: len(self.contents)}

    @property
    def shape(self):
        return (len(self.contents),)

    def __len__(self):
        return len(self.contents)

    def __getitem__(self, key):
        if isinstance(key, SVar) and items_of(key) is not None:
            mask = [self.model._truth(x) for x in items_of(key)]
            if len(mask) != len(self.contents):
                raise RaiseSignal('DimensionError', None, 'binned[mask]', ('mask length',))
            return Binned(self.model, self.interp, self.dim, [c for c, m in zip(self.contents, mask, strict=True) if m], {})
        if isinstance(key, int):
            return _BinItem(self.contents[key], self.dim, key)
        if isinstance(key, slice):
            return Binned(self.model, self.interp, self.dim, self.contents[key], {})
        raise AnalysisError(f'index of a binned array with {key!r} is not modelled')

    def vp_index(self, key):
        return self[key]

    def __iter__(self):
        return iter([_BinItem(c, self.dim, k) for k, c in enumerate(self.contents)])

    def rename_dims(self, mapping=None, **kw):
        mapping = dict(mapping or {}, **kw)
        return Binned(self.model, self.interp, mapping.get(self.dim, self.dim), self.contents, self.coords)

    def rename(self, mapping=None, **kw):
        return self.rename_dims(mapping, **kw)

    def copy(self, deep=True):
        return Binned(self.model, self.interp, self.dim, self.contents, self.coords)


class RunsModel(WitnessModel):
    _fresh = 0

    def call_ext(self, interp, path, args, kwargs, node):
        if path in ('scipp.mean', 'scipp.nanmean') and args and isinstance(args[0], SVar) and items_of(args[0]) is not None and not items_of(args[0]):
            return self.call_method(interp, args[0], 'mean', [], {}, node)
        if path in ('uuid.uuid4', 'uuid.uuid1'):
            RunsModel._fresh += 1
            return f'fresh-label-{RunsModel._fresh}'  # a name no coordinate of the input has
        if path == 'scipp.bins' and isinstance(kwargs.get('data'), SVar) and items_of(kwargs['data']) is not None:
            # bins given by begin / end indices into the data (contiguous slices, in the order listed)
            data, begin, end = kwargs['data'], kwargs.get('begin'), kwargs.get('end')
            its = items_of(data)

            def ints(v):
                if isinstance(v, SVar) and items_of(v) is not None:
                    return [self.value(x) for x in items_of(v)]
                if isinstance(v, list | tuple) or hasattr(v, 'tolist'):
                    return [F(int(x)) for x in (v.tolist() if hasattr(v, 'tolist') else v)]
                return None
            b, e = ints(begin), ints(end)
            if b is None or any(x is None for x in b):
                raise AnalysisError(f'sc.bins: begin indices without witness values at {interp.where(node)}')
            if e is None:
                e = [*b[1:], F(len(its))]
            coords = data.members.get('coords') or {}
            contents = []
            for lo, hi in zip(b, e, strict=True):
                lo, hi = int(lo), int(hi)
                c = self.array(interp, its[lo:hi], data.members['dims'][0], like=data)
                c.kind = 'dataarray'
                c.members['coords'] = {n: self.array(interp, items_of(cv)[lo:hi], data.members['dims'][0], like=cv)
                                       for n, cv in coords.items() if isinstance(cv, SVar) and items_of(cv) is not None}
                contents.append(c)
            dim = begin.members['dims'][0] if isinstance(begin, SVar) and begin.members.get('dims') else kwargs.get('dim')
            return Binned(self, interp, dim, contents, {})
        if path == 'scipp.DataArray' and (args and isinstance(args[0], Binned) or isinstance(kwargs.get('data'), Binned)):
            b = args[0] if args else kwargs['data']
            return Binned(self, interp, b.dim, b.contents, dict(kwargs.get('coords') or {}))
        return super().call_ext(interp, path, args, kwargs, node)

    # the mean of no numbers is not a number: it propagates through arithmetic and compares false with everything
    @staticmethod
    def _nan(x):
        return isinstance(x, SVar) and x.members.get('not_a_number')

    def binop(self, interp, op, a, b, node, inplace=False):
        if self._nan(a) or self._nan(b):
            src = a if self._nan(a) else b
            ua = a.unit if isinstance(a, SVar) else None
            ub = b.unit if isinstance(b, SVar) else None
            unit = src.unit
            if op in ('mul', 'div', 'truediv'):
                one = Unit.named('dimensionless')
                ua, ub = ua if ua is not None else one, ub if ub is not None else one
                unit = ua * ub if op == 'mul' else ua / ub
            r = self.new(interp, None, unit, src.dtype, why='not a number')
            r.members['not_a_number'] = True
            r.members['dims'] = []
            return r
        return super().binop(interp, op, a, b, node, inplace)

    def compare(self, interp, sym, a, b, node):
        if self._nan(a) or self._nan(b):
            return self.const_bool(interp, sym == '!=')
        return super().compare(interp, sym, a, b, node)

    def call_method(self, interp, recv, name, args, kwargs, node):
        if isinstance(recv, SVar) and name == 'mean' and items_of(recv) is not None and not items_of(recv):
            r = self.new(interp, None, recv.unit, 'float64', why='mean of an empty array')
            r.members['not_a_number'] = True
            r.members['dims'] = []
            return r
        if isinstance(recv, SVar) and name in ('to', 'astype', 'copy') and self._nan(recv):
            return recv
        if isinstance(recv, SVar) and name == 'group' and items_of(recv) is not None and recv.kind == 'dataarray' and len(args) == 1:
            label = args[0]
            coords = recv.members.get('coords') or {}
            lab = coords.get(label)
            its = items_of(recv)
            if not isinstance(lab, SVar) or items_of(lab) is None or len(items_of(lab)) != len(its):
                raise AnalysisError(f'group({label!r}): no label per point at {interp.where(node)} (coords: {list(coords)}, label: {lab!r})')
            keys = [self.value(x) for x in items_of(lab)]
            if any(k is None for k in keys):
                raise AnalysisError(f'group labels without witness values at {interp.where(node)}')
            contents = []
            for k in sorted(set(keys)):
                sel = [i for i, q in enumerate(keys) if q == k]
                b = self.array(interp, [its[i] for i in sel], recv.members['dims'][0], like=recv)
                b.kind = 'dataarray'
                b.members['coords'] = {n: self.array(interp, [items_of(c)[i] for i in sel], recv.members['dims'][0], like=c)
                                       for n, c in coords.items() if n != label and isinstance(c, SVar) and items_of(c) is not None}
                contents.append(b)
            return Binned(self, interp, label, contents, {label: lab})
        return super().call_method(interp, recv, name, args, kwargs, node)


def reference_runs(xs, ys, atol, min_n):
    runs, cur = [], [0]
    for i in range(1, len(xs)):
        slope = (ys[i] - ys[i - 1]) / (xs[i] - xs[i - 1])
        if abs(slope) > atol:
            runs.append(cur)
            cur = []
        cur.append(i)
    runs.append(cur)
    return [r for r in runs if len(r) >= min_n]


def series(pattern, x_steps):
    """Witness values around a large offset (y near 10^6, x near 10^9: a tolerance relative to the magnitude of the values is not
    the documented one): flat steps keep y, 'tol' steps change y by exactly atol * dx (atol = 1), 'above' steps by atol * dx * 1.001,
    'jump' steps by 10 * dx + 5."""
    xs, ys = [F(10 ** 9)], [F(10 ** 6)]
    sign = 1
    for gap, dx in zip(pattern, x_steps, strict=False):
        xs.append(xs[-1] + dx)
        if gap == 'flat':
            ys.append(ys[-1])
        elif gap == 'tol':
            ys.append(ys[-1] + sign * dx)
            sign = -sign  # alternate, so that the run does not drift
        elif gap == 'above':
            ys.append(ys[-1] + sign * dx * F(1001, 1000))
            sign = -sign
        else:
            ys.append(ys[-1] + sign * (10 * dx + 5))
    return xs, ys


def run_case(repo, fi, pattern, min_n, x_dtype='float64', min_n_as_variable=False):
    """-> ('return', [[indices of the points of bin 0], ...]) | ('raise', exc_type) | ('shape', description)."""
    T.reset()
    wm = RunsModel()
    wi = WitnessInterp(repo, wm)
    steps = [F(1), F(2), F(1, 2), F(3), F(1), F(5, 2), F(2)]
    if x_dtype != 'float64':
        steps = [F(1), F(2), F(1), F(3), F(1), F(2), F(4)]
    xs, ys = series(pattern, steps)
    xit = [sym_scalar(wi, wm, f'x{i}', SEC, v) for i, v in enumerate(xs)]
    for v in xit:
        v.dtype = x_dtype
    yit = [sym_scalar(wi, wm, f'y{i}', HZ, v) for i, v in enumerate(ys)]
    da = wm.array(wi, yit, 't')
    da.kind = 'dataarray'
    da.origin = 'data'
    da.members['coords'] = {'t': wm.array(wi, xit, 't')}
    atol = sym_scalar(wi, wm, 'atol', HZ / SEC, F(1), positive=True)
    mn = min_n
    if min_n_as_variable:
        mn = wm.new(wi, T.Rat.const(min_n), None, 'int64')
        mn.members['concrete'] = min_n
        mn.members['dims'] = []
    try:
        res = wi.call_function(fi, [da], {'atol': atol, 'min_n_points': mn})
    except RaiseSignal as r:
        return ('raise', r.exc_type), (xs, ys)
    if not isinstance(res, Binned):
        return ('shape', f'find_plateaus returns {res!r}'[:160]), (xs, ys)
    bins = []
    for b in res.contents:
        idx = []
        for y in items_of(b) or []:
            k = next((i for i, q in enumerate(yit) if q is y), None)
            idx.append(k)
        cx = (b.members.get('coords') or {}).get('t')
        cidx = [next((i for i, q in enumerate(xit) if q is c), None) for c in (items_of(cx) or [])] if isinstance(cx, SVar) else None
        bins.append((idx, cidx))
    return ('return', bins), (xs, ys)


def tolerance_histories(repo, fi):
    """Two find_plateaus calls in one world (module-level tables and caches persist): the coordinate in ms, the tolerance in Hz/s,
    first as an integer, then as the equal floating-point number (and the other way round, and twice the same).  -> bad histories"""
    from sa.units import Unit
    MS = Unit.named('ms')

    def one(wi, wm, tol_dtype, tag):
        # slopes in Hz/ms: 0, 0.001 (below the tolerance of 0.002 Hz/ms = 2 Hz/s), 0.005 (above)
        xs = [F(0), F(1000), F(2000), F(3000), F(4000)]
        ys = [F(10), F(10), F(11), F(11), F(16)]
        xit = [sym_scalar(wi, wm, f'x{tag}{i}', MS, v) for i, v in enumerate(xs)]
        yit = [sym_scalar(wi, wm, f'y{tag}{i}', HZ, v) for i, v in enumerate(ys)]
        da = wm.array(wi, yit, 't')
        da.kind = 'dataarray'
        da.origin = 'data'
        da.members['coords'] = {'t': wm.array(wi, xit, 't')}
        atol = wm.new(wi, T.Rat.const(2), HZ / SEC, tol_dtype)
        atol.members['concrete'] = 2 if tol_dtype == 'int64' else 2.0
        atol.members['dims'] = []
        try:
            res = wi.call_function(fi, [da], {'atol': atol, 'min_n_points': 2})
        except RaiseSignal as r:
            return ('raise', r.exc_type)
        if not isinstance(res, Binned):
            return ('shape', repr(res)[:80])
        return ('return', tuple(tuple(next((i for i, q in enumerate(yit) if q is y), None) for y in (items_of(b) or [])) for b in res.contents))
    fresh = {}
    for dt in ('int64', 'float64'):
        T.reset()
        wm = RunsModel()
        fresh[dt] = one(WitnessInterp(repo, wm), wm, dt, 'b')
    bad = []
    n = 0
    for first in ('int64', 'float64'):
        for second in ('int64', 'float64'):
            T.reset()
            wm = RunsModel()
            wi = WitnessInterp(repo, wm)
            one(wi, wm, first, 'a')
            wi.end_of_call()
            got = one(wi, wm, second, 'b')
            n += 1
            if got != fresh[second]:
                bad.append({'history': [f'tolerance 2 Hz/s as {first}', f'tolerance 2 Hz/s as {second}'], 'fresh': str(fresh[second]), 'after_the_first_call': str(got)})
    return bad, n, fresh


def rule(run, repo, tier, where):
    r6 = run.rule('R6', 'finite domain, decided at exact witness values: for every pattern of flat / exactly-at-tolerance / just-above-tolerance / far-exceeding steps (values near 10^6, coordinates near 10^9) of series of 2..4 points (thorough: 2..6) '
                        '(non-uniform coordinates) and every min_n_points, the bins returned are exactly the maximal runs of the definition: in input order, '
                        'none missing, none twice, each with its points and coordinates themselves', 100)
    fi = repo.func('chopper.filtering', 'find_plateaus')
    n_max = 6 if tier == 'thorough' else 4
    bad: dict = {}
    n_cases = n_ret = 0
    for n in range(2, n_max + 1):
        for pattern in itertools.product(('flat', 'tol', 'above', 'jump'), repeat=n - 1):
            for min_n in range(1, n + 1):
                variants = [('float64', False)]
                if min_n == 2 and n <= 4:
                    variants += [('int64', False), ('float64', True)]
                for x_dtype, as_var in variants:
                    n_cases += 1
                    (kind, got), (xs, ys) = run_case(repo, fi, pattern, min_n, x_dtype, as_var)
                    want = reference_runs(xs, ys, F(1), min_n)
                    cfg = {'steps': list(pattern), 'min_n_points': min_n, 'x': [str(v) for v in xs], 'y': [str(v) for v in ys], 'x_dtype': x_dtype}
                    if kind == 'raise':
                        if got == 'RuntimeError':
                            continue  # the total-drift guard: an additional refusal (the property speaks about returns)
                        bad.setdefault('returns for sorted 1-d input', {**cfg, 'raises': got})
                        continue
                    if kind == 'shape':
                        bad.setdefault('returns one bin per plateau', {**cfg, 'problem': got})
                        continue
                    n_ret += 1
                    got_runs = [b[0] for b in got]
                    if got_runs != want:
                        why = 'a run is missing' if len(got_runs) < len(want) else ('bins are not the maximal runs' if sorted(map(tuple, got_runs)) != sorted(map(tuple, want)) else 'bins out of input order')
                        bad.setdefault('bins == maximal runs of at least min_n_points points, in input order', {**cfg, 'bins': got_runs, 'maximal_runs': want, 'problem': why})
                    elif any(b[1] != b[0] for b in got):
                        bad.setdefault('each bin holds the coordinates of its own points', {**cfg, 'coordinate_points': [b[1] for b in got], 'bins': got_runs})
    if n_ret < n_cases // 2 and not bad:
        raise AnalysisError(f'C19.R6: only {n_ret} of {n_cases} series were answered (the rest refused): the domain does not exercise the rule')
    for inst in ('returns for sorted 1-d input', 'returns one bin per plateau', 'bins == maximal runs of at least min_n_points points, in input order',
                 'each bin holds the coordinates of its own points'):
        r6.check(inst not in bad, inst, where, bad.get(inst, {'series_enumerated': n_cases, 'answered': n_ret}), key='runs:' + inst.split(' ')[0])
    for _ in range(min(n_ret, 5000)):
        r6.ok('series')
    run.extra['series_enumerated'] = n_cases
