"""C14 — CIF output is valid CIF 1.1 and parses back to exactly what was supplied."""

from __future__ import annotations

import ast
import itertools

from sa import term as T
from sa.interp import Interp, SObj, SVar
from sa.load import AnalysisError, Repo, loc, where_of
from sa.report import Run
from sa.scipp_model import Model
from sa.term import Rat
from sa.units import DIMENSIONLESS, Unit
from sa.witness import WitnessInterp, WitnessModel, items_of, sym_scalar
from spec import cif11

MOD = 'io.cif'
ALPHABET = ['a', '1', '_', '#', '$', ';', '[', ']', "'", '"', ' ', '\t', '\n', '.', '?', '-']
WORDS = ['data_', 'data_x', 'DATA_x', 'loop_', 'Loop_', 'stop_', 'global_', 'save_', 'save_f', 'loop_x', 'xloop_', 'dataX',
         'a b', "it's", 'say "x"', "both ' and \"", 'x\n;y', 'x\n; y', 'a\n\nb', ' lead', 'trail ', "a' b", 'a" b', "'q'", '"q"',
         'é', 'ü\nö', '1.5(3)', '-1e-05', '?', '.', ';', ';\n;', "'", '"', 'a;b', 'a#b', 'a_b', 'x\n']


class Sink:
    def __init__(self):
        self.parts = []

    def write(self, s):
        self.parts.append(s)

    def text(self):
        return ''.join(self.parts)


class StrVar:
    """Stand-in for a 0-d string variable: what iterating a 1-d string variable yields (an sc.Variable, not a str)."""
    variance = None
    variances = None
    ndim = 0
    dtype = 'string'

    def __init__(self, value: str):
        self.value = value

    def __repr__(self):
        return f'<scipp.Variable () string {self.value!r}>'


class Col(list):
    """Stand-in for a 1-d string variable in a loop (duck-typed by Loop): iteration yields 0-d variables."""
    ndim = 1
    dtype = 'string'  # == scipp.DType.string in the abstract interpreter

    @property
    def sizes(self):
        return {'row': len(self)}

    @property
    def values(self):
        return list(list.__iter__(self))  # the plain strings (what .values of a string variable holds)

    def __iter__(self):
        return iter([StrVar(x) if isinstance(x, str) else x for x in list.__iter__(self)])


class WriterRefuses(Exception):
    """The writer raises for a value it is documented to write."""


class NumVar:
    """Stand-in for a 0-d floating-point variable, with or without a variance; the numbers themselves are abstract."""
    ndim = 0
    dtype = 'float64'
    dims = ()
    shape = ()
    unit = None

    def __init__(self, interp, model, has_variance: bool):
        self.value = model.new(interp, Rat.sym('number', positive=False), DIMENSIONLESS, 'float64')
        self.value.kind = 'raw'
        self.value.members['prints_as'] = NUMBER_TEXT
        self.variance = None
        if has_variance:
            self.variance = model.new(interp, Rat.sym('variance_of_number', positive=True), DIMENSIONLESS, 'float64')
            self.variance.kind = 'raw'
        self.values, self.variances = self.value, self.variance


NUMBER_TEXT = '-3.74e-15'          # what str() of the abstract number stands for
COMPACT_TEXT = '-3.74(2)e-15'      # what scipp's compact format of (number, variance) stands for


class Person:
    def __init__(self, name, role=None, corresponding=False, email=None, address=None, orcid_id=None):
        self.name, self.role, self.corresponding = name, role, corresponding
        self.email, self.address, self.orcid_id = email, address, orcid_id


class ValueModel(Model):
    """Plain model that knows the 0-d string variable stand-in and how abstract numbers print."""

    def sc_scalar(self, interp, args, kwargs, node):
        val = args[0] if args else kwargs.get('value')
        var = kwargs.get('variance')
        r = super().sc_scalar(interp, args, kwargs, node)
        if isinstance(val, SVar) and val.members.get('prints_as'):
            r.members['prints_as'] = COMPACT_TEXT if isinstance(var, SVar) else val.members['prints_as']
            r.members['compact'] = True
        return r

    def format_value(self, interp, val, spec, conversion, node):
        if isinstance(val, SVar) and val.members.get('prints_as'):
            if val.members.get('compact') and spec == 'c':
                return val.members['prints_as']
            if spec in ('', None):
                return val.members['prints_as'] if not val.members.get('compact') else None
        return None

    def _builtin(self, interp, name, args, kwargs, node):
        if name in ('str', 'repr') and len(args) == 1 and isinstance(args[0], SVar) and args[0].members.get('prints_as') and not args[0].members.get('compact'):
            return args[0].members['prints_as']
        return super()._builtin(interp, name, args, kwargs, node)

    def _isinstance(self, interp, x, t, node):
        if isinstance(x, NumVar):
            ts = t if isinstance(t, tuple) else (t,)
            return any(getattr(t_, 'path', '') == 'scipp.Variable' for t_ in ts)
        if isinstance(x, StrVar):
            ts = t if isinstance(t, tuple) else (t,)
            return any(getattr(t_, 'path', '') == 'scipp.Variable' for t_ in ts)
        return super()._isinstance(interp, x, t, node)


class CifModel(WitnessModel):
    """WitnessModel plus a text sink that passes for an open text file."""

    def _isinstance(self, interp, x, t, node):
        if isinstance(x, StrVar):
            ts = t if isinstance(t, tuple) else (t,)
            return any(getattr(t_, 'path', '') == 'scipp.Variable' for t_ in ts)
        if isinstance(x, Sink):
            if isinstance(t, tuple):
                return True
            return getattr(t, 'path', '') in ('typing.TextIO', 'io.StringIO')
        return super()._isinstance(interp, x, t, node)

    def call_ext(self, interp, path, args, kwargs, node):
        if path == 'contextlib.nullcontext':
            return args[0] if args else None
        return super().call_ext(interp, path, args, kwargs, node)

    def sc_array(self, interp, args, kwargs, node):
        vals = kwargs.get('values')
        if isinstance(vals, list) and vals and all(isinstance(x, str) for x in vals) and kwargs.get('dims'):
            items = []
            for x in vals:
                it_ = self.new(interp, None, None, 'string', why='string element')
                it_.members['concrete'] = x
                it_.members['dims'] = []
                items.append(it_)
            return self.array(interp, items, list(kwargs['dims'])[0])
        return super().sc_array(interp, args, kwargs, node)


def written_items(repo, cit, build, via='CIF.save'):
    """The Chunk / Loop objects handed to their write() when the CIF builder returned by build(interp) is saved: the public
    classes' own write methods are replaced by recorders, so whatever helpers assemble the items are not consulted by name."""
    rec = []

    def recorder(interp, args, kwargs, bound):
        rec.append(bound)

    cit.stubs[repo.func(MOD, 'Loop.write').fq] = recorder
    cit.stubs[repo.func(MOD, 'Chunk.write').fq] = recorder
    try:
        def go(i):
            rec.clear()
            # (a builder sequence may save in between: what that save wrote is dropped, only the final save is looked at)
            i.saved_in_between = lambda c_: (i.call_function(repo.func(MOD, 'CIF.save'), [Sink()], {}, bound=c_), rec.clear())
            c = build(i)
            if via == 'save_cif':
                return i.call_function(repo.func(MOD, 'save_cif'), [Sink(), c], {})
            return i.call_function(repo.func(MOD, 'CIF.save'), [Sink()], {}, bound=c)
        outs = cit.run_all(go)
    finally:
        cit.stubs.pop(repo.func(MOD, 'Loop.write').fq, None)
        cit.stubs.pop(repo.func(MOD, 'Chunk.write').fq, None)
    return outs, rec


def item_table(item) -> dict:
    """name -> value of a Chunk (pairs) or Loop (columns), whatever the attribute that holds them is called."""
    out = {}
    if not isinstance(item, SObj):
        return out
    for v in item.attrs.values():
        if isinstance(v, dict) and v and all(isinstance(k, str) for k in v):
            out.update(v)
    return out


def recovered(orig: str, got: str) -> bool:
    """Strings are recovered up to surrounding blanks."""
    return got == orig or got.strip(' \t\n') == orig.strip(' \t\n')


def encode(s: str) -> str:
    return s.encode('ascii', 'backslashreplace').decode('ascii')


def run(tier: str) -> Run:
    run = Run('C14', tier, 'other',
              'Finite-domain evaluation of the writer in the abstract interpreter: the quoting and layout '
              'decisions (Chunk.write, Loop.write, _format_value, _quotes_for_string_value, _write_comment, '
              'the name setter) only test membership / emptiness / prefix of characters, so they are folded '
              'over every string up to a length bound from an alphabet holding one representative of every '
              'character class the CIF 1.1 lexical grammar distinguishes, plus the reserved words; each '
              'produced fragment is read by an independent CIF 1.1 lexer (spec/cif11.py) and must yield '
              'exactly the supplied tag, value(s) and loop shape.  Also decided: output is ASCII; comments '
              'never leak into data; _su columns come from stddevs and value columns from values; author '
              'ids are unique across both author categories and every role id is an author id.  Number '
              'formatting precision is Python\'s str(float) and not decided; tags are not part of the '
              'value quantifier.')
    repo = Repo()
    run.analysed = {'modules': [MOD], 'digest': repo.digest.hexdigest()}
    run.trusted = ['spec/cif11.py (CIF 1.1 lexical rules)', 'sa/interp.py concrete evaluation of str methods']
    T.reset()
    it = Interp(repo, ValueModel())
    chunk_cls, loop_cls = repo.cls(MOD, 'Chunk'), repo.cls(MOD, 'Loop')

    max_len = 3 if tier == 'quick' else 4
    strings = ['']
    for ln in range(1, max_len + 1):
        strings += [''.join(t) for t in itertools.product(ALPHABET, repeat=ln)]
    strings += WORDS
    strings = list(dict.fromkeys(strings))

    def write_chunk(pairs, comment=''):
        sink = Sink()

        def go(i):
            ch = i.construct(chunk_cls, [dict(pairs)], {'comment': comment}, None)
            return i.call_function(i.find_method(ch.cls, 'write'), [sink], {}, bound=ch)
        outs = it.run_all(go)
        if len(outs) == 1 and outs[0].kind == 'raise':
            return f'?REFUSED: Chunk.write raises {outs[0].exc_type} at {outs[0].where}\n'  # not CIF: every rule that reads this text reports it
        if len(outs) != 1 or outs[0].kind != 'return':
            raise AnalysisError(f'Chunk.write({pairs!r}) did not evaluate to a single path: {[(o.kind, o.exc_type, o.where) for o in outs]}')
        return sink.text()

    def write_chunk_from(make_pairs):
        sink = Sink()

        def go(i):
            ch = i.construct(chunk_cls, [make_pairs()], {}, None)
            return i.call_function(i.find_method(ch.cls, 'write'), [sink], {}, bound=ch)
        outs = it.run_all(go)
        if len(outs) != 1 or outs[0].kind != 'return':
            return f'?{[(o.kind, o.exc_type, o.where) for o in outs]}'
        return sink.text()

    def write_loop(cols, comment=''):
        sink = Sink()

        def go(i):
            lp = i.construct(loop_cls, [{k: Col(v) for k, v in cols.items()}], {'comment': comment}, None)
            return i.call_function(i.find_method(lp.cls, 'write'), [sink], {}, bound=lp)
        outs = it.run_all(go)
        if len(outs) == 1 and outs[0].kind == 'raise':
            return f'?REFUSED: Loop.write raises {outs[0].exc_type} at {outs[0].where}\n'
        if len(outs) != 1 or outs[0].kind != 'return':
            raise AnalysisError(f'Loop.write did not evaluate to a single path: {[(o.kind, o.exc_type, o.where) for o in outs]}')
        return sink.text()

    # ---- R1 chunk values ----------------------------------------------------------
    r1 = run.rule('R1', 'every string value written in a tag-value pair is read back as exactly that one value', 1000)
    cwhere = where_of(repo, MOD, '_quotes_for_string_value', '_format_value', 'Chunk.write')
    classes: dict[str, list] = {}
    n = 0
    for s in strings:
        n += 1
        try:
            text = write_chunk({'k': s, 'after': 'z'})
        except WriterRefuses as ex:
            classes.setdefault(cif11.features(s), []).append((s, '', str(ex)))
            continue
        want = [('pair', '_k', encode(s)), ('pair', '_after', 'z')]
        try:
            got = cif11.parse_pairs(text)
            ok = len(got) == 2 and got[0][:2] == ('pair', '_k') and recovered(encode(s), got[0][2]) and got[1] == want[1]
            why = None if ok else f'parsed as {got[:3]!r}'
        except cif11.CifSyntaxError as ex:
            ok, why = False, f'not valid CIF: {ex}'
        if not ok:
            classes.setdefault(cif11.features(s), []).append((s, text, why))
    run.extra['chunk_strings_enumerated'] = n
    for feat, bad in sorted(classes.items()):
        s, text, why = bad[0]
        r1.fail(f'pair value [{feat}] ({len(bad)} strings)', cwhere, {'example_value': s, 'written': text, 'problem': why,
                                                                        'more_examples': [b[0] for b in bad[1:6]]}, key=f'value:{feat}')
    for k in range(n - sum(len(b) for b in classes.values())):
        pass
    r1.instances.extend({'instance': f'pair value #{i}', 'verdict': 'holds'} for i in range(min(n - sum(len(b) for b in classes.values()), 5000)))
    r1.nontrivial.update(f'pair value #{i}' for i in range(min(n, 5000)))

    # ---- R1b loops ------------------------------------------------------------------
    r1b = run.rule('R1b', 'loop rows: every value is read back in its column (flat layout when a text field is present)', 400)
    singles = [s for s in strings if len(s) <= 1] + WORDS
    singles = list(dict.fromkeys(singles))
    lfi = repo.func(MOD, 'Loop.write')
    lclasses: dict[str, list] = {}
    nl = 0
    for s1, s2 in itertools.product(singles, repeat=2):
        nl += 1
        try:
            text = write_loop({'c1': [s1, 'p'], 'c2': [s2, 'q']}) + '_after z\n'
        except WriterRefuses as ex:
            lclasses.setdefault(cif11.features(s1) + ' | ' + cif11.features(s2), []).append(((s1, s2), '', str(ex)))
            continue
        try:
            got = cif11.parse_pairs(text)
            ok = len(got) == 2 and got[0][0] == 'loop' and got[0][1] == ['_c1', '_c2'] and len(got[0][2]) == 2 \
                and recovered(encode(s1), got[0][2][0][0]) and recovered(encode(s2), got[0][2][0][1]) and got[0][2][1] == ['p', 'q'] \
                and got[1] == ('pair', '_after', 'z')
            why = None if ok else f'parsed as {got[:2]!r}'
        except cif11.CifSyntaxError as ex:
            ok, why = False, f'not valid CIF: {ex}'
        if not ok:
            feat = cif11.features(s1) + ' | ' + cif11.features(s2)
            lclasses.setdefault(feat, []).append(((s1, s2), text, why))
    run.extra['loop_rows_enumerated'] = nl
    # report one finding per offending single-value class (pairs inherit the classes of their members)
    single_bad = {}
    for feat, bad in lclasses.items():
        for part in feat.split(' | '):
            if part != 'plain' and part in classes:
                break
        else:
            single_bad[feat] = bad
    for feat, bad in sorted(single_bad.items()):
        (s1, s2), text, why = bad[0]
        r1b.fail(f'loop row [{feat}] ({len(bad)} rows)', loc(lfi), {'example_row': [s1, s2], 'written': text, 'problem': why}, key=f'loop:{feat}')
    r1b.instances.extend({'instance': f'loop row #{i}', 'verdict': 'holds'} for i in range(min(nl - sum(len(b) for b in lclasses.values()), 3000)))
    r1b.nontrivial.update(f'loop row #{i}' for i in range(min(nl, 3000)))
    run.extra['loop_rows_failing_only_through_a_failing_value_class'] = sum(len(b) for f_, b in lclasses.items() if f_ not in single_bad)

    # ---- R2 ASCII / comments -------------------------------------------------------------
    r2 = run.rule('R2', 'output is ASCII; comment text never becomes data; block names are sanitised', 5)
    text = write_chunk({'k': 'é ü', 'k2': 'ö\nä'}, comment='cömment\nline 2')
    r2.check(text.isascii(), 'non-ASCII values and comments are escaped', where_of(repo, MOD, '_encode_non_ascii', 'save_cif'), {'written': text}, key='ascii')
    text = write_loop({'c1': ['é ü', 'p'], 'c2': ['q', 'Ångström']}) + write_chunk({'k': StrVar('naïve')})
    r2.check(text.isascii(), 'non-ASCII strings held in variables (loop columns, scalar variables) are escaped', where_of(repo, MOD, '_format_value', 'save_cif'),
             {'written': text}, key='ascii-variables')
    bad = []
    long_line = 'measured on the cold neutron time-of-flight spectrometer ' * 2 + '_tag value ; loop_ data_x'  # > 80 columns
    for c in ['x', '_tag value', 'a\n_tag value', 'a\r_tag v', 'loop_\n_a\n1', '; text\n;', 'data_x', 'a\x0b_t v', '\n_t v', long_line, 'short\n' + long_line]:
        text = write_chunk({'k': 'v'}, comment=c)
        try:
            got = cif11.parse_pairs(text)
        except cif11.CifSyntaxError as ex:
            got = str(ex)
        if got != [('pair', '_k', 'v')]:
            bad.append({'comment': c, 'written': text, 'parsed': repr(got)})
    r2.check(not bad, 'comments never leak into data', where_of(repo, MOD, '_write_comment', 'save_cif'), {'leaks': bad[:2]}, key='comments')
    text = write_loop({'c': ['1']}, comment='note\n_x y')
    try:
        got = cif11.parse_pairs(text)
    except cif11.CifSyntaxError as ex:
        got = str(ex)
    r2.check(got == [('loop', ['_c'], [['1']])], 'loop comments', loc(lfi), {'parsed': repr(got)}, key='loop-comments')
    block_cls = repo.cls(MOD, 'Block')
    outcomes = {}
    for nm in ['ok', 'two words', 'tab\there', 'nl\nx', 'é']:
        # the name the block reports through its public property
        outs = it.run_all(lambda i, nm=nm: i.call_function(repo.func(MOD, 'Block.name'), [], {}, bound=i.construct(block_cls, [nm], {}, None)))
        o = outs[0]
        outcomes[nm] = o.kind if o.kind == 'raise' else o.value
    r2.check(outcomes == {'ok': 'ok', 'two words': 'raise', 'tab\there': 'raise', 'nl\nx': 'raise', 'é': '\\xe9'}, 'block names', loc(repo.func(MOD, 'Block.name.setter')),
             {'outcomes': outcomes}, key='block-name')
    # the file starts with the CIF 1.1 magic line, whichever way the blocks are handed over
    sfi = repo.func(MOD, 'save_cif')
    T.reset()
    cm = CifModel()
    cit = WitnessInterp(repo, cm)
    for how in ('a single block', 'a tuple of blocks'):
        sink = Sink()

        def go(i, how=how, sink=sink):
            blk = i.construct(block_cls, ['ok'], {}, None)
            return i.call_function(sfi, [sink, blk if how == 'a single block' else (blk,)], {'comment': 'made by a test'})
        outs = cit.run_all(go)
        text = sink.text()
        ok = len(outs) == 1 and outs[0].kind == 'return' and text.startswith('#\\#CIF_1.1\n') and 'data_ok' in text
        r2.check(ok, f'file heading [{how}]', loc(sfi), {'file_starts_with': text[:40], 'outcomes': [(o.kind, o.exc_type, o.where) for o in outs]}, key='heading')

    # ---- R3 su columns ---------------------------------------------------------------------
    r3 = run.rule('R3', '_su columns are fed by stddevs, value columns by values', 2)
    cif_cls = repo.cls(MOD, 'CIF')
    pwhere = where_of(repo, MOD, '_make_reduced_powder_loop', 'CIF.with_reduced_powder_data')
    kwhere = where_of(repo, MOD, '_make_powder_calibration_loop', 'CIF.with_powder_calibration')

    def symbolic_data(i, m, dim, coord_unit, with_coord_var, with_data_var, coords_extra=None):
        ys = []
        for k in range(3):
            y = sym_scalar(i, m, f'y{k}', Unit(), 1 + k)
            if with_data_var:
                y.members['var'] = sym_scalar(i, m, f'vy{k}', Unit(), 2 + k, positive=True)
            ys.append(y)
        xs = []
        for k in range(3):
            x = sym_scalar(i, m, f'x{k}', Unit.named(coord_unit), 10 + k)
            if with_coord_var:
                x.members['var'] = sym_scalar(i, m, f'vx{k}', Unit.named(coord_unit) ** 2, 1 + k, positive=True)
            xs.append(x)
        da = m.array(i, ys, dim)
        da.kind = 'dataarray'
        da.members['coords'] = {dim: m.array(i, xs, dim), **(coords_extra(i, m) if coords_extra else {})}
        da.members['name'] = ''
        return da

    def column_terms(loop, name):
        col = item_table(loop).get(name)
        its = items_of(col) if isinstance(col, SVar) else None
        return [x.term for x in its] if its is not None else None

    for dim, cu, cname in (('tof', 'us', 'pd_meas.time_of_flight'), ('dspacing', 'angstrom', 'pd_proc.d_spacing')):
        for cv, dv in ((True, True), (False, True), (True, False), (False, False)):
            T.reset()
            cm = CifModel()
            cit = WitnessInterp(repo, cm)
            def build(i, dim=dim, cu=cu, cv=cv, dv=dv):
                c = i.construct(cif_cls, [], {'name': 'n'}, None)
                return i.call_function(repo.func(MOD, 'CIF.with_reduced_powder_data'), [symbolic_data(i, cm, dim, cu, cv, dv)], {'comment': 'a comment'}, bound=c)
            outs, items = written_items(repo, cit, build)
            inst = f'with_reduced_powder_data[{dim}, coordinate variances={cv}, data variances={dv}]'
            loops = [x for x in items if cname in item_table(x)]
            if len(outs) != 1 or outs[0].kind != 'return' or len(loops) != 1:
                r3.fail(inst, pwhere, {'outcomes': [(o.kind, o.exc_type, o.where) for o in outs], 'loops_with_the_coordinate_column': len(loops)}, key='powder-su')
                continue
            lp = loops[0]
            S_ = lambda n, pos=False: Rat.sym(n, positive=pos)  # noqa: E731
            want = {cname: [S_(f'x{k}') for k in range(3)], 'pd_proc.intensity_norm': [S_(f'y{k}') for k in range(3)]}
            if cv:
                want[cname + '_su'] = [T.sqrt(S_(f'vx{k}', True)) for k in range(3)]
            if dv:
                want['pd_proc.intensity_norm_su'] = [T.sqrt(S_(f'vy{k}', True)) for k in range(3)]
            cols = item_table(lp)
            probs = []
            for name, terms in want.items():
                got = column_terms(lp, name)
                if got is None or len(got) != 3 or not all(isinstance(g, Rat) and g.eq(w_) for g, w_ in zip(got, terms, strict=False)):
                    probs.append(f'column {name}: {[T.show(g) if g is not None else None for g in got] if got else got}, expected {[T.show(t_) for t_ in terms]}')
            extra = [k for k in cols if k.endswith('_su') and k not in want]
            if extra:
                probs.append(f'uncertainty columns without variances: {extra}')
            r3.check(not probs, inst, pwhere, {'problems': probs[:3], 'columns': list(cols)}, key='powder-su')
    for dv in (True, False):
        T.reset()
        cm = CifModel()
        cit = WitnessInterp(repo, cm)

        def powers(i, m):
            items = []
            for k, pw in enumerate((0, 1, 2)):
                it_ = m.new(i, Rat.const(pw), Unit(), 'int64')
                it_.members['concrete'] = pw
                it_.members['dims'] = []
                items.append(it_)
            return {'power': m.array(i, items, 'cal')}
        def build(i, dv=dv):
            c = i.construct(cif_cls, [], {'name': 'n'}, None)
            return i.call_function(repo.func(MOD, 'CIF.with_powder_calibration'), [symbolic_data(i, cm, 'cal', 'us', False, dv, powers)], {'comment': 'c'}, bound=c)
        outs, items = written_items(repo, cit, build)
        inst = f'with_powder_calibration[data variances={dv}]'
        loops = [x for x in items if 'pd_calib_d_to_tof.coeff' in item_table(x)]
        if len(outs) != 1 or outs[0].kind != 'return' or len(loops) != 1:
            r3.fail(inst, kwhere, {'outcomes': [(o.kind, o.exc_type, o.where) for o in outs], 'calibration_loops': len(loops)}, key='calib-su')
            continue
        lp = loops[0]
        cols = item_table(lp)
        got_v, got_su = column_terms(lp, 'pd_calib_d_to_tof.coeff'), column_terms(lp, 'pd_calib_d_to_tof.coeff_su')
        ok = got_v is not None and all(isinstance(g, Rat) and g.eq(Rat.sym(f'y{k}')) for k, g in enumerate(got_v))
        if dv:
            ok = ok and got_su is not None and all(isinstance(g, Rat) and g.eq(T.sqrt(Rat.sym(f'vy{k}', positive=True))) for k, g in enumerate(got_su))
        else:
            ok = ok and 'pd_calib_d_to_tof.coeff_su' not in cols
        ids = cols.get('pd_calib_d_to_tof.id')
        ids_v = [x.members.get('concrete') for x in (items_of(ids) or [])] if isinstance(ids, SVar) else getattr(ids, 'members', {}).get('py_values')
        r3.check(ok and ids_v == ['ZERO', 'DIFC', 'DIFA'], inst, kwhere, {'columns': list(cols), 'ids': ids_v}, key='calib-su')

    # ---- R6 sequences of builder calls: what an earlier call added is still written after later calls, by either way of saving ------------
    r6 = run.rule('R6', 'a builder keeps what earlier calls added: reduced data, calibration and authors added one after the other are all written, '
                        'through CIF.save and through save_cif', 2)
    for via in ('CIF.save', 'save_cif'):
        T.reset()
        cm = CifModel()
        cit = WitnessInterp(repo, cm)

        def powers6(i, m):
            items = []
            for pw in (0, 1, 2):
                it_ = m.new(i, Rat.const(pw), Unit(), 'int64')
                it_.members['concrete'] = pw
                it_.members['dims'] = []
                items.append(it_)
            return {'power': m.array(i, items, 'cal')}

        def build6(i, cm=cm):
            c = i.construct(cif_cls, [], {'name': 'n'}, None)
            c = i.call_function(repo.func(MOD, 'CIF.with_reduced_powder_data'), [symbolic_data(i, cm, 'tof', 'us', True, True)], {}, bound=c)
            cal = symbolic_data(i, cm, 'cal', 'us', False, False, powers6)
            c = i.call_function(repo.func(MOD, 'CIF.with_powder_calibration'), [cal], {}, bound=c)
            c = i.call_function(repo.func(MOD, 'CIF.with_reducers'), ['reduction software 1.0'], {}, bound=c)
            return i.call_function(repo.func(MOD, 'CIF.with_authors'), [Person('A', 'lead', True), Person('B', 'dev')], {}, bound=c)
        outs, items = written_items(repo, cit, build6, via=via)
        tables = [item_table(x) for x in items]
        have = {'reduced data': any('pd_meas.time_of_flight' in t_ for t_ in tables), 'calibration': any('pd_calib_d_to_tof.coeff' in t_ for t_ in tables),
                'contact author': any('audit_contact_author.name' in t_ for t_ in tables), 'author': any('audit_author.name' in t_ for t_ in tables),
                'reducer': any(t_.get('computing.diffrn_reduction') == 'reduction software 1.0' for t_ in tables)}
        ok = len(outs) == 1 and outs[0].kind == 'return' and all(have.values())
        r6.check(ok, f'reduced data, then calibration, then a reducer, then authors, saved through {via}', where_of(repo, MOD, 'CIF.copy', 'CIF.save'),
                 {'written': have, 'outcomes': [(o.kind, o.exc_type, o.where) for o in outs], 'items_written': len(items)}, key=f'sequence:{via}')

    # ---- R7: the documented ways of handing over tag-value pairs ---------------------------------------------------------
    r7 = run.rule('R7', 'tag-value pairs given as a mapping, as a list of pairs and as a one-shot iterator of pairs (zip, generator) are written alike', 3)
    from sa.interp import GenResult
    plist = [('k', 'v'), ('second', 'w'), ('third', 'x y')]
    as_mapping = write_chunk_from(lambda: dict(plist))
    for label, mk in (('list of pairs', lambda: list(plist)), ('zip of tags and values', lambda: GenResult(list(plist))),
                      ('tuple of pairs', lambda: tuple(plist))):
        got7 = write_chunk_from(mk)
        r7.check(got7 == as_mapping and 'second' in as_mapping, label, loc(repo.func(MOD, 'Chunk.write')), {'from_a_mapping': as_mapping[:120], 'written': got7[:120]}, key=f'pairs:{label}')

    # the same with saves in between: what a builder (or the builder it was derived from) wrote earlier does not change what is written now
    for label, steps in (('authors added after the builder was saved', ('A', 'save', 'B')),
                         ('authors added to a builder saved before it had any', ('save', 'A', 'B')),
                         ('the same builder saved twice', ('A', 'B', 'save')),
                         ('a reducer added after the builder was saved', ('A', 'B', 'save', 'reducer'))):
        T.reset()
        cm = CifModel()
        cit = WitnessInterp(repo, cm)

        def build6h(i, steps=steps):
            c = i.construct(cif_cls, [], {'name': 'n'}, None)
            for st_ in steps:
                if st_ == 'save':
                    i.saved_in_between(c)
                elif st_ == 'reducer':
                    c = i.call_function(repo.func(MOD, 'CIF.with_reducers'), ['reduction software 1.0'], {}, bound=c)
                else:
                    c = i.call_function(repo.func(MOD, 'CIF.with_authors'), [Person(st_, 'lead' if st_ == 'A' else 'dev', st_ == 'A')], {}, bound=c)
            return c
        outs, items = written_items(repo, cit, build6h)
        tables = [item_table(x) for x in items]
        names = []
        for t_ in tables:
            for k_ in ('audit_contact_author.name', 'audit_author.name'):
                v_ = t_.get(k_)
                if v_ is not None:
                    names.extend(list(v_) if isinstance(v_, list | tuple) else ([x for x in (cm.text_items(v_) if hasattr(cm, 'text_items') else [v_])]))
        flat = ' '.join(str(x) for x in names)
        have = {'author A': 'A' in flat, 'author B': 'B' in flat}
        if 'reducer' in steps:
            have['reducer'] = any(t_.get('computing.diffrn_reduction') == 'reduction software 1.0' for t_ in tables)
        ok = len(outs) == 1 and outs[0].kind == 'return' and all(have.values())
        r6.check(ok, label, where_of(repo, MOD, 'CIF.copy', 'CIF.save'), {'written': have, 'steps': list(steps), 'author_cells': flat[:120],
                                                                          'outcomes': [(o.kind, o.exc_type, o.where) for o in outs]}, key=f'history:{label}')

    # ---- R5 numbers with a standard uncertainty ------------------------------------------------------------
    r5 = run.rule('R5', 'a number supplied with a variance is written in the compact value(su) notation on every path, one supplied without is written '
                        'as the number alone (whatever its magnitude: the numbers are abstract)', 2)
    for has_var in (True, False):
        T.reset()
        nm = ValueModel()
        nit = Interp(repo, nm)
        texts = []

        def go_num(i, has_var=has_var, texts=texts):
            sink = Sink()
            ch = i.construct(chunk_cls, [{'k': NumVar(i, nm, has_var), 'after': 'z'}], {}, None)
            try:
                return i.call_function(i.find_method(ch.cls, 'write'), [sink], {}, bound=ch)
            finally:
                texts.append(sink.text())
        outs = nit.run_all(go_num)
        want = COMPACT_TEXT if has_var else NUMBER_TEXT
        probs = []
        for o, text in zip(outs, texts, strict=False):
            if o.kind != 'return':
                probs.append({'outcome': (o.kind, o.exc_type, o.where)})
                continue
            try:
                got = cif11.parse_pairs(text)
            except cif11.CifSyntaxError as ex:
                probs.append({'written': text, 'problem': f'not valid CIF: {ex}'})
                continue
            if not (len(got) == 2 and got[0] == ('pair', '_k', want)):
                probs.append({'written': text, 'expected_value': want, 'decisions_on_this_path': [w_ for _, _, w_ in o.conditions][-3:]})
        r5.check(bool(outs) and not probs, f'0-d number {"with" if has_var else "without"} a variance in a tag-value pair', where_of(repo, MOD, '_format_value', 'Chunk.write'),
                 {'paths': len(outs), 'problems': probs[:2]}, key=f'number:{has_var}')

    # ---- R4 author ids ----------------------------------------------------------------------
    r4 = run.rule('R4', 'author ids are unique across both author categories; every role id is an author id', 3)
    awhere = where_of(repo, MOD, 'CIF._assemble_authors', 'CIF.save')
    cases = {
        'contact+regular, all with roles': [Person('A', 'lead', True), Person('B', 'dev'), Person('C', 'pi')],
        'two contacts, one regular without role': [Person('A', 'lead', True), Person('B', None, True), Person('C', 'x'), Person('D')],
        'single contact and single regular': [Person('A', 'lead', True), Person('B', 'dev')],
    }
    for label, people in cases.items():
        def build(i, people=people):
            c = i.construct(cif_cls, [], {'name': 'n'}, None)
            return i.call_function(repo.func(MOD, 'CIF.with_authors'), list(people), {}, bound=c)
        T.reset()
        acm = CifModel()
        ait = WitnessInterp(repo, acm)
        outs, items = written_items(repo, ait, build)
        outs = [o for o in outs if o.kind == 'return']
        ok = len(outs) >= 1
        detail = {'outcomes': [(o.kind, o.exc_type, o.where) for o in outs]}
        if ok:
            ids, role_ids = [], []
            for item in items:
                for key, val in item_table(item).items():
                    if isinstance(val, SVar):
                        vals = [x.members.get('concrete') for x in (items_of(val) or [])] or val.members.get('py_values', [val])
                    else:
                        vals = val if isinstance(val, list | tuple) else [val]
                    if key.endswith('author.id'):
                        ids += list(vals)
                    if key == 'audit_author_role.id':
                        role_ids += list(vals)
            n_roles = sum(1 for p in people if p.role)
            ok = ok and len(ids) == len(set(ids)) == len(people) and len(role_ids) == n_roles and set(role_ids) <= set(ids)
            detail = {'author_ids': ids, 'role_ids': role_ids, 'authors': len(people), 'with_role': n_roles}
        r4.check(ok, label, awhere, detail, key='author-ids')
    return run
