"""C16 — peak and background models satisfy their analytic definitions."""

from __future__ import annotations

from fractions import Fraction as F

from sa import term as T
from sa.interp import Interp, SObj, SVar
from sa.kernel import P, make_param
from sa.load import AnalysisError, Repo, loc, where_of
from sa.report import Run
from sa.scipp_model import Model
from sa.term import Rat
from sa.units import Unit

from .common import eq_term, events, show

MOD = 'peaks.model'
UX = Unit.param('x')
UY = Unit.param('amplitude')


def S(n, pos=True):
    return Rat.sym(n, positive=pos)


def pi():
    return Rat.sym('pi', positive=True)


def ln2():
    return T.FN_CTORS['log'](Rat.const(2))


def gauss(x, A, mu, s):
    return A / (T.sqrt(2 * pi()) * s) * T.fn_exp(-((x - mu) ** 2) / (2 * s**2))


def lorentz(x, A, mu, s):
    return A * s / pi() / ((x - mu) ** 2 + s**2)


def unclamp(t: Rat) -> Rat:
    """The kernels clamp scale to >= 1e-15 (in its own unit); the property quantifies
    over scales 1e-6..1e6, where max(scale, 1e-15) == scale."""
    mapping = {}
    for i in t.atoms():
        a = T.A(i)
        if a.kind == 'fn' and a.name == 'pymax' and len(a.args) == 2 and a.args[1].as_const() == F('1e-15'):
            mapping[i] = a.args[0]
    return t.subst(mapping) if mapping else t


def build(repo, it, cls_name, **kw):
    return it.construct(repo.cls(MOD, cls_name), [], dict(kw), None)


def params_for(it, names, prefix):
    out = {}
    for n in names:
        if n == 'amplitude':
            out[prefix + n] = make_param(it, 'amplitude', P(dim='COUNT', positive=False))
        elif n == 'loc':
            out[prefix + n] = make_param(it, 'loc', P(dim='L', positive=False, unit=UX))
        elif n == 'scale':
            out[prefix + n] = make_param(it, 'scale', P(dim='L', unit=UX))
        elif n == 'fraction':
            out[prefix + n] = make_param(it, 'fraction', P(dim='ONE', unit=Unit()))
    return out


def call_model(repo, it, model, params, method='__call__', x=True, x_dtype=None):
    m = it.find_method(model.cls, method)
    if method == '__call__':
        xv = make_param(it, 'x', P(dim='L', positive=False), dtype=x_dtype)
        return it.call_function(m, [xv], dict(params), bound=model)
    return it.call_function(m, [dict(params)], {}, bound=model)


def run(tier: str) -> Run:
    run = Run('C16', tier, 'other',
              'The model classes are instantiated and evaluated in the abstract interpreter (object model, '
              'concrete prefixes, symbolic parameters).  Decided: the evaluated normal forms equal the '
              'closed forms (Gaussian, Lorentzian, pseudo-Voigt with sigma_G = sigma/sqrt(2 ln 2), '
              'polynomial sum a_i x^i for degrees 1..6, composite = sum of parts); each peak is symmetric '
              'about loc and takes half its peak value at loc +/- fwhm/2 with the FWHM the model itself '
              'reports; results do not depend on the prefix; units are u(amplitude)/u(x) resp. u(a0); '
              'missing, unknown and un-prefixed parameter names are refused; with_prefix acts on a copy.  '
              'Normalisation (integral = amplitude) is a property of the closed forms and is cited.  '
              '`guess` is not decided.')
    repo = Repo()
    run.analysed = {'modules': [MOD], 'digest': repo.digest.hexdigest()}
    run.trusted = ['sa/interp.py object model', 'sa/term.py', 'closed forms in checks/c16.py']
    run.assumptions = ['scale >= 1e-15 in its own unit (the kernels clamp below that)']

    PEAKS = {
        'GaussianModel': (('amplitude', 'loc', 'scale'), lambda x, A, mu, s, f: gauss(x, A, mu, s),
                          lambda s: 2 * T.sqrt(2 * ln2()) * s),
        'LorentzianModel': (('amplitude', 'loc', 'scale'), lambda x, A, mu, s, f: lorentz(x, A, mu, s), lambda s: 2 * s),
        'PseudoVoigtModel': (('amplitude', 'loc', 'scale', 'fraction'),
                             lambda x, A, mu, s, f: f * lorentz(x, A, mu, s) + (1 - f) * gauss(x, A, mu, s / T.sqrt(2 * ln2())),
                             lambda s: 2 * s),
    }
    r1 = run.rule('R1', 'evaluated normal form equals the closed form, for prefix "" and a non-empty prefix', 6)
    r2 = run.rule('R2', 'symmetric about loc; half of the peak value at loc +/- fwhm/2 with the reported FWHM', 6)
    r3 = run.rule('R3', 'result unit is u(amplitude)/u(x); prefix does not change the result', 3)
    r4 = run.rule('R4', 'missing, unknown, un-prefixed and foreign-prefixed parameter names are refused', 15)
    for cname, (names, closed, fwhm_closed) in PEAKS.items():
        fwhere = where_of(repo, MOD, f'{cname}._call', f'{cname}.__call__', 'Model.__call__')
        terms = {}
        for prefix in ('', 'pk_'):
            T.reset()
            it = Interp(repo, Model())
            outs = it.run_all(lambda i, c=cname, p=prefix: call_model(repo, i, build(repo, i, c, prefix=p), params_for(i, names, p)))
            rets = [o for o in outs if o.kind == 'return']
            if len(rets) != 1 or not isinstance(rets[0].value, SVar) or rets[0].value.term is None:
                raise AnalysisError(f'{cname}(prefix={prefix!r}): evaluation did not produce one known value: '
                                    f'{[(o.kind, o.exc_type, o.where) for o in outs]} {getattr(rets[0].value, "why", "") if rets else ""}')
            v = rets[0].value
            got = unclamp(v.term)
            want = closed(S('x', False), S('amplitude', False), S('loc', False), S('scale'), S('fraction'))
            terms[prefix] = T.show(got)
            r1.check(eq_term(got, want), f'{cname}[prefix={prefix!r}]', fwhere, {'computed': T.show(got), 'closed_form': T.show(want)},
                     key=f'{cname}:form')
            if prefix == '':
                # symmetry and half maximum, with the FWHM reported by the model itself
                fo = it.run_all(lambda i, c=cname: call_model(repo, i, build(repo, i, c, prefix=''), params_for(i, names, ''), method='fwhm'))
                fr = [o for o in fo if o.kind == 'return']
                if len(fr) != 1 or fr[0].value.term is None:
                    raise AnalysisError(f'{cname}.fwhm could not be evaluated')
                # re-evaluate in one atom table
                T.reset()
                it2 = Interp(repo, Model())
                both = it2.run_all(lambda i, c=cname: (
                    call_model(repo, i, build(repo, i, c, prefix=''), params_for(i, names, '')),
                    call_model(repo, i, build(repo, i, c, prefix=''), params_for(i, names, ''), method='fwhm')))
                val, fw = both[0].value
                f_t, w_t = unclamp(val.term), fw.term
                xa = T.atom('sym', 'x')
                mu, d = S('loc', False), S('delta', False)
                sym = eq_term(f_t.subst({xa.id: mu + d}), f_t.subst({xa.id: mu - d}))
                peak = f_t.subst({xa.id: mu})
                half_p = f_t.subst({xa.id: mu + w_t / 2})
                half_m = f_t.subst({xa.id: mu - w_t / 2})
                r2.check(sym, f'{cname}: symmetric', fwhere, {}, key=f'{cname}:symmetric')
                r2.check(eq_term(half_p * 2, peak) and eq_term(half_m * 2, peak) and eq_term(w_t, fwhm_closed(S('scale'))),
                         f'{cname}: half maximum at loc +/- fwhm/2', loc(repo.func(MOD, f'{cname}.fwhm')),
                         {'fwhm_reported': T.show(w_t), 'fwhm_closed_form': T.show(fwhm_closed(S('scale'))),
                          'value_at_half_width': T.show(half_p), 'peak_value': T.show(peak)}, key=f'{cname}:fwhm')
                r3.check(v.unit == UY / UX, f'{cname}: unit', fwhere, {'unit': repr(v.unit), 'expected': 'u(amplitude)/u(x)'}, key=f'{cname}:unit')
        if terms.get('') != terms.get('pk_'):
            r3.fail(f'{cname}: prefix independence', fwhere, terms, key=f'{cname}:prefix')
        # the FWHM of a prefixed model, asked with the full parameter dict of a fit (which also holds the parameters of the
        # other models, among them an un-prefixed 'scale'), is the one of its own scale
        T.reset()
        itf = Interp(repo, Model())

        def fw_go(i, c=cname):
            own = params_for(i, names, 'pk_')
            foreign = {'scale': make_param(i, 'other_scale', P(dim='L', unit=UX)), 'loc': make_param(i, 'other_loc', P(dim='L', positive=False, unit=UX)),
                       'amplitude': make_param(i, 'other_amplitude', P(dim='COUNT', positive=False))}
            return call_model(repo, i, build(repo, i, c, prefix='pk_'), {**foreign, **own}, method='fwhm')
        fo = [o for o in itf.run_all(fw_go) if o.kind == 'return']
        okf = len(fo) == 1 and isinstance(fo[0].value, SVar) and isinstance(fo[0].value.term, Rat) and eq_term(fo[0].value.term, fwhm_closed(S('scale')))
        r3.check(okf, f'{cname}: fwhm reads its own (prefixed) scale', loc(repo.func(MOD, f'{cname}.fwhm')),
                 {'fwhm_reported': T.show(fo[0].value.term) if fo and getattr(fo[0].value, 'term', None) is not None else None,
                  'expected': T.show(fwhm_closed(S('scale')))}, key=f'{cname}:fwhm-prefix')
        # R4 refusals
        for label, mut in (('missing', lambda p, pre: {k: v for k, v in list(p.items())[1:]}),
                           ('unknown', lambda p, pre: {**p, pre + 'bogus': next(iter(p.values()))}),
                           ('unknown without the prefix', lambda p, pre: {**p, 'bogus': next(iter(p.values()))}),
                           ('additional parameter of another model', lambda p, pre: {**p, 'bkg_a0': next(iter(p.values()))}),
                           ('un-prefixed', lambda p, pre: {k[len(pre):]: v for k, v in p.items()}),
                           ('foreign prefix of the same length', lambda p, pre: {'qk_' + k[len(pre):]: v for k, v in p.items()}),
                           ('foreign prefix on one name', lambda p, pre: {('zz_' + k[len(pre):] if n == 0 else k): v for n, (k, v) in enumerate(p.items())})):
            T.reset()
            it = Interp(repo, Model())
            outs = it.run_all(lambda i, c=cname, m=mut: call_model(repo, i, build(repo, i, c, prefix='pk_'), m(params_for(i, names, 'pk_'), 'pk_')))
            ok = len(outs) == 1 and outs[0].kind == 'raise' and outs[0].exc_type == 'ValueError'
            r4.check(ok, f'{cname}: {label} parameter', loc(repo.func(MOD, 'Model.__call__')),
                     {'outcome': [(o.kind, o.exc_type) for o in outs]}, key=f'{cname}:refuse-{label}')

    # ---- polynomial -------------------------------------------------------------
    # the refusal does not depend on what other models of the same class and prefix were evaluated with before
    for label, first_kw, second_kw, names in (
            ('a polynomial of degree 1 after one of degree 2 with the same prefix', {'degree': 2}, {'degree': 1}, ['bkg_a0', 'bkg_a1', 'bkg_a2']),
            ('a polynomial of degree 3 after one of degree 2 with the same prefix', {'degree': 2}, {'degree': 3}, ['bkg_a0', 'bkg_a1', 'bkg_a2'])):
        T.reset()
        it = Interp(repo, Model())

        def go_h(i, first_kw=first_kw, second_kw=second_kw, names=names):
            ps = lambda: {n_: make_param(i, n_[4:], P(dim='ONE', positive=False, unit=Unit.param('y') / (UX ** int(n_[-1])))) for n_ in names}  # noqa: E731
            call_model(repo, i, build(repo, i, 'PolynomialModel', prefix='bkg_', **first_kw), ps())
            i.end_of_call()
            return call_model(repo, i, build(repo, i, 'PolynomialModel', prefix='bkg_', **second_kw), ps())
        outs_h = it.run_all(go_h)
        ok = bool(outs_h) and all(o.kind == 'raise' and o.exc_type in ('ValueError', 'KeyError', 'TypeError') for o in outs_h)
        r4.check(ok, f'history: {label}, called with {names}', loc(repo.func(MOD, 'Model.__call__')),
                 {'outcomes': [(o.kind, o.exc_type, o.where) for o in outs_h], 'documented': 'refused: the names are not the parameters of this model'}, key='history:polynomial')

    r5 = run.rule('R5', 'polynomial equals sum a_i x^i (Horner loop), unit u(a0); float64 result for float32 / integer x', 4)
    degrees = (1, 2, 3) if tier == 'quick' else (1, 2, 3, 4, 5, 6)
    pwhere = where_of(repo, MOD, 'PolynomialModel._call', 'PolynomialModel.__call__', 'Model.__call__')
    for deg in degrees:
        T.reset()
        it = Interp(repo, Model())

        def go(i, deg=deg):
            m = build(repo, i, 'PolynomialModel', degree=deg, prefix='bkg_')
            ps = {}
            for k in range(deg + 1):
                ps[f'bkg_a{k}'] = make_param(i, f'a{k}', P(dim='ONE', positive=False, unit=Unit.param('y') / (UX ** k)))
            return call_model(repo, i, m, ps)
        all_outs = it.run_all(go)
        outs = [o for o in all_outs if o.kind == 'return']
        if not outs and all_outs and all(o.kind == 'raise' for o in all_outs):
            r5.fail(f'degree {deg}', pwhere, {'outcomes': [(o.kind, o.exc_type, o.where) for o in all_outs][:3], 'documented': 'a polynomial of degree 1..6 evaluates'}, key='polynomial')
            continue
        if len(outs) != 1 or outs[0].value.term is None:
            raise AnalysisError(f'PolynomialModel(degree={deg}) could not be evaluated: {getattr(outs[0].value, "why", "") if outs else ""}')
        v = outs[0].value
        want = Rat.const(0)
        for k in range(deg + 1):
            want = want + S(f'a{k}', False) * S('x', False) ** k
        bad_units = [e.detail for e in events(outs[0], 'unit-mismatch')]
        r5.check(eq_term(v.term, want) and v.unit == Unit.param('y') and not bad_units, f'degree {deg}', pwhere,
                 {'computed': T.show(v.term), 'unit': repr(v.unit), 'unit_problems': bad_units[:2]}, key='polynomial')
    # the independent variable may be single precision or integer valued (e.g. sc.arange): same polynomial, float result
    for xdt in ('float32', 'int64'):
        T.reset()
        it = Interp(repo, Model())

        def go_dt(i, xdt=xdt):
            m = build(repo, i, 'PolynomialModel', degree=2, prefix='bkg_')
            ps = {f'bkg_a{k}': make_param(i, f'a{k}', P(dim='ONE', positive=False, unit=Unit.param('y') / (UX ** k))) for k in range(3)}
            return call_model(repo, i, m, ps, x_dtype=xdt)
        outs_dt = it.run_all(go_dt)
        want = S('a0', False) + S('a1', False) * S('x', False) + S('a2', False) * S('x', False) ** 2
        ok = len(outs_dt) == 1 and outs_dt[0].kind == 'return' and isinstance(outs_dt[0].value, SVar) and outs_dt[0].value.term is not None \
            and eq_term(outs_dt[0].value.term, want) and outs_dt[0].value.dtype == 'float64'
        lossy = [dict(e.detail, where=e.where) for o in outs_dt for e in events(o, 'narrowing-cast', 'int-unit-conversion')]
        r5.check(ok and not lossy, f'degree 2, x of dtype {xdt}', pwhere,
                 {'outcomes': [(o.kind, o.exc_type, o.where) for o in outs_dt], 'dtype': getattr(outs_dt[0].value, 'dtype', None) if outs_dt and outs_dt[0].kind == 'return' else None,
                  'lossy': lossy[:2]}, key='polynomial-dtype')

    # ---- composite -----------------------------------------------------------------
    r6 = run.rule('R6', 'composite equals the sum of its parts; with_prefix acts on a copy', 2)
    cwhere = where_of(repo, MOD, 'CompositeModel._call', 'CompositeModel.__call__', 'Model.__call__')
    T.reset()
    it = Interp(repo, Model())

    def comp(i):
        bkg = build(repo, i, 'PolynomialModel', degree=1, prefix='bkg_')
        pk = build(repo, i, 'GaussianModel', prefix='peak_')
        add = i.find_method(bkg.cls, '__add__')
        model = i.call_function(add, [pk], {}, bound=bkg)
        ps = params_for(i, ('amplitude', 'loc', 'scale'), 'peak_')
        ps['bkg_a0'] = make_param(i, 'a0', P(dim='ONE', positive=False, unit=UY / UX))
        ps['bkg_a1'] = make_param(i, 'a1', P(dim='ONE', positive=False, unit=UY / UX / UX))
        return call_model(repo, i, model, ps)
    outs = [o for o in it.run_all(comp) if o.kind == 'return']
    ok = len(outs) == 1 and outs[0].value.term is not None
    detail = {}
    if ok:
        got = unclamp(outs[0].value.term)
        want = S('a0', False) + S('a1', False) * S('x', False) + gauss(S('x', False), S('amplitude', False), S('loc', False), S('scale'))
        ok = eq_term(got, want)
        detail = {'computed': T.show(got)[:300]}
    r6.check(ok, 'polynomial + gaussian', cwhere, detail, key='composite')
    # parts of different precision, both orders: the sum has the promoted dtype of the parts and is never refused
    for order, left_dtype in (('polynomial + gaussian', 'int64'), ('polynomial + gaussian', 'float32'), ('gaussian + polynomial', 'float32')):
        T.reset()
        it = Interp(repo, Model())

        def comp2(i, order=order, left_dtype=left_dtype):
            bkg = build(repo, i, 'PolynomialModel', degree=1, prefix='bkg_')
            pk = build(repo, i, 'GaussianModel', prefix='peak_')
            first, second = (bkg, pk) if order.startswith('poly') else (pk, bkg)
            model = i.call_function(i.find_method(first.cls, '__add__'), [second], {}, bound=first)
            peak_dt = left_dtype if not order.startswith('poly') else 'float64'
            poly_dt = left_dtype if order.startswith('poly') else 'float64'
            ps = {'peak_amplitude': make_param(i, 'amplitude', P(dim='COUNT', positive=False), dtype=peak_dt),
                  'peak_loc': make_param(i, 'loc', P(dim='L', positive=False, unit=UX), dtype=peak_dt),
                  'peak_scale': make_param(i, 'scale', P(dim='L', unit=UX), dtype=peak_dt),
                  'bkg_a0': make_param(i, 'a0', P(dim='ONE', positive=False, unit=UY / UX), dtype=poly_dt),
                  'bkg_a1': make_param(i, 'a1', P(dim='ONE', positive=False, unit=UY / UX / UX), dtype=poly_dt)}
            return call_model(repo, i, model, ps, x_dtype=left_dtype)
        outs2 = it.run_all(comp2)
        rets2 = [o for o in outs2 if o.kind == 'return']
        ok2 = len(outs2) == 1 and len(rets2) == 1 and isinstance(rets2[0].value, SVar) and rets2[0].value.dtype == 'float64'
        r6.check(ok2, f'{order} with a {left_dtype} left part and x: float64 sum, not refused', cwhere,
                 {'outcomes': [(o.kind, o.exc_type, getattr(o.value, 'dtype', None) if o.kind == 'return' else o.where) for o in outs2]},
                 key=f'composite-dtype:{order}:{left_dtype}')
    T.reset()
    it = Interp(repo, Model())

    names3 = ('amplitude', 'loc', 'scale')
    for used_first in (False, True):
        T.reset()
        it = Interp(repo, Model())

        def wp(i, used_first=used_first):
            g = build(repo, i, 'GaussianModel', prefix='a_')
            if used_first:
                # the model is asked for its parameter names and evaluated before it is renamed (what a composite or an earlier fit does)
                i.getattr(g, 'param_names', None)
                call_model(repo, i, g, params_for(i, names3, 'a_'))
            w = i.call_function(i.find_method(g.cls, 'with_prefix'), ['b_'], {}, bound=g)
            # what the two models report through their public attributes after the renamed copy was made, and what they evaluate to
            rep = [(i.getattr(m, 'prefix', None), i.getattr(m, 'param_names', None)) for m in (g, w)]
            vals = [call_model(repo, i, m, params_for(i, names3, pre)) for m, pre in ((g, 'a_'), (w, 'b_'))]
            return g, w, rep, vals
        outs = it.run_all(wp)
        ok = len(outs) == 1 and outs[0].kind == 'return'
        detail = {'outcomes': [(o.kind, o.exc_type, o.where) for o in outs]}
        if ok:
            g, w, rep, vals = outs[0].value
            as_set = lambda x: set(x) if isinstance(x, set | frozenset | list | tuple) else x  # noqa: E731
            detail = {'original': (rep[0][0], sorted(as_set(rep[0][1])) if isinstance(as_set(rep[0][1]), set) else repr(rep[0][1])),
                      'renamed': (rep[1][0], sorted(as_set(rep[1][1])) if isinstance(as_set(rep[1][1]), set) else repr(rep[1][1]))}
            same_value = all(isinstance(v, SVar) and isinstance(v.term, Rat) for v in vals) and eq_term(vals[0].term, vals[1].term)
            ok = g is not w and (rep[0][0], as_set(rep[0][1])) == ('a_', {'a_amplitude', 'a_loc', 'a_scale'}) \
                and (rep[1][0], as_set(rep[1][1])) == ('b_', {'b_amplitude', 'b_loc', 'b_scale'}) and same_value
            detail['same_value_under_either_prefix'] = same_value
        r6.check(ok, 'with_prefix' + (' of a model that was used before' if used_first else ''), loc(repo.func(MOD, 'Model.with_prefix')), detail,
                 key='with_prefix' + ('-after-use' if used_first else ''))
    return run
