"""C10 — disk-chopper open/close times are exactly the openings of the rotating disk."""

from __future__ import annotations

import itertools
from fractions import Fraction as F

from sa import term as T
from sa.interp import SObj, SVar
from sa.kernel import P, make_param, run_kernel
from sa.load import AnalysisError, Repo, loc, where_of
from sa.report import Run
from sa.term import Rat
from sa.units import Unit
from sa.witness import WitnessInterp, WitnessModel, items_of, sym_scalar

from .common import eq_term, events, returns, show

MOD = 'chopper.disk_chopper'




def S(n, pos=False):
    return Rat.sym(n, positive=pos)


def chopper(repo, dtypes=None):
    cls = repo.cls(MOD, 'DiskChopper')
    dtypes = dtypes or {}

    def bound(it):
        mk = lambda n, dim: make_param(it, n, P(dim=dim, positive=False), dtype=dtypes.get(n))  # noqa: E731
        return SObj(cls, {
            'frequency': mk('frequency', 'FREQ'), 'beam_position': mk('beam_position', 'ANGLE'), 'phase': mk('phase', 'ANGLE'),
            'slit_begin': mk('slit_begin', 'ANGLE'), 'slit_end': mk('slit_end', 'ANGLE'),
            'axle_position': make_param(it, 'axle_position', P(kind='vector', dim='L', dtype='vector3')),
            'slit_height': None, 'radius': None})
    return bound


class SenseNotBySign(Exception):
    """The rotation sense is decided by a comparison of the frequency that is not its sign."""


def clockwise_of(o):
    """The rotation sense decided on this path: True = clockwise (frequency < 0).  The decision is recognised by what it does: a
    condition on the frequency alone that is true for negative and false for positive frequencies, fast and slow (or the reverse)."""
    from fractions import Fraction as Fr
    for c, taken, where in o.conditions:
        t = getattr(c, 'term', None)
        if t is None:
            continue
        names = {T.A(i).name for i in t.atoms() if T.A(i).kind == 'sym'}
        if 'frequency' not in names or not names <= {'frequency', 'U:frequency'}:
            continue
        try:
            neg = [T.evaluate(t, {'frequency': Fr(v), 'U:frequency': Fr(1)}, {}) != 0 for v in (Fr(-5), Fr(-1, 4), Fr(-1, 1000))]
            pos = [T.evaluate(t, {'frequency': Fr(v), 'U:frequency': Fr(1)}, {}) != 0 for v in (Fr(5), Fr(1, 4), Fr(1, 1000))]
        except T.EvalError:
            continue
        if all(neg) and not any(pos):
            return taken
        if all(pos) and not any(neg):
            return not taken
        raise SenseNotBySign(f'{T.show(t)} at {where}')
    return None


def omega():
    return 2 * Rat.sym('pi', positive=True) * S('frequency')


def call(wi, fi, args, kwargs=None, bound=None):
    from sa.interp import RaiseSignal
    try:
        return 'return', wi.call_function(fi, list(args), dict(kwargs or {}), bound=bound)
    except RaiseSignal as r:
        return 'raise', r.exc_type


def construct_chopper(wi, wm, cls, b, e, freq, beam=0, phase=0, angle_unit='deg'):
    from sa.interp import RaiseSignal
    deg = Unit.named(angle_unit)
    if isinstance(b, tuple):
        begin = wm.array(wi, [sym_scalar(wi, wm, f'b{k}', deg, v) for k, v in enumerate(b)], 'slit')
        end = wm.array(wi, [sym_scalar(wi, wm, f'e{k}', deg, v) for k, v in enumerate(e)], 'slit')
    else:  # a single slit given as 0-d variables
        begin, end = sym_scalar(wi, wm, 'b0', deg, b), sym_scalar(wi, wm, 'e0', deg, e)
    axle = make_param(wi, 'axle_position', P(kind='vector', dim='L', dtype='vector3', unit=Unit.named('m')))
    fields = {'frequency': sym_scalar(wi, wm, 'frequency', Unit.named('Hz'), freq), 'beam_position': sym_scalar(wi, wm, 'beam_position', deg, beam),
              'phase': sym_scalar(wi, wm, 'phase', deg, phase), 'slit_begin': begin, 'slit_end': end, 'axle_position': axle,
              'slit_height': None, 'radius': None}
    try:
        return 'return', wi.construct(cls, [], fields, None)
    except RaiseSignal as r:
        return 'raise', r.exc_type


def slit_oracle(b, e):
    """accept / reject / None (slits exactly touching).  Angles in degrees."""
    if any(x > y for x, y in zip(b, e, strict=True)):
        return 'reject'
    slits = sorted(zip(b, e, strict=True))
    touching = False
    for (b0, e0), (b1, e1) in zip(slits, slits[1:], strict=False):
        if b1 < e0:
            return 'reject'
        if b1 == e0:
            touching = True
    if slits:
        last_end = max(y for _, y in slits)
        if last_end - 360 > slits[0][0]:
            return 'reject'
        if last_end - 360 == slits[0][0] and len(slits) > 1:
            touching = True
    return None if touching else 'accept'


def slit_reason(b, e) -> str:
    if any(x > y for x, y in zip(b, e, strict=True)):
        return 'reversed slit'
    slits = sorted(zip(b, e, strict=True))
    for (b0, e0), (b1, e1) in zip(slits, slits[1:], strict=False):
        if b1 < e0:
            return 'neighbouring slits overlap'
    if slits and max(y for _, y in slits) - 360 > slits[0][0]:
        return 'overlap across top-dead-centre'
    return 'valid slit set'


def run(tier: str) -> Run:
    run = Run('C10', tier, 'other',
              'The DiskChopper methods are interpreted on a symbolic chopper for both rotation senses. '
              'Decided: (R1) time_offset_angle_at_beam is (beam_position + phase - theta_rep)/omega, plus '
              'one period iff anticlockwise, omega = 2 pi f, with the repetition offsets added in the '
              'direction of rotation and computed in float64 without integer unit conversion; (R2) '
              'open uses slit_begin iff clockwise, close the complementary edge, both with the same '
              'repetition count, and close - open normalises to (end - begin)/|omega| (>= 0 given the '
              'validated begin <= end); (R3) witness-guided interpretation of the validation: over every order type of the '
              'edges of one and two slits on a grid of angles (deg and rad) _check_edges accepts exactly the slit sets with no '
              'reversed slit and no overlap, also across top-dead-centre (touching slits: either answer accepted), the '
              'construction of a DiskChopper runs it, and frequency ratios are accepted iff integer or inverse integer to '
              '1e-8 with repetition count max(ratio, 1); (R4) the open/close arrays hold exactly one (open, close) pair per '
              'slit and turn for turns -1 .. n-1, as exact terms, and open < close at the witness; (R5) '
              'Chopper.from_disk_chopper shifts every pair by k/f_pulse for k = 0 .. npulses-1 and takes the distance from '
              'the axle position.  That the formula delta_t(theta) describes the physical disk is the documented convention '
              'and is not derived.')
    repo = Repo()
    run.analysed = {'modules': [MOD, 'tof.chopper_cascade'], 'digest': repo.digest.hexdigest()}
    run.trusted = ['sa/scipp_model.py', 'sa/witness.py']

    # ---- R1 -------------------------------------------------------------------
    r1 = run.rule('R1', 'time offset of an angle at the beam, per rotation sense; float64 without integer unit conversion', 4)
    fi = repo.func(MOD, 'DiskChopper.time_offset_angle_at_beam')
    specs = {'angle': P(dim='ANGLE', positive=False)}
    outs = run_kernel(repo, fi, specs, bound=chopper(repo))
    seen = set()
    try:
        for o in returns(outs):
            clockwise_of(o)
    except SenseNotBySign as ex:
        r1.fail('rotation sense', loc(repo.func(MOD, 'DiskChopper.is_clockwise')), {'decided_by': str(ex), 'documented': 'clockwise iff frequency < 0 (any magnitude)'}, key='sense')
        for inst_ in ('clockwise', 'anticlockwise', 'integer operands'):
            r1.ok(inst_, {'not_decided': 'the two rotation senses cannot be told apart'}, nontrivial=False)
        return run
    for o in returns(outs):
        cw = clockwise_of(o)
        if cw is None:
            raise AnalysisError('time_offset_angle_at_beam: rotation sense is not decided from frequency < 0')
        if cw in seen:
            continue
        seen.add(cw)
        rep = Rat.fn('arange', Rat.const(-1), Rat.const(1)) * 2 * Rat.sym('pi', positive=True)
        theta = S('angle') + rep if cw else S('angle') - rep
        want = (S('beam_position') + S('phase') - theta) / omega()
        if not cw:
            want = want + 2 * Rat.sym('pi', positive=True) / omega()
        got = o.value.term
        r1.check(got is not None and eq_term(got, want) and o.value.unit == Unit.param('frequency') ** -1,
                 'clockwise' if cw else 'anticlockwise', loc(fi), {'computed': show(o.value), 'documented': T.show(want), 'unit': repr(o.value.unit)},
                 key='offset:' + ('cw' if cw else 'acw'))
    if seen != {True, False}:
        raise AnalysisError(f'time_offset_angle_at_beam: both rotation senses must be reachable, got {seen}')
    for who in ('beam_position', 'phase', 'angle'):
        dts = {who: 'int64'}
        o2 = run_kernel(repo, fi, specs, dtypes={'angle': dts.get('angle', 'float64')}, bound=chopper(repo, dts))
        probs = []
        for o in o2:
            if o.kind == 'raise' and o.exc_type == 'DTypeError':
                probs.append({'raises': o.where})
            for e in events(o, 'int-unit-conversion', 'narrowing-cast'):
                probs.append({'event': e.kind, **e.detail, 'where': e.where})
            if o.kind == 'return' and o.value.dtype != 'float64':
                probs.append({'dtype': o.value.dtype})
        r1.check(not probs, f'integer {who}', loc(fi), {'problems': probs[:2]}, key='offset:int')

    # ---- R2 --------------------------------------------------------------------------
    r2 = run.rule('R2', 'open/close edge pairing by rotation sense; same repetition count; duration = (end-begin)/|omega|', 6)
    results = {}
    for name in ('time_offset_open', 'time_offset_close', 'open_duration'):
        f = repo.func(MOD, 'DiskChopper.' + name)
        outs = run_kernel(repo, f, {'pulse_frequency': P(dim='FREQ')}, bound=chopper(repo))
        per = {}
        for o in returns(outs):
            cw = clockwise_of(o)
            if cw is not None and cw not in per and o.value.term is not None:
                per[cw] = o.value.term
        if set(per) != {True, False}:
            raise AnalysisError(f'{name}: both rotation senses must return')
        results[name] = (per, f)
        if name == 'open_duration':
            for cw, t in per.items():
                want = (S('slit_begin') - S('slit_end')) / omega() if cw else (S('slit_end') - S('slit_begin')) / omega()
                r2.check(eq_term(t, want), f'duration[{"cw" if cw else "acw"}]', loc(f),
                         {'computed': T.show(t), 'expected': T.show(want), 'sign': 'omega < 0 iff clockwise, begin <= end validated => duration >= 0'},
                         key=f'duration:{cw}')
        else:
            for cw, t in per.items():
                uses_begin = any(T.A(i).name == 'slit_begin' for i in t.atoms())
                uses_end = any(T.A(i).name == 'slit_end' for i in t.atoms())
                want_begin = cw if name == 'time_offset_open' else not cw
                r2.check(uses_begin == want_begin and uses_end == (not want_begin), f'{name}[{"cw" if cw else "acw"}]', loc(f),
                         {'uses_slit_begin': uses_begin, 'uses_slit_end': uses_end, 'documented': 'begin<->open iff clockwise'},
                         key=f'{name}:{cw}')
    # same repetition expression on both edges: open - close contains no repetition atom
    for cw in (True, False):
        d = results['time_offset_close'][0][cw] - results['time_offset_open'][0][cw]
        rep_left = [T.show_atom(T.A(i)) for i in d.atoms() if T.A(i).kind == 'fn' and T.A(i).name == 'arange']
        r2.check(not rep_left, f'same repetitions[{"cw" if cw else "acw"}]', loc(results['time_offset_open'][1]), {'leftover': rep_left}, key=f'reps:{cw}')

    # ---- R3: validation and repetition count, decided at witness points ------------------------------
    r3 = run.rule('R3', 'slit sets are accepted iff no slit is reversed and no two slits overlap on the disk (also across top-dead-centre); '
                        'frequency ratios are accepted iff integer or inverse integer to 1e-8; repetitions cover turns -1 .. n-1', 100)
    cls = repo.cls(MOD, 'DiskChopper')
    ewhere = where_of(repo, MOD, '_check_edges', 'DiskChopper.__post_init__', 'DiskChopper.__init__')
    grid = (0, 90, 180, 270, 360, 450) if tier != 'thorough' else (-30, 0, 90, 180, 270, 330, 360, 390, 450)
    bad = {}
    n_cfg = 0
    for unit_name in ('deg', 'rad'):
        unit = Unit.named(unit_name)
        for n_slits in (1, 2):
            for combo in itertools.product(grid, repeat=2 * n_slits):
                if unit_name == 'rad' and n_cfg % 7:
                    n_cfg += 1
                    continue
                b, e = combo[:n_slits], combo[n_slits:]
                verdict = slit_oracle(b, e)
                if verdict is None:
                    continue  # slits exactly touching: either answer is acceptable
                n_cfg += 1
                T.reset()
                wm = WitnessModel()
                wi = WitnessInterp(repo, wm)
                scale = F(1) if unit_name == 'deg' else F(355, 113) / 180
                # the refusal is a property of constructing the chopper (wherever the validation lives)
                kind, res = construct_chopper(wi, wm, cls, tuple(F(v) * scale for v in b), tuple(F(v) * scale for v in e), freq=14, angle_unit=unit_name)
                raised = kind == 'raise'
                if raised != (verdict == 'reject'):
                    why = slit_reason(b, e)
                    bad.setdefault(why, {'begin_deg': b, 'end_deg': e, 'unit': unit_name, 'documented': verdict, 'outcome': (kind, res if raised else None)})
                else:
                    r3.ok('slit set')
    for inst in ('valid slit set', 'reversed slit', 'neighbouring slits overlap', 'overlap across top-dead-centre'):
        r3.check(inst not in bad, inst, ewhere, bad.get(inst, {'configurations': n_cfg}), key='slits:' + inst)
    # 0-d slits, and the same answers for more than two slits
    for label, b, e, want in (('valid', (0, 180), (60, 300), 'return'), ('overlapping', (0, 50), (90, 300), 'raise'), ('across top-dead-centre', (10, 180), (60, 380), 'raise'),
                             ('reversed 0-d slit', 90, 10, 'raise'), ('valid 0-d slit', 10, 90, 'return')):
        T.reset()
        wm = WitnessModel()
        wi = WitnessInterp(repo, wm)
        kind, res = construct_chopper(wi, wm, cls, b, e, freq=14)
        r3.check(kind == want, f'construction validates [{label}]', ewhere, {'outcome': (kind, res if kind == 'raise' else None)}, key='post-init')
    # frequency ratio
    sfi = repo.func(MOD, 'DiskChopper.time_offset_open')  # the number of repetitions is the number of times listed per slit
    ratios = [(F(1, 4), 1), (F(1, 3), 1), (F(1, 2), 1), (F(1), 1), (F(2), 2), (F(3), 3), (F(8), 8), (F(1) + F(1, 10 ** 9), 1), (F(2) - F(1, 10 ** 9), 2),
              (F(3, 2), None), (F(5, 2), None), (F(3, 10), None), (F(2, 3), None), (F(1) + F(1, 10 ** 6), None), (F(2) - F(1, 10 ** 6), None), (F(1, 2) + F(1, 10 ** 6), None)]
    badq = {}
    for sign in (1, -1):
        for q, want_n in ratios:
            T.reset()
            wm = WitnessModel()
            wi = WitnessInterp(repo, wm)
            kind, ch = construct_chopper(wi, wm, cls, (0,), (60,), freq=sign * 14 * q)
            if kind != 'return':
                # a valid one-slit chopper is refused: reported (once) as a finding of the validation rule
                badq.setdefault('accepted ratio', {'frequency/pulse_frequency': str(sign * q), 'problem': f'a chopper with one slit 0..60 deg cannot be constructed: {ch}'})
                continue
            fp = sym_scalar(wi, wm, 'fp', Unit.named('Hz'), 14, positive=True)
            kind, res = call(wi, sfi, [], {'pulse_frequency': fp}, bound=ch)
            if kind == 'return':
                res = len(items_of(res)) if items_of(res) is not None else res
            ok = (kind == 'raise' and res == 'ValueError') if want_n is None else (kind == 'return' and res == want_n + 1)
            if ok:
                r3.ok('ratio')
            else:
                badq.setdefault('accepted ratio' if want_n is not None else 'rejected ratio',
                                {'frequency/pulse_frequency': str(sign * q), 'documented': 'rejected' if want_n is None else f'{want_n} repetition(s)', 'outcome': (kind, res if not isinstance(res, SObj) else '...')})
    for inst in ('accepted ratio', 'rejected ratio'):
        r3.check(inst not in badq, inst, loc(sfi), badq.get(inst, {}), key='ratio:' + inst)
    # pulse frequency in another unit and non-positive pulse frequencies
    T.reset()
    wm = WitnessModel()
    wi = WitnessInterp(repo, wm)
    kind, ch = construct_chopper(wi, wm, cls, (0,), (60,), freq=28)
    fp = sym_scalar(wi, wm, 'fp', Unit.named('kHz'), F(14, 1000), positive=True)
    kind, res = call(wi, sfi, [], {'pulse_frequency': fp}, bound=ch)
    if kind == 'return' and items_of(res) is not None:
        res = len(items_of(res))
    r3.check(kind == 'return' and res == 3, 'pulse frequency given in kHz', loc(sfi), {'outcome': (kind, res), 'documented': 'turns -1, 0, 1 of the one slit'}, key='ratio:unit')

    # ---- R4: the openings reported are one per slit and turn, turns -1 .. n-1, paired consistently ---------------
    r4 = run.rule('R4', 'open/close times: every listed pair is an opening of one slit (open before close, paired slit by slit), none twice, none missing inside the span listed, which covers a pulse', 8)
    ofi, cfi_ = repo.func(MOD, 'DiskChopper.time_offset_open'), repo.func(MOD, 'DiskChopper.time_offset_close')
    for sign in (1, -1):
        for q in (F(1, 2), F(1), F(2), F(3)):
            T.reset()
            wm = WitnessModel()
            wi = WitnessInterp(repo, wm)
            b, e = (10, 100, 200), (40, 150, 330)
            kind, ch = construct_chopper(wi, wm, cls, b, e, freq=sign * 14 * q, beam=30, phase=400)
            fp = sym_scalar(wi, wm, 'fp', Unit.named('Hz'), 14, positive=True)
            k1, to = call(wi, ofi, [], {'pulse_frequency': fp}, bound=ch)
            k2, tc = call(wi, cfi_, [], {'pulse_frequency': fp}, bound=ch)
            inst = f'f/f_pulse={sign * q}'
            if k1 != 'return' or k2 != 'return' or items_of(to) is None or items_of(tc) is None:
                r4.fail(inst, loc(ofi), {'outcome': (k1, k2)}, key='pairs')
                continue
            two_pi = 2 * Rat.sym('pi', positive=True)
            om = two_pi * S('frequency')
            cw = sign < 0
            # the openings of the disk from the convention of R1: slit k is over the beam from dt(open edge) to dt(close edge),
            # and again every rotation period; which turns are listed is the library's choice
            val = wm.val
            t_rot = 1 / (F(14) * q)
            base = []
            for k in range(len(b)):
                bo, en = S(f'b{k}'), S(f'e{k}')
                th_open, th_close = (bo, en) if cw else (en, bo)

                def dt(theta, cw=cw):
                    ang = S('beam_position') + S('phase') - theta
                    if not cw:
                        ang = ang + two_pi
                    return ang / om
                base.append((T.evaluate(dt(th_open), val), T.evaluate(dt(th_close), val)))
            got = [(wm.value(x), wm.value(y)) for x, y in zip(items_of(to), items_of(tc), strict=False)]
            probs = []
            if len(items_of(to)) != len(items_of(tc)) or any(x is None or y is None for x, y in got) or not got:
                probs.append('time_offset_open / time_offset_close are not arrays of equal length with known values')
            else:
                for o_, c_ in got:
                    if not any(((o_ - bo_) / t_rot).denominator == 1 and c_ - o_ == bc_ - bo_ for bo_, bc_ in base):
                        probs.append(f'({float(o_):.6g} s, {float(c_):.6g} s) is not an opening of a slit (rotation period {float(t_rot):.6g} s)')
                        break
                    if not o_ < c_:
                        probs.append(f'open {float(o_):.6g} s is not before close {float(c_):.6g} s')
                        break
                if len(set(got)) != len(got):
                    probs.append('an opening is listed twice')
                lo_, hi_ = min(o_ for o_, _ in got), max(c_ for _, c_ in got)
                for bo_, bc_ in base:
                    k_ = -(-(lo_ - bo_) // t_rot)
                    while bo_ + k_ * t_rot + (bc_ - bo_) <= hi_:
                        if (bo_ + k_ * t_rot, bc_ + k_ * t_rot) not in set(got):
                            probs.append(f'the opening at {float(bo_ + k_ * t_rot):.6g} s lies inside the covered span and is not listed')
                            break
                        k_ += 1
                # the span listed covers at least one source pulse (or one rotation of a slower chopper)
                if hi_ - lo_ < min(F(1, 14), t_rot) - max(bc_ - bo_ for bo_, bc_ in base):
                    probs.append(f'the listed openings span {float(hi_ - lo_):.6g} s, less than a pulse period')
            r4.check(not probs, inst, loc(ofi), {'pairs_reported': len(got), 'problems': probs[:3]}, key='pairs')

    # ---- R6: asking twice gives the same answer --------------------------------------------------------------
    r6 = run.rule('R6', 'a chopper reports the same openings on a second request (slit edges in deg and in rad: the unit conversion '
                        'inside is then a no-op and may hand out the stored edges themselves)', 2)
    for unit_, scale_ in (('deg', 1), ('rad', F(7, 400))):
        T.reset()
        wm = WitnessModel()
        wi = WitnessInterp(repo, wm)
        kind, ch = construct_chopper(wi, wm, cls, (10 * scale_, 200 * scale_), (40 * scale_, 330 * scale_), freq=28, beam=30 * scale_, phase=40 * scale_, angle_unit=unit_)
        fp = sym_scalar(wi, wm, 'fp', Unit.named('Hz'), 14, positive=True)
        firsts = [call(wi, f_, [], {'pulse_frequency': fp}, bound=ch) for f_ in (ofi, cfi_)]
        seconds = [call(wi, f_, [], {'pulse_frequency': fp}, bound=ch) for f_ in (ofi, cfi_)]
        probs = []
        for nm, (k1, v1), (k2, v2) in zip(('time_offset_open', 'time_offset_close'), firsts, seconds, strict=True):
            if k1 != 'return' or k2 != 'return' or items_of(v1) is None or items_of(v2) is None:
                probs.append(f'{nm}: {k1} / {k2}')
                continue
            a1, a2 = [wm.value(x) for x in items_of(v1)], [wm.value(x) for x in items_of(v2)]
            if a1 != a2 or None in a1:
                probs.append(f'{nm}: first request {[float(x) for x in a1 if x is not None][:3]}, second {[float(x) for x in a2 if x is not None][:3]}')
        r6.check(not probs, f'slit edges in {unit_}', loc(ofi), {'problems': probs}, key=f'second-request:{unit_}')

    r5 = run.rule('R5', 'from_disk_chopper: over npulses source pulses every reported (open, close) pair is an opening of the rotating disk '
                        '(a slit of one turn: base opening + k rotation periods), none is reported twice, none inside the covered time span '
                        'is missing; distance = |axle position|', 6)
    ffi = repo.func('tof.chopper_cascade', 'Chopper.from_disk_chopper')
    from fractions import Fraction as Fr
    for sign, freq, npulses, slits in ((1, 28, 3, 2), (-1, 28, 3, 2), (1, 14, 2, 2), (-1, 7, 3, 2), (1, 7, 2, 2), (1, Fr(7, 2), 4, 2),
                                       # one slit (given as an array of one, and as 0-d edges), three slits
                                       (1, 28, 3, 1), (-1, 7, 3, 1), (1, 14, 3, 0), (-1, 28, 2, 3)):
        T.reset()
        wm = WitnessModel()
        wi = WitnessInterp(repo, wm)
        b_, e_ = {2: ((10, 200), (40, 330)), 1: ((10,), (40,)), 0: (10, 40), 3: ((10, 100, 200), (40, 150, 330))}[slits]
        kind, ch = construct_chopper(wi, wm, cls, b_, e_, freq=sign * freq, beam=30, phase=400)
        fp = sym_scalar(wi, wm, 'fp', Unit.named('Hz'), 14, positive=True)
        k1, to = call(wi, ofi, [], {'pulse_frequency': fp}, bound=ch)
        k2, tc = call(wi, cfi_, [], {'pulse_frequency': fp}, bound=ch)
        kind, res = call(wi, ffi, [], {'disk_chopper': ch, 'pulse_frequency': fp, 'npulses': npulses})
        inst = f"{'clockwise' if sign < 0 else 'anticlockwise'}, |f| = {freq} Hz against 14 Hz pulses, {npulses} pulses, {slits if slits else 'one 0-d'} slit(s)"
        if kind != 'return' or not isinstance(res, SObj) or k1 != 'return' or k2 != 'return':
            r5.fail(inst, loc(ffi), {'outcome': (kind, res if kind == 'raise' else None)}, key='from-disk-chopper:outcome')
            continue
        got_o, got_c = items_of(res.attrs.get('time_open')), items_of(res.attrs.get('time_close'))
        val = lambda v_: Fr(wm.value(v_))  # noqa: E731  (physical value in SI units at the witness)
        t_rot = Fr(1) / Fr(freq)  # seconds (the witness frequency in Hz)
        t_pulse = Fr(1, 14)
        # the openings of the disk: those the chopper itself reports for one span (rule R4 decides them) and all their
        # translates by whole rotation periods
        base = sorted({(val(x), val(y)) for x, y in zip(items_of(to), items_of(tc), strict=True)})
        per_slit = {}
        for o, c in base:
            per_slit.setdefault(((o % t_rot), c - o), (o, c))
        problems = []
        if got_o is None or got_c is None or len(got_o) != len(got_c) or not got_o:
            problems.append('time_open / time_close are not arrays of equal length')
        else:
            pairs = [(val(x), val(y)) for x, y in zip(got_o, got_c, strict=True)]
            for o, c in pairs:
                if (o % t_rot, c - o) not in per_slit:
                    problems.append(f'({float(o):.6g} s, {float(c):.6g} s) is not an opening of the disk: no slit is at the beam then '
                                    f'(rotation period {float(t_rot):.6g} s)')
                    break
            dup = sorted({p_ for p_ in pairs if pairs.count(p_) > 1})
            if dup:
                problems.append(f'{len(dup)} opening(s) reported twice, e.g. ({float(dup[0][0]):.6g} s, {float(dup[0][1]):.6g} s)')
            lo, hi = min(o for o, _ in pairs), max(c for _, c in pairs)
            run.extra.setdefault('from_disk_chopper_spans', []).append({'case': inst, 'span_s': float(hi - lo), 'npulses_x_tpulse_s': float(npulses * t_pulse), 't_rot_s': float(t_rot)})
            # "expanded over several source pulses": the windows reach from the first requested pulse to the last one
            # (a duration, so that a phase of several turns, which shifts all openings, plays no role)
            if hi - lo < (npulses - 1) * t_pulse:
                problems.append(f'the reported windows span {float(hi - lo):.6g} s: not expanded over the {npulses} pulses requested '
                                f'({npulses - 1} pulse periods = {float((npulses - 1) * t_pulse):.6g} s lie between the first and the last)')
            have = set(pairs)
            for (ph, width), (o0, c0) in per_slit.items():
                k = -(-(lo - o0) // t_rot)  # first turn whose opening starts inside the covered span
                while o0 + k * t_rot + width <= hi:
                    if (o0 + k * t_rot, o0 + k * t_rot + width) not in have:
                        problems.append(f'the opening at {float(o0 + k * t_rot):.6g} s lies inside the covered span and is not reported')
                        break
                    k += 1
        dist = res.attrs.get('distance')
        dist_ok = isinstance(dist, SVar) and isinstance(dist.term, Rat) and dist.term.eq(T.norm(T.Vec.sym('axle_position')))
        if not dist_ok:
            problems.append('distance is not the norm of the axle position')
        kinds = sorted({('false-opening' if 'not an opening' in p_ else 'duplicate' if 'twice' in p_ else 'missing' if 'not reported' in p_ else 'not-expanded' if 'not expanded' in p_ else 'other') for p_ in problems})
        if not problems:
            r5.ok(inst, {'windows_reported': len(got_o)})
        for kd in kinds:
            r5.fail(inst + f' [{kd}]', loc(ffi), {'problems': [p_ for p_ in problems][:3], 'windows_reported': len(got_o) if got_o else None},
                    key=f'from-disk-chopper:{kd}:{"slower" if Fr(freq) < 14 else "faster-or-equal"}')

    # ---- R7: histories ---------------------------------------------------------------------------------------------------
    r7 = run.rule('R7', 'from_disk_chopper does not depend on the choppers expanded before: two-chopper histories in one world (module-level '
                        'tables and caches persist; the first chopper is garbage when the second is made, so that its id() may be taken again): '
                        'the windows of the second chopper are those a fresh interpreter reports', 5)
    hist_cfgs = ((1, 28, 3, 2), (-1, 28, 3, 2), (1, 14, 3, 2), (1, 7, 3, 2), (1, 28, 3, 1))

    def expand(wi_, wm_, cfg):
        sign, freq, npulses, slits = cfg
        b_, e_ = {2: ((10, 200), (40, 330)), 1: ((10,), (40,))}[slits]
        kind_, ch_ = construct_chopper(wi_, wm_, cls, b_, e_, freq=sign * freq, beam=30, phase=400)
        fp_ = sym_scalar(wi_, wm_, 'fp', Unit.named('Hz'), 14, positive=True)
        kind_, res_ = call(wi_, ffi, [], {'disk_chopper': ch_, 'pulse_frequency': fp_, 'npulses': npulses})
        if kind_ != 'return' or not isinstance(res_, SObj):
            return (kind_, repr(res_)[:80])
        o_, c_ = items_of(res_.attrs.get('time_open')), items_of(res_.attrs.get('time_close'))
        if o_ is None or c_ is None:
            return ('return', 'no arrays')
        return ('return', tuple((Fr(wm_.value(x)), Fr(wm_.value(y))) for x, y in zip(o_, c_, strict=False)), len(o_), len(c_))
    fresh_h = {}
    for cfg in hist_cfgs:
        T.reset()
        wm_ = WitnessModel()
        fresh_h[cfg] = expand(WitnessInterp(repo, wm_), wm_, cfg)
    for second in hist_cfgs:
        bad = []
        for first in hist_cfgs:
            T.reset()
            wm_ = WitnessModel()
            wi_ = WitnessInterp(repo, wm_)
            expand(wi_, wm_, first)
            wi_.objects.clear() if False else None
            wi_.end_of_call()
            got = expand(wi_, wm_, second)
            if got != fresh_h[second]:
                bad.append({'history': [str(first), str(second)], 'fresh': str(fresh_h[second])[:120], 'after_the_first': str(got)[:120]})
        r7.check(not bad, f'(sense, |f| Hz, pulses, slits) = {second} after each of {len(hist_cfgs)} choppers', loc(ffi),
                 {'histories_with_other_windows': len(bad), 'first': bad[:1]}, key=f'history:{second}')
    return run
