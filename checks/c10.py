"""C10 — disk-chopper open/close times are exactly the openings of the rotating disk."""

from __future__ import annotations

import ast

from sa import term as T
from sa.cfg import CFG
from sa.interp import SObj, SVar
from sa.kernel import P, make_param, run_kernel
from sa.load import AnalysisError, Repo, loc
from sa.report import Run
from sa.term import Rat
from sa.units import Unit

from .common import eq_term, events, returns, show

MOD = 'chopper.disk_chopper'


def norm(node) -> str:
    return ast.unparse(node).replace(' ', '')


def stmts(fn) -> list[str]:
    return [norm(s) for s in ast.walk(fn) if isinstance(s, ast.stmt)
            and not isinstance(s, ast.FunctionDef | ast.If | ast.For | ast.Try | ast.With | ast.While)]


def S(n, pos=False):
    return Rat.sym(n, positive=pos)


def chopper(repo, dtypes=None):
    cls = repo.cls(MOD, 'DiskChopper')
    dtypes = dtypes or {}

    def bound(it):
        mk = lambda n, dim: make_param(it, n, P(dim=dim, positive=False), dtype=dtypes.get(n))  # noqa: E731
        return SObj(cls, {
            'frequency': mk('frequency', 'FREQ'), 'beam_position': mk('beam_position', 'ANGLE'), 'phase': mk('phase', 'ANGLE'),
            'slit_begin': mk('slit_begin', 'ANGLE'), 'slit_end': mk('slit_end', 'ANGLE'),
            'axle_position': make_param(it, 'axle_position', P(kind='vector', dim='L', dtype='vector3')),
            'slit_height': None, 'radius': None})
    return bound


def clockwise_of(o):
    """The rotation sense decided on this path: True = clockwise (frequency < 0)."""
    for c, taken, where in o.conditions:
        t = getattr(c, 'term', None)
        if t is not None and eq_term(t, T.fn_cmp('<', S('frequency'), Rat.const(0))):
            return taken
    return None


def omega():
    return 2 * Rat.sym('pi', positive=True) * S('frequency')


def run(tier: str) -> Run:
    run = Run('C10', tier, 'other',
              'The DiskChopper methods are interpreted on a symbolic chopper for both rotation senses. '
              'Decided: (R1) time_offset_angle_at_beam is (beam_position + phase - theta_rep)/omega, plus '
              'one period iff anticlockwise, omega = 2 pi f, with the repetition offsets added in the '
              'direction of rotation and computed in float64 without integer unit conversion; (R2) '
              'open uses slit_begin iff clockwise, close the complementary edge, both with the same '
              'repetition count, and close - open normalises to (end - begin)/|omega| (>= 0 given the '
              'validated begin <= end); (R3) validation is on every construction path and the '
              'integer-ratio check (rtol 1e-8) guards the repetition count, which is round(max(q, 1)); '
              '(R4) the overlap check also compares the last end with the first begin plus one turn; '
              '(R5) Chopper.from_disk_chopper feeds one pulse frequency to both edges and adds the same '
              'per-pulse offsets.  "Maximal", "none missing", "once per rotation" are statements about '
              'produced numbers and are not decided.')
    repo = Repo()
    run.analysed = {'modules': [MOD, 'tof.chopper_cascade'], 'digest': repo.digest.hexdigest()}
    run.trusted = ['sa/scipp_model.py', 'sa/cfg.py']

    # ---- R1 -------------------------------------------------------------------
    r1 = run.rule('R1', 'time offset of an angle at the beam, per rotation sense; float64 without integer unit conversion', 4)
    fi = repo.func(MOD, 'DiskChopper.time_offset_angle_at_beam')
    specs = {'angle': P(dim='ANGLE', positive=False)}
    outs = run_kernel(repo, fi, specs, bound=chopper(repo))
    seen = set()
    for o in returns(outs):
        cw = clockwise_of(o)
        if cw is None:
            raise AnalysisError('time_offset_angle_at_beam: rotation sense is not decided from frequency < 0')
        if cw in seen:
            continue
        seen.add(cw)
        rep = Rat.fn('arange', Rat.const(-1), Rat.const(1)) * 2 * Rat.sym('pi', positive=True)
        theta = S('angle') + rep if cw else S('angle') - rep
        want = (S('beam_position') + S('phase') - theta) / omega()
        if not cw:
            want = want + 2 * Rat.sym('pi', positive=True) / omega()
        got = o.value.term
        r1.check(got is not None and eq_term(got, want) and o.value.unit == Unit.param('frequency') ** -1,
                 'clockwise' if cw else 'anticlockwise', loc(fi), {'computed': show(o.value), 'documented': T.show(want), 'unit': repr(o.value.unit)},
                 key='offset:' + ('cw' if cw else 'acw'))
    if seen != {True, False}:
        raise AnalysisError(f'time_offset_angle_at_beam: both rotation senses must be reachable, got {seen}')
    for who in ('beam_position', 'phase', 'angle'):
        dts = {who: 'int64'}
        o2 = run_kernel(repo, fi, specs, dtypes={'angle': dts.get('angle', 'float64')}, bound=chopper(repo, dts))
        probs = []
        for o in o2:
            if o.kind == 'raise' and o.exc_type == 'DTypeError':
                probs.append({'raises': o.where})
            for e in events(o, 'int-unit-conversion', 'narrowing-cast'):
                probs.append({'event': e.kind, **e.detail, 'where': e.where})
            if o.kind == 'return' and o.value.dtype != 'float64':
                probs.append({'dtype': o.value.dtype})
        r1.check(not probs, f'integer {who}', loc(fi), {'problems': probs[:2]}, key='offset:int')

    # ---- R2 --------------------------------------------------------------------------
    r2 = run.rule('R2', 'open/close edge pairing by rotation sense; same repetition count; duration = (end-begin)/|omega|', 6)
    results = {}
    for name in ('time_offset_open', 'time_offset_close', 'open_duration'):
        f = repo.func(MOD, 'DiskChopper.' + name)
        outs = run_kernel(repo, f, {'pulse_frequency': P(dim='FREQ')}, bound=chopper(repo))
        per = {}
        for o in returns(outs):
            cw = clockwise_of(o)
            if cw is not None and cw not in per and o.value.term is not None:
                per[cw] = o.value.term
        if set(per) != {True, False}:
            raise AnalysisError(f'{name}: both rotation senses must return')
        results[name] = (per, f)
        if name == 'open_duration':
            for cw, t in per.items():
                want = (S('slit_begin') - S('slit_end')) / omega() if cw else (S('slit_end') - S('slit_begin')) / omega()
                r2.check(eq_term(t, want), f'duration[{"cw" if cw else "acw"}]', loc(f),
                         {'computed': T.show(t), 'expected': T.show(want), 'sign': 'omega < 0 iff clockwise, begin <= end validated => duration >= 0'},
                         key=f'duration:{cw}')
        else:
            for cw, t in per.items():
                uses_begin = any(T.A(i).name == 'slit_begin' for i in t.atoms())
                uses_end = any(T.A(i).name == 'slit_end' for i in t.atoms())
                want_begin = cw if name == 'time_offset_open' else not cw
                r2.check(uses_begin == want_begin and uses_end == (not want_begin), f'{name}[{"cw" if cw else "acw"}]', loc(f),
                         {'uses_slit_begin': uses_begin, 'uses_slit_end': uses_end, 'documented': 'begin<->open iff clockwise'},
                         key=f'{name}:{cw}')
    # same repetition expression on both edges: open - close contains no repetition atom
    for cw in (True, False):
        d = results['time_offset_close'][0][cw] - results['time_offset_open'][0][cw]
        rep_left = [T.show_atom(T.A(i)) for i in d.atoms() if T.A(i).kind == 'fn' and T.A(i).name == 'arange']
        r2.check(not rep_left, f'same repetitions[{"cw" if cw else "acw"}]', loc(results['time_offset_open'][1]), {'leftover': rep_left}, key=f'reps:{cw}')

    # ---- R3 ---------------------------------------------------------------------------
    r3 = run.rule('R3', 'validation on every construction path; integer-ratio check guards the repetition count', 6)
    pfi = repo.func(MOD, 'DiskChopper.__post_init__')
    texts = stmts(pfi.node)
    pc = CFG(pfi.node)
    calls = [norm(c) for _, c in pc.calls(lambda c: True)]
    top = [norm(s) for s in pfi.node.body]
    r3.check('_check_edges(self.slit_begin,self.slit_end)' in top and "_require_frequency('frequency',self.frequency)" in top, '__post_init__ validates',
             loc(pfi), {'statements': top}, key='post-init')
    efi = repo.func(MOD, '_check_edges')
    ec = CFG(efi.node)
    guards = {norm(g.test): (g, lab, exc) for g, lab, exc in ec.guards()}
    call_overlap = ec.calls(lambda c: ast.unparse(c.func) == '_check_edge_overlap')
    ok = 'begin.sizes!=end.sizes' in guards and 'sc.any(begin>end)' in guards and len(call_overlap) == 1 \
        and norm(call_overlap[0][1]) == '_check_edge_overlap(begin,end)' and call_overlap[0][0] in efi.node.body
    r3.check(ok, '_check_edges', loc(efi), {'guards': sorted(guards), 'overlap_call': [norm(c) for _, c in call_overlap]}, key='check-edges')
    sfi = repo.func(MOD, 'DiskChopper._source_phase_factor')
    sc_ = CFG(sfi.node)
    rets = [st for st in sc_.stmt.values() if isinstance(st, ast.Return)]
    g = [(gg, lab, exc) for gg, lab, exc in sc_.guards() if '_is_int_or_inverse_int' in norm(gg.test)]
    ok = len(rets) == 1 and len(g) == 1 and g[0][2] == 'ValueError' and sc_.guarded_by(rets[0], g[0][0], g[0][1]) \
        and norm(g[0][0].test) == 'not_is_int_or_inverse_int(quot,rtol=sc.scalar(1e-08))'
    r3.check(ok, 'ratio check guards the count', loc(sfi), {'guard': norm(g[0][0].test) if g else None}, key='ratio-guard')
    texts = stmts(sfi.node)
    r3.check('returnround(max(quot.value,1))' in texts and 'quot=frequency/pulse_frequency' in texts and 'frequency=abs(self.frequency)' in texts
             and 'pulse_frequency=pulse_frequency.to(unit=frequency.unit)' in texts, 'repetition count = round(max(|f|/f_pulse, 1))', loc(sfi),
             {'return': [t_ for t_ in texts if t_.startswith('return')]}, key='count')
    ifi = repo.func(MOD, '_is_int_or_inverse_int')
    outs = run_kernel(repo, ifi, {'x': P(dim='ONE', unit=Unit(), positive=False), 'rtol': P(dim='ONE', unit=Unit())})
    x, rt = S('x'), S('rtol', True)
    a = Rat.fn('all', T.fn_cmp('<', T.fn_abs(Rat.fn('round', x) - x), rt))
    b = Rat.fn('all', T.fn_cmp('<', T.fn_abs(Rat.fn('round', 1 / x) - 1 / x), rt))
    want = T.fn_bool('or', a, b)
    ok = False
    got = None
    for o in outs:
        ct = getattr(o.value, 'cond_term', None) if o.kind == 'return' else None
        if isinstance(ct, Rat):
            got = ct
    ok = got is not None and eq_term(got, want)
    r3.check(ok, '_is_int_or_inverse_int', loc(ifi), {'computed': T.show(got) if got is not None else None, 'expected': T.show(want)}, key='ratio-predicate')
    rep_fi = repo.func(MOD, 'DiskChopper._apply_angle_repetitions')
    texts = stmts(rep_fi.node)
    r3.check("repetition_offsets=sc.arange(dim,-1,n_repetitions,unit='rad')*(2*np.pi)" in texts, 'repetitions cover turns -1 .. n-1', loc(rep_fi),
             {'offsets': [t_ for t_ in texts if t_.startswith('repetition_offsets=')]}, key='repetitions')

    # ---- R4 ------------------------------------------------------------------------------
    r4 = run.rule('R4', 'slit overlap is checked between neighbours and across top-dead-centre', 2)
    ofi = repo.func(MOD, '_check_edge_overlap')
    oc = CFG(ofi.node)
    og = oc.guards()
    neigh = [g_ for g_, lab, exc in og if '[1:]' in norm(g_.test) and '[:-1]' in norm(g_.test) and exc == 'ValueError']
    wrap = [g_ for g_, lab, exc in og if exc == 'ValueError' and 'begin[0]' in norm(g_.test) and 'end[-1]' in norm(g_.test)]
    r4.check(len(neigh) >= 1, 'neighbouring slits', loc(ofi), {'guards': [norm(g_.test) for g_, _, _ in og]}, key='overlap:neighbours')
    full_turn_ok = False
    if wrap:
        src = ast.unparse(ofi.node)
        full_turn_ok = ('360' in src and 'deg' in src) or ('2*np.pi' in src.replace(' ', '')) or ('2*math.pi' in src.replace(' ', ''))
    r4.check(bool(wrap) and full_turn_ok, 'across top-dead-centre', loc(ofi),
             {'guards': [norm(g_.test) for g_, _, _ in og], 'needed': 'a check relating end[-1] to begin[0] plus one full turn'}, key='overlap:wrap')

    # ---- R5 ---------------------------------------------------------------------------------
    r5 = run.rule('R5', 'from_disk_chopper: one pulse frequency for both edges, same per-pulse offsets, same flattening', 1)
    cfi = repo.func('tof.chopper_cascade', 'Chopper.from_disk_chopper')
    texts = stmts(cfi.node)
    want = ['tpulse=1.0/pulse_frequency', 'topen=disk_chopper.time_offset_open(pulse_frequency=pulse_frequency)',
            'tclose=disk_chopper.time_offset_close(pulse_frequency=pulse_frequency)', "offsets=sc.arange('pulse',npulses)*tpulse"]
    missing = [w for w in want if w not in texts]
    ret = [t_ for t_ in texts if t_.startswith('returncls(')]
    ok = not missing and len(ret) == 1 and 'time_open=(offsets+topen).flatten(to=topen.dim)' in ret[0] \
        and 'time_close=(offsets+tclose).flatten(to=tclose.dim)' in ret[0] and 'distance=sc.norm(disk_chopper.axle_position)' in ret[0]
    r5.check(ok, 'Chopper.from_disk_chopper', loc(cfi), {'missing': missing, 'return': ret}, key='from-disk-chopper')
    return run
