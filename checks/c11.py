"""C11 — chopper-cascade frames are exactly the set of transmitted neutrons."""

from __future__ import annotations

import itertools
from fractions import Fraction as F

from sa import term as T
from sa.interp import SObj, SVar
from sa.kernel import P, run_kernel
from sa.load import AnalysisError, Repo, loc, where_of
from sa.report import Run
from sa.term import Rat
from sa.units import Unit
from sa.witness import WitnessInterp, WitnessModel, items_of, sym_scalar
from spec import clip
from spec.formulas import S, h, m_n

from .common import eq_term, returns, show

MOD = 'tof.chopper_cascade'
SPECS = {'time': P(dim='T', positive=False), 'wavelength': P(dim='L'), 'distance': P(dim='L', positive=False)}
SEC, ANG, M, CM = Unit.named('s'), Unit.named('angstrom'), Unit.named('m'), Unit.named('cm')
TAG = 'xt'  # exactness tag: 'A<id>' bit-exactly that endpoint, 'Z' exactly zero, 'I' inexact, absent = unrelated


class ExactModel(WitnessModel):
    """WitnessModel plus a floating-point exactness tag: which results are bit-exactly an endpoint value."""

    def binop(self, interp, op, a, b, node, inplace=False):
        r = super().binop(interp, op, a, b, node, inplace)
        if isinstance(r, SVar) and items_of(r) is None:
            ta = self._tag(a)
            tb = self._tag(b)
            tag = None
            if op == 'sub':
                if ta and ta == tb and ta.startswith('A'):
                    tag = 'Z'
                elif tb == 'Z':
                    tag = ta
                elif ta == 'Z' and tb is None:
                    tag = None
                elif (ta or tb):
                    tag = 'I'
            elif op == 'add':
                if ta == 'Z':
                    tag = tb
                elif tb == 'Z':
                    tag = ta
                elif ta or tb:
                    tag = 'I'
            elif op == 'mul':
                if 'Z' in (ta, tb):
                    tag = 'Z'
                elif ta or tb:
                    tag = 'I'
            elif op == 'div':
                if ta == 'Z':
                    tag = 'Z'
                elif ta or tb:
                    tag = 'I'
            elif ta or tb:
                tag = 'I'
            if tag:
                r.members[TAG] = tag
        return r

    @staticmethod
    def _tag(x):
        if isinstance(x, SVar):
            return x.members.get(TAG)
        if isinstance(x, int | float) and x == 0:
            return 'Z'
        return None

    def call_method(self, interp, recv, name, args, kwargs, node):
        r = super().call_method(interp, recv, name, args, kwargs, node)
        if isinstance(recv, SVar) and isinstance(r, SVar) and name in ('to', 'copy', 'astype'):
            pairs = [(recv, r)] if items_of(r) is None else list(zip(items_of(recv) or [], items_of(r), strict=False))
            for src, dst in pairs:
                if TAG in src.members and dst is not src:
                    # a conversion to the same unit and dtype hands on the same bits
                    dst.members[TAG] = src.members[TAG] if (dst.unit == src.unit and dst.dtype == src.dtype) else 'I'
        return r


SUPPLIED_WINDOWS: dict = {}


def opens_of(ch):
    return SUPPLIED_WINDOWS[id(ch)][0]


def closes_of(ch):
    return SUPPLIED_WINDOWS[id(ch)][1]


class World:
    """One interpretation context: interpreter, model, and helpers to build the package's objects."""

    def __init__(self, repo, model_cls=WitnessModel):
        T.reset()
        self.repo = repo
        self.model = model_cls()
        self.model.val['m_n'] = F(10 ** 10)  # with h = 1: one metre of flight shifts t by lambda[angstrom] seconds
        self.it = WitnessInterp(repo, self.model)
        self.it.events, self.it.conditions = [], []
        self.sub_cls = repo.cls(MOD, 'Subframe')
        self.frame_cls = repo.cls(MOD, 'Frame')
        self.chop_cls = repo.cls(MOD, 'Chopper')
        self.seq_cls = repo.cls(MOD, 'FrameSequence')

    def scalar(self, name, unit, value, positive=False):
        return sym_scalar(self.it, self.model, name, unit, value, positive=positive)

    def subframe(self, name, tvals, wvals, shared_w=None):
        ts = [self.scalar(f'{name}_t{k}', SEC, v) for k, v in enumerate(tvals)]
        ws = []
        pool = {}
        for k, v in enumerate(wvals):
            key = shared_w[k] if shared_w else k
            if key not in pool:
                pool[key] = self.scalar(f'{name}_w{key}', ANG, v, positive=True)
                pool[key].members[TAG] = f'A{key}'
            ws.append(pool[key])
        time = self.model.array(self.it, ts, 'vertex')
        wav = self.model.array(self.it, ws, 'vertex')
        return self.it.construct(self.sub_cls, [], {'time': time, 'wavelength': wav}, None)

    def frame(self, distance, subs):
        return self.it.construct(self.frame_cls, [], {'distance': distance, 'subframes': list(subs)}, None)

    def chopper(self, name, distance, opens, closes):
        o_items = [self.scalar(f'{name}_open{k}', SEC, v) for k, v in enumerate(opens)]
        c_items = [self.scalar(f'{name}_close{k}', SEC, v) for k, v in enumerate(closes)]
        o = self.model.array(self.it, o_items, 'cutout')
        c = self.model.array(self.it, c_items, 'cutout')
        ch = self.it.construct(self.chop_cls, [], {'distance': distance, 'time_open': o, 'time_close': c}, None)
        # the reference model works from the windows that were supplied, not from what the constructed object holds
        SUPPLIED_WINDOWS[id(ch)] = (o_items, c_items, ch)
        return ch

    def call(self, fi, args, kwargs=None, bound=None):
        """Run one repository function; returns ('return', value) or ('raise', exc_type)."""
        from sa.interp import RaiseSignal, ReturnSignal
        try:
            return 'return', self.it.call_function(fi, list(args), dict(kwargs or {}), bound=bound)
        except ReturnSignal as r:  # pragma: no cover
            return 'return', r.value
        except RaiseSignal as r:
            return 'raise', r.exc_type

    def val(self):
        return self.model.val


def clip_by_window(w, sub, cut, later):
    """polygon ∩ {t >= cut} (later) or ∩ {t <= cut} through the public Frame.chop: a chopper at the frame's own
    distance (a shear by zero) with the single window [cut, far] or [-far, cut], far beyond every vertex.
    Returns (kind, Subframe or None)."""
    d0 = w.scalar('d0', M, 2)
    frame = w.frame(d0, [sub])
    far = w.scalar('far', SEC, 10 ** 6 if later else -10 ** 6)
    o = w.model.array(w.it, [cut if later else far], 'cutout')
    c = w.model.array(w.it, [far if later else cut], 'cutout')
    ch = w.it.construct(w.chop_cls, [], {'distance': d0, 'time_open': o, 'time_close': c}, None)
    kind, res = w.call(w.repo.func(MOD, 'Frame.chop'), [ch], bound=frame)
    if kind != 'return':
        return kind, res
    subs = res.attrs.get('subframes') if isinstance(res, SObj) else None
    if not isinstance(subs, list | tuple) or len(subs) > 1:
        raise AnalysisError(f'Frame.chop with one subframe and one window reports {subs!r}')
    return kind, (subs[0] if subs else None)


def frames_snapshot(seq) -> list:
    """Identity of the frames of a sequence and of the subframes of each (what a caller holding the sequence sees)."""
    if not isinstance(seq, SObj):
        return []
    return [(id(f), tuple(id(s_) for s_ in (f.attrs.get('subframes') or []))) for f in (seq.attrs.get('frames') or []) if isinstance(f, SObj)]


def points(sub) -> list:
    """(time term, wavelength term) of every vertex of a Subframe object."""
    if not isinstance(sub, SObj):
        raise AnalysisError(f'expected a Subframe, got {sub!r}')
    t, w = sub.attrs.get('time'), sub.attrs.get('wavelength')
    ti, wi = items_of(t), items_of(w)
    if ti is None or wi is None or len(ti) != len(wi):
        raise AnalysisError('Subframe vertices are not arrays of equal length')
    out = []
    for a, b in zip(ti, wi, strict=True):
        if not isinstance(a.term, Rat) or not isinstance(b.term, Rat):
            raise AnalysisError(f'vertex value unknown: {a!r} / {b!r}')
        out.append((a.term, b.term))
    return out


def show_poly(pts, val) -> list:
    return [f'({float(t):g}, {float(w):g})' for t, w in clip.numeric(pts, val)]


def alpha() -> Rat:
    return m_n() / h()


def match_polygons(got: list, want: list, val, symbolic: bool):
    """Multiset equality of polygon lists; returns (ok, description of the first difference)."""
    left = list(got)
    for wpoly in want:
        hit = None
        for i, g in enumerate(left):
            if clip.same_polygon_numeric(clip.numeric(g, val), clip.numeric(wpoly, val)) and (not symbolic or clip.same_polygon_symbolic(g, wpoly)):
                hit = i
                break
        if hit is None:
            sym_only = any(clip.same_polygon_numeric(clip.numeric(g, val), clip.numeric(wpoly, val)) for g in left)
            return False, {'missing_polygon': show_poly(wpoly, val), 'reported': [show_poly(g, val) for g in got],
                           'note': 'numerically equal at the witness but not as exact terms' if sym_only else 'not reported'}
        left.pop(hit)
    if left:
        return False, {'extra_polygon': show_poly(left[0], val), 'expected': [show_poly(w, val) for w in want]}
    return True, {}


def match_region(got: list, want: list, val, symbolic: bool):
    """The reported polygons are the reference polygons (as exact terms where asked), or at least cover exactly the same region
    (overlapping windows may be reported as one polygon or as several: transmission is membership in the union)."""
    ok, detail = match_polygons(got, want, val, symbolic)
    if ok:
        return ok, detail
    same, where_ = clip.same_region([clip.numeric(g, val) for g in got], [clip.numeric(w_, val) for w_ in want])
    if same:
        return True, {'note': 'other polygons than the reference model lists, covering the same region'}
    detail = dict(detail)
    detail['region_differs_at'] = where_
    return False, detail


def run(tier: str) -> Run:
    run = Run('C11', tier, 'other',
              'Witness-guided symbolic interpretation of tof/chopper_cascade.py: vertices, windows and distances are '
              'symbols with exact rational witness values; every comparison the code makes is decided at the witness, '
              'the vertices it reports stay exact terms, and they are compared with a reference model written from the '
              'definition (shear t + d*lambda*m_n/h; polygon ∩ {t >= open} ∩ {t <= close}).  Decided: (R1) the shear, '
              'its composition law, Subframe.propagate_by and Frame.propagate_to; (R2) chopping by one window edge equals the half-plane '
              'intersection for every order type of 3- and 4-vertex polygons against the cut (below / on / above per '
              'vertex, both directions), as exact terms for generic order types and numerically on the cut; (R3) '
              'Frame.chop refuses a chopper in front of the frame and otherwise reports exactly the polygons of the '
              'reference model for every subframe x window (none lost, none extra, any order); (R4) '
              'FrameSequence.chop gives the same frames for either listing order and __getitem__ propagates the last '
              'frame not beyond the distance; (R5) the wavelength of an intersection is bit-exactly the endpoint value '
              'when both endpoints carry the same wavelength (exactness tags), which Subframe.is_regular (==) relies on; '
              '(R6) every subframe produced in these scenarios is regular.  Rounding of the interpolation for unequal '
              'endpoints is not decided.')
    repo = Repo()
    run.analysed = {'modules': [MOD], 'digest': repo.digest.hexdigest()}
    run.trusted = ['sa/scipp_model.py', 'sa/witness.py', 'spec/clip.py (reference model)']

    # ---- R1 -----------------------------------------------------------------------------
    r1 = run.rule('R1', 'propagation is the shear t + d*lambda*m_n/h; two steps equal one step', 5)
    fi = repo.func(MOD, 'propagate_times')
    outs = returns(run_kernel(repo, fi, SPECS))
    if len(outs) != 1:
        raise AnalysisError('propagate_times: expected one path')
    got = outs[0].value.term
    t, lam, d = S('time', False), S('wavelength'), S('distance', False)
    want = t + d * lam * m_n() / h()
    r1.check(got is not None and eq_term(got, want) and outs[0].value.unit == Unit.param('time'), 'propagate_times', loc(fi),
             {'computed': show(outs[0].value), 'documented': T.show(want), 'unit': repr(outs[0].value.unit)}, key='propagate_times')
    if got is not None:
        d1, d2 = S('d1', False), S('d2', False)
        ta, da = T.atom('sym', 'time'), T.atom('sym', 'distance')
        one = got.subst({da.id: d1 + d2})
        two = got.subst({da.id: d2, ta.id: got.subst({da.id: d1})})
        r1.check(eq_term(one, two), 'two steps == one step', loc(fi), {'one_step': T.show(one), 'two_steps': T.show(two)}, key='compose')
    vfi = repo.func(MOD, 'wavelength_to_inverse_velocity')
    o = returns(run_kernel(repo, vfi, {'wavelength': SPECS['wavelength']}))
    r1.check(len(o) == 1 and o[0].value.term is not None and eq_term(o[0].value.term, S('wavelength') * m_n() / h())
             and o[0].value.unit == Unit({'s': 1, 'm': -1}), 'wavelength_to_inverse_velocity', loc(vfi),
             {'computed': show(o[0].value) if o else None}, key='inverse-velocity')

    w = World(repo)
    pfi = repo.func(MOD, 'Subframe.propagate_by')
    sub = w.subframe('P', (0, 4, 2), (1, 1, 3))
    delta = w.scalar('delta', M, 3)
    kind, res = w.call(pfi, [delta], bound=sub)
    ok = kind == 'return' and isinstance(res, SObj) and clip.same_polygon_symbolic(points(res), clip.shear(points(sub), delta.term, alpha()))
    r1.check(ok, 'Subframe.propagate_by', loc(pfi), {'outcome': kind, 'vertices': show_poly(points(res), w.val()) if kind == 'return' and isinstance(res, SObj) else None},
             key='propagate_by')
    ffi = repo.func(MOD, 'Frame.propagate_to')
    d0 = w.scalar('d0', M, 2)
    d1_ = w.scalar('d1', CM, 500)
    frame = w.frame(d0, [sub, w.subframe('Q', (1, 2, 3), (2, 4, 3))])
    kind, res = w.call(ffi, [d1_], bound=frame)
    ok = kind == 'return' and isinstance(res, SObj) and isinstance(res.attrs.get('distance'), SVar) and isinstance(res.attrs['distance'].term, Rat) \
        and res.attrs['distance'].term.eq(d1_.term) and len(res.attrs.get('subframes', [])) == 2 \
        and all(clip.same_polygon_symbolic(points(g), clip.shear(points(s_), d1_.term - d0.term, alpha()))
                for g, s_ in zip(res.attrs['subframes'], frame.attrs['subframes'], strict=True))
    r1.check(ok, 'Frame.propagate_to', loc(ffi), {'outcome': kind}, key='propagate_to')

    # ---- R2: _chop against the half-plane intersection, every order type ---------------------------
    r2 = run.rule('R2', 'chopping by one window edge (Frame.chop, chopper at the distance of the frame, far other edge) == polygon ∩ half-plane for every order type of the vertices against the cut', 200)
    cwhere = where_of(repo, MOD, '_chop', 'Frame.chop')
    level = {'below': 1, 'on': 2, 'above': 3}
    bad2 = {}
    n_runs = 0
    for n in (3, 4):
        for pattern in itertools.product(('below', 'on', 'above'), repeat=n):
            for later in (True, False):
                if (('generic' if 'on' not in pattern else 'vertex on the cut') + (' t>=cut' if later else ' t<=cut')) in bad2:
                    n_runs += 1
                    continue  # (one counterexample per instance is reported; a broken clip makes every further pattern slow and adds nothing)
                w = World(repo)
                # distinct times within a level keep the polygon non-degenerate
                tv = [F(level[p]) + (F(k, 10) if p != 'on' else 0) * (1 if p == 'above' else -1) for k, p in enumerate(pattern)]
                wv = [F(k + 1) + F(k * k, 7) for k in range(n)]
                sub = w.subframe('S', tv, wv)
                cut = w.scalar('cut', SEC, 2)
                kind, res = clip_by_window(w, sub, cut, later)
                n_runs += 1
                want_pts = clip.half_plane(points(sub), cut.term, later, w.val())
                generic = 'on' not in pattern
                inst = ('generic' if generic else 'vertex on the cut') + (' t>=cut' if later else ' t<=cut')
                if kind != 'return':
                    bad2.setdefault(inst, {'pattern': pattern, 'problem': f'chop raises {res}'})
                    continue
                if res is None:
                    if clip.dedupe(clip.numeric(want_pts, w.val())):
                        bad2.setdefault(inst, {'pattern': pattern, 'problem': 'None returned', 'expected': show_poly(want_pts, w.val())})
                    continue
                got_pts = points(res)
                okn = clip.same_polygon_numeric(clip.numeric(got_pts, w.val()), clip.numeric(want_pts, w.val()))
                oks = clip.same_polygon_symbolic(got_pts, want_pts) if generic else True
                if not (okn and oks):
                    bad2.setdefault(inst, {'pattern': pattern, 'reported': show_poly(got_pts, w.val()), 'expected': show_poly(want_pts, w.val()),
                                           'note': 'equal at the witness but not as exact terms' if okn else 'different polygon'})
    for inst in ('generic t>=cut', 'generic t<=cut', 'vertex on the cut t>=cut', 'vertex on the cut t<=cut'):
        r2.check(inst not in bad2, inst, cwhere, bad2.get(inst, {}), key=inst)
    for _ in range(n_runs - 4):
        r2.ok('order type')

    # ---- R5: exactness of the interpolation for equal endpoints ----------------------------------------------
    r5 = run.rule('R5', 'an intersection vertex carries bit-exactly the window edge as its time, and bit-exactly the endpoint wavelength when both endpoints carry the same wavelength', 2)
    for later in (True, False):
        w = World(repo, ExactModel)
        # a rectangle: edges 0-1 and 2-3 are lines of constant wavelength crossing the cut
        sub = w.subframe('R', (1, 3, 3, 1), (1, 1, 5, 5), shared_w=(0, 0, 1, 1))
        cut = w.scalar('cut', SEC, 2)
        cut.members[TAG] = 'Acut'
        kind, res = clip_by_window(w, sub, cut, later)
        detail = {'outcome': kind}
        ok = False
        if kind == 'return' and isinstance(res, SObj):
            ws = items_of(res.attrs['wavelength'])
            ts = items_of(res.attrs['time'])
            crossing = [wv for tv_, wv in zip(ts, ws, strict=True) if isinstance(tv_.term, Rat) and tv_.term.eq(cut.term)]
            tags = [wv.members.get(TAG) for wv in crossing]
            # the time of a vertex created on the window edge is the window edge itself, not a value interpolated back to it
            ttags = [tv_.members.get(TAG) for tv_ in ts if isinstance(tv_.term, Rat) and tv_.term.eq(cut.term)]
            ok = len(crossing) == 2 and all(t_ is not None and t_.startswith('A') for t_ in tags) and all(t_ == 'Acut' for t_ in ttags)
            detail = {'intersection_wavelength_tags': tags, 'intersection_time_tags': ttags,
                      'meaning': 'A<k>: bit-exactly endpoint k / the cut; I or none: equal only up to rounding',
                      'consumer': 'Subframe.is_regular compares time/wavelength with =='}
        r5.check(ok, 'exact for equal endpoints' + (' t>=cut' if later else ' t<=cut'), cwhere, detail, key='lerp-exact')

    # ---- R3: Frame.chop ---------------------------------------------------------------------------------------
    r3 = run.rule('R3', 'Frame.chop: refuses a chopper in front of the frame; otherwise exactly the polygons of subframe x window', 4)
    hfi = repo.func(MOD, 'Frame.chop')
    irf = repo.func(MOD, 'Subframe.is_regular')
    r6 = run.rule('R6', 'every subframe produced by chopping is regular (extreme time and wavelength at the same vertex)', 3)
    scenarios = {
        # name: (subframes [(times, wavelengths)], opens, closes) at d0 = 2 m, chopper at 5 m: t' = t + 3*lambda
        'cut by both edges of a window and split over two windows': ([((0, 4, 4, 0), (1, 1, 3, 3))], (4, 9), (7, 12)),
        'one subframe misses the first window, another misses the second': ([((0, 1, 1, 0), (1, 1, 2, 2)), ((20, 21, 21, 20), (1, 1, 2, 2))], (3, 23), (8, 28)),
        'window contains the frame; second window misses it': ([((0, 2, 1), (1, 1, 2))], (0, 50), (40, 60)),
        'vertices exactly on open and close': ([((0, 2, 2, 0), (1, 1, 2, 2))], (3,), (8,)),
        'window opening exactly on the last vertex (touching)': ([((0, 2, 2, 0), (1, 1, 2, 2))], (8,), (12,)),
        'monochromatic subframe, exactly on one wavelength, cut by a window': ([((0, 4, 4, 0), (2, 2, 2, 2))], (7,), (9,)),
        'windows listed in decreasing time order': ([((0, 4, 4, 0), (1, 1, 3, 3))], (9, 4), (12, 7)),
        'one window nested in another (a long opening and a short one inside it)': ([((0, 4, 4, 0), (1, 1, 3, 3))], (4, 6), (12, 8)),
        'overlapping windows': ([((0, 4, 4, 0), (1, 1, 3, 3))], (4, 7), (9, 12)),
        'a window far later listed before the windows that hit': ([((0, 4, 4, 0), (1, 1, 3, 3))], (100, 4, 9), (110, 7, 12)),
    }
    for name, (subs, opens, closes) in scenarios.items():
        w = World(repo)
        d0 = w.scalar('d0', M, 2)
        dc = w.scalar('dc', CM, 500)
        frame = w.frame(d0, [w.subframe(f'S{k}', tv, wv) for k, (tv, wv) in enumerate(subs)])
        ch = w.chopper('C', dc, opens, closes)
        kind, res = w.call(hfi, [ch], bound=frame)
        val = w.val()
        want = []
        for s_ in frame.attrs['subframes']:
            moved = clip.shear(points(s_), dc.term - d0.term, alpha())
            for o_, c_ in zip(opens_of(ch), closes_of(ch), strict=True):
                poly = clip.window(moved, o_.term, c_.term, val)
                if clip.dedupe(clip.numeric(poly, val)):
                    want.append(poly)
        if kind != 'return' or not isinstance(res, SObj):
            r3.fail(name, loc(hfi), {'outcome': kind, 'detail': repr(res)[:200]}, key=name)
            continue
        got = [points(s_) for s_ in res.attrs.get('subframes', [])]
        generic = 'exactly on' not in name  # degenerate configurations are compared numerically at the witness
        ok, detail = match_region(got, want, val, symbolic=generic)
        dist_ok = isinstance(res.attrs.get('distance'), SVar) and isinstance(res.attrs['distance'].term, Rat) and res.attrs['distance'].term.eq(dc.term)
        r3.check(ok and dist_ok and bool(want), name, loc(hfi), {**detail, 'distance_is_the_chopper_distance': dist_ok, 'polygons_expected': len(want)}, key=name)
        regs = []
        for s_ in res.attrs.get('subframes', []):
            k2, reg = w.call(irf, [], bound=s_)
            regs.append(bool(reg.members.get('concrete')) if isinstance(reg, SVar) and 'concrete' in reg.members else (reg if isinstance(reg, bool) else None))
        if generic:
            r6.check(bool(regs) and all(x is True for x in regs), name, loc(irf), {'is_regular': regs}, key='regular:' + name)
    # the source pulse itself (no chopper yet) is a rectangle: two vertices share the earliest time, two the latest, two each extreme
    # wavelength - in whatever order the vertices are listed
    rect = [(0, 1), (4, 1), (4, 3), (0, 3)]
    for k_rot in range(4):
        for mirrored in (False, True):
            order = rect[k_rot:] + rect[:k_rot]
            if mirrored:
                order = list(reversed(order))
            w = World(repo)
            s_ = w.subframe('S', tuple(t_ for t_, _ in order), tuple(l_ for _, l_ in order))
            k2, reg = w.call(irf, [], bound=s_)
            got_reg = bool(reg.members.get('concrete')) if isinstance(reg, SVar) and 'concrete' in reg.members else (reg if isinstance(reg, bool) else None)
            r6.check(k2 == 'return' and got_reg is True, f'source pulse rectangle, vertices listed from corner {k_rot}{" clockwise" if mirrored else ""}', loc(irf),
                     {'is_regular': got_reg, 'outcome': k2, 'vertices': order}, key='regular:rectangle')
    w = World(repo)
    frame = w.frame(w.scalar('d0', M, 5), [w.subframe('S', (0, 2, 1), (1, 1, 2))])
    ch = w.chopper('C', w.scalar('dc', M, 2), (0,), (50,))
    kind, res = w.call(hfi, [ch], bound=frame)
    r3.check(kind == 'raise' and res == 'ValueError', 'chopper in front of the frame is refused', loc(hfi), {'outcome': (kind, res if kind == 'raise' else None)}, key='refuse')

    # ---- R4: FrameSequence --------------------------------------------------------------------------------------
    r4 = run.rule('R4', 'FrameSequence.chop is independent of the listing order; __getitem__ propagates the last frame not beyond the distance', 3)
    sfi = repo.func(MOD, 'FrameSequence.chop')
    gfi = repo.func(MOD, 'FrameSequence.__getitem__')
    pfi2 = repo.func(MOD, 'FrameSequence.from_source_pulse')
    finals = {}
    seqs = {}
    for order in ('near-first', 'far-first'):
        w = World(repo)
        kind, seq = w.call(pfi2, [w.scalar('tmin', SEC, 0), w.scalar('tmax', SEC, 4), w.scalar('wmin', ANG, 1, True), w.scalar('wmax', ANG, 3, True)])
        if kind != 'return' or not isinstance(seq, SObj):
            raise AnalysisError(f'FrameSequence.from_source_pulse: {kind} {seq!r}')
        c1 = w.chopper('C1', w.scalar('dc1', M, 3), (4, 9), (7, 12))
        c2 = w.chopper('C2', w.scalar('dc2', M, 6), (10,), (30,))
        src = points(seq.attrs['frames'][0].attrs['subframes'][0])
        d_src = seq.attrs['frames'][0].attrs['distance'].term
        before = frames_snapshot(seq)
        kind, out = w.call(sfi, [[c1, c2] if order == 'near-first' else [c2, c1]], bound=seq)
        val = w.val()
        r4.check(frames_snapshot(seq) == before, f'chop leaves the sequence it is applied to as it was [{order}]', loc(sfi),
                 {'frames_before': len(before), 'frames_after': len(frames_snapshot(seq))}, key='input-sequence')
        stage1 = []
        moved = clip.shear(src, c1.attrs['distance'].term - d_src, alpha())
        for o_, c_ in zip(opens_of(c1), closes_of(c1), strict=True):
            poly = clip.window(moved, o_.term, c_.term, val)
            if clip.dedupe(clip.numeric(poly, val)):
                stage1.append(poly)
        stage2 = []
        for poly in stage1:
            moved = clip.shear(poly, c2.attrs['distance'].term - c1.attrs['distance'].term, alpha())
            for o_, c_ in zip(opens_of(c2), closes_of(c2), strict=True):
                q = clip.window(moved, o_.term, c_.term, val)
                if clip.dedupe(clip.numeric(q, val)):
                    stage2.append(q)
        if kind != 'return' or not isinstance(out, SObj):
            r4.fail(f'chop [{order}]', loc(sfi), {'outcome': kind, 'detail': repr(out)[:200]}, key='sorted')
            continue
        frames = out.attrs.get('frames', [])
        ok = len(frames) == 3
        detail = {'frames': len(frames)}
        if ok:
            ok1, det1 = match_region([points(s_) for s_ in frames[1].attrs['subframes']], stage1, val, True)
            ok2, det2 = match_region([points(s_) for s_ in frames[2].attrs['subframes']], stage2, val, True)
            ok = ok1 and ok2 and bool(stage2)
            detail = {'after_nearer_chopper': det1, 'after_farther_chopper': det2}
        r4.check(ok, f'chop [{order}]', loc(sfi), detail, key='sorted')
        finals[order] = [clip.numeric(points(s_), val) for s_ in frames[2].attrs['subframes']] if len(frames) == 3 else None
        seqs[order] = (w, out, c1, c2, stage1, stage2)
    if 'near-first' in seqs:
        w, out, c1, c2, stage1, stage2 = seqs['near-first']
        val = w.val()
        for label, dq_val, base_frame, base_polys, base_d in (('between the choppers', 4, 1, stage1, c1.attrs['distance'].term),
                                                              ('beyond the last chopper', 8, 2, stage2, c2.attrs['distance'].term),
                                                              # exactly at a chopper: the neutrons there have passed it (the last frame not beyond)
                                                              ('at the second chopper', 6, 2, stage2, c2.attrs['distance'].term),
                                                              ('at the first chopper', 3, 1, stage1, c1.attrs['distance'].term)):
            dq = w.scalar('dq_' + label.split()[0], M, dq_val)
            kind, fr = w.call(gfi, [dq], bound=out)
            want = [clip.shear(p_, dq.term - base_d, alpha()) for p_ in base_polys]
            ok = kind == 'return' and isinstance(fr, SObj)
            detail = {'outcome': kind}
            if ok:
                ok, detail = match_region([points(s_) for s_ in fr.attrs['subframes']], want, val, True)
                ok = ok and isinstance(fr.attrs['distance'].term, Rat) and fr.attrs['distance'].term.eq(dq.term)
            r4.check(ok, f'__getitem__ {label}', loc(gfi), detail, key='getitem')
    # any sequence of chop calls: chopping in two calls is chopping in one
    if 'near-first' in seqs:
        w, out, c1, c2, stage1, stage2 = seqs['near-first']
        val = w.val()
        src_seq = None
        w2 = World(repo)
        kind, seq2 = w2.call(pfi2, [w2.scalar('tmin', SEC, 0), w2.scalar('tmax', SEC, 4), w2.scalar('wmin', ANG, 1, True), w2.scalar('wmax', ANG, 3, True)])
        c1b = w2.chopper('C1', w2.scalar('dc1', M, 3), (4, 9), (7, 12))
        c2b = w2.chopper('C2', w2.scalar('dc2', M, 6), (10,), (30,))
        k1, step1 = w2.call(sfi, [[c1b]], bound=seq2)
        k2, step2 = w2.call(sfi, [[c2b]], bound=step1) if k1 == 'return' and isinstance(step1, SObj) else ('raise', None)
        ok, detail = False, {'outcomes': (k1, k2)}
        if k2 == 'return' and isinstance(step2, SObj) and step2.attrs.get('frames'):
            val2 = w2.val()
            got_final = [clip.numeric(points(s_), val2) for s_ in step2.attrs['frames'][-1].attrs['subframes']]
            want_final = finals.get('near-first')
            same = want_final is not None and len(got_final) == len(want_final) and all(
                any(clip.same_polygon_numeric(g, h) for h in want_final) for g in got_final)
            ok = same and len(step2.attrs['frames']) == 3
            detail = {'frames': len(step2.attrs['frames']), 'final_polygons_two_calls': len(got_final),
                      'final_polygons_one_call': len(want_final) if want_final is not None else None, 'equal': same}
        r4.check(ok, 'chop([a]).chop([b]) == chop([a, b])', loc(sfi), detail, key='stepwise')
    # two choppers at the same distance: the frame looked up behind them has passed both
    for order in ('leading-edge first', 'trailing-edge first'):
        w = World(repo)
        kind, seq = w.call(pfi2, [w.scalar('tmin', SEC, 0), w.scalar('tmax', SEC, 4), w.scalar('wmin', ANG, 1, True), w.scalar('wmax', ANG, 3, True)])
        ca = w.chopper('CA', w.scalar('dca', M, 3), (6,), (40,))
        cb = w.chopper('CB', w.scalar('dcb', M, 3), (0,), (9,))
        src = points(seq.attrs['frames'][0].attrs['subframes'][0])
        kind, out = w.call(sfi, [[ca, cb] if order.startswith('leading') else [cb, ca]], bound=seq)
        val = w.val()
        moved = clip.shear(src, ca.attrs['distance'].term - seq.attrs['frames'][0].attrs['distance'].term, alpha())
        both = clip.window(clip.window(moved, opens_of(ca)[0].term, closes_of(ca)[0].term, val),
                           opens_of(cb)[0].term, closes_of(cb)[0].term, val)
        dq = w.scalar('dq', M, 7)
        ok, detail = False, {'outcome': kind}
        if kind == 'return' and isinstance(out, SObj):
            kind, fr = w.call(gfi, [dq], bound=out)
            detail = {'outcome': kind}
            if kind == 'return' and isinstance(fr, SObj):
                want_q = [clip.shear(both, dq.term - ca.attrs['distance'].term, alpha())]
                ok, detail = match_region([points(s_) for s_ in fr.attrs['subframes']], want_q, val, False)
        r4.check(ok, f'__getitem__ behind two choppers at one distance [{order}]', loc(gfi), detail, key='getitem-colocated')
    # no history: a sequence that ends at a chopper can be chopped again, twice, by different discs at that same distance (a double-disc
    # chopper); each answer is the sequence's last frame cut by that disc alone, and the sequence itself stays as it was
    w = World(repo)
    kind, seq = w.call(pfi2, [w.scalar('tmin', SEC, 0), w.scalar('tmax', SEC, 4), w.scalar('wmin', ANG, 1, True), w.scalar('wmax', ANG, 3, True)])
    c0 = w.chopper('C0', w.scalar('dc0', M, 3), (2,), (40,))
    k0, base = w.call(sfi, [[c0]], bound=seq)
    ok, detail = False, {'outcome': k0}
    if k0 == 'return' and isinstance(base, SObj) and base.attrs.get('frames'):
        val = w.val()
        last = base.attrs['frames'][-1]
        last_polys = [points(s_) for s_ in last.attrs['subframes']]
        before = frames_snapshot(base)
        da_ = w.chopper('DA', w.scalar('dda', M, 3), (6,), (40,))
        db_ = w.chopper('DB', w.scalar('ddb', M, 3), (0,), (9,))
        ka, ra = w.call(sfi, [[da_]], bound=base)
        kb, rb = w.call(sfi, [[db_]], bound=base)
        detail = {'outcomes': (ka, kb)}
        if ka == 'return' and kb == 'return' and isinstance(rb, SObj) and rb.attrs.get('frames'):
            want_b = [q for q in (clip.window(p_, opens_of(db_)[0].term, closes_of(db_)[0].term, val) for p_ in last_polys)
                      if clip.dedupe(clip.numeric(q, val))]
            okb, detb = match_region([points(s_) for s_ in rb.attrs['frames'][-1].attrs['subframes']], want_b, val, False)
            untouched = frames_snapshot(base) == before
            ok = okb and untouched and bool(want_b)
            detail = {'second_answer_is_the_last_frame_cut_by_the_second_disc_alone': okb, 'difference': detb, 'sequence_unchanged': untouched}
    r4.check(ok, 'chopping a sequence twice by discs at its last distance: no history, sequence unchanged', loc(sfi), detail, key='history')
    return run
