"""C11 — chopper-cascade frames are exactly the set of transmitted neutrons."""

from __future__ import annotations

import ast

from sa import term as T
from sa.cfg import CFG
from sa.interp import SObj, SVar
from sa.kernel import P, make_param, run_kernel
from sa.load import AnalysisError, Repo, loc
from sa.report import Run
from sa.term import Rat
from sa.units import Unit
from spec.formulas import S, h, m_n

from .common import eq_term, events, returns, show

MOD = 'tof.chopper_cascade'
SPECS = {'time': P(dim='T', positive=False), 'wavelength': P(dim='L'), 'distance': P(dim='L', positive=False)}


def norm(node) -> str:
    return ast.unparse(node).replace(' ', '')


def stmts(fn) -> list[str]:
    return [norm(s) for s in ast.walk(fn) if isinstance(s, ast.stmt)
            and not isinstance(s, ast.FunctionDef | ast.If | ast.For | ast.Try | ast.With | ast.While)]


# ---- exactness evaluator for the interpolation expression ---------------------
ZERO, ENDPOINT, OTHER, INEXACT = 'ZERO', 'ENDPOINT', 'OTHER', 'INEXACT'


def exact_eval(e, endpoints: set[str], env: dict):
    """Abstract value of `e` when both interpolation endpoints hold the same float A:
    ENDPOINT (bit-exactly A), ZERO (exactly 0), OTHER (unrelated), INEXACT (A up to rounding)."""
    text = norm(e)
    if text in endpoints:
        return ENDPOINT
    if isinstance(e, ast.Name) and e.id in env:
        return env[e.id]
    if isinstance(e, ast.Constant):
        return ZERO if e.value == 0 else OTHER
    if isinstance(e, ast.BinOp):
        a, b = exact_eval(e.left, endpoints, env), exact_eval(e.right, endpoints, env)
        if isinstance(e.op, ast.Sub):
            if a == ENDPOINT and b == ENDPOINT:
                return ZERO
            if b == ZERO:
                return a
            return INEXACT if ENDPOINT in (a, b) or INEXACT in (a, b) else OTHER
        if isinstance(e.op, ast.Add):
            if a == ZERO:
                return b
            if b == ZERO:
                return a
            return INEXACT if ENDPOINT in (a, b) or INEXACT in (a, b) else OTHER
        if isinstance(e.op, ast.Mult):
            if ZERO in (a, b):
                return ZERO
            return INEXACT if ENDPOINT in (a, b) or INEXACT in (a, b) else OTHER
        if isinstance(e.op, ast.Div):
            if a == ZERO:
                return ZERO
            return INEXACT if ENDPOINT in (a, b) or INEXACT in (a, b) else OTHER
        return INEXACT
    if isinstance(e, ast.UnaryOp):
        return exact_eval(e.operand, endpoints, env)
    return OTHER


def run(tier: str) -> Run:
    run = Run('C11', tier, 'other',
              'Decided: (R1) propagate_times is t + d*lambda*m_n/h (degree 1 in d, so two steps equal '
              'one step as an algebraic identity) and Subframe.propagate_by / Frame.propagate_to apply '
              'it to the stored vertices with the distance difference; (R2) _chop has the '
              'Sutherland-Hodgman shape: per edge i -> (i+1) mod n, vertex i is kept iff inside, an '
              'intersection is emitted iff inside flips, inclusive comparisons t >= open / t <= close; '
              '(R3) Frame.chop clips every subframe with every (open, close) pair by both half-planes, '
              'after propagating to the chopper and refusing smaller distances, with no early exit; '
              '(R4) FrameSequence.chop sorts by distance and __getitem__ propagates the last frame '
              'not beyond the requested distance; (R5) the interpolation of the wavelength at an '
              'intersection is bit-exact when both endpoints carry the same wavelength, because '
              'Subframe.is_regular compares with ==.  "(t, lambda) transmitted iff inside a polygon" '
              'is geometry of runtime values and is not decided.')
    repo = Repo()
    run.analysed = {'modules': [MOD], 'digest': repo.digest.hexdigest()}
    run.trusted = ['sa/scipp_model.py', 'sa/cfg.py']

    # ---- R1 ------------------------------------------------------------------
    r1 = run.rule('R1', 'propagation is the shear t + d*lambda*m_n/h; two steps equal one step', 5)
    fi = repo.func(MOD, 'propagate_times')
    outs = returns(run_kernel(repo, fi, SPECS))
    if len(outs) != 1:
        raise AnalysisError('propagate_times: expected one path')
    got = outs[0].value.term
    t, lam, d = S('time', False), S('wavelength'), S('distance', False)
    want = t + d * lam * m_n() / h()
    r1.check(got is not None and eq_term(got, want) and outs[0].value.unit == Unit.param('time'), 'propagate_times', loc(fi),
             {'computed': show(outs[0].value), 'documented': T.show(want), 'unit': repr(outs[0].value.unit)}, key='propagate_times')
    if got is not None:
        d1, d2 = S('d1', False), S('d2', False)
        ta, da = T.atom('sym', 'time'), T.atom('sym', 'distance')
        one = got.subst({da.id: d1 + d2})
        two = got.subst({da.id: d2, ta.id: got.subst({da.id: d1})})
        r1.check(eq_term(one, two), 'two steps == one step', loc(fi), {'one_step': T.show(one), 'two_steps': T.show(two)}, key='compose')
    vfi = repo.func(MOD, 'wavelength_to_inverse_velocity')
    o = returns(run_kernel(repo, vfi, {'wavelength': SPECS['wavelength']}))
    r1.check(len(o) == 1 and o[0].value.term is not None and eq_term(o[0].value.term, S('wavelength') * m_n() / h())
             and o[0].value.unit == Unit({'s': 1, 'm': -1}), 'wavelength_to_inverse_velocity', loc(vfi),
             {'computed': show(o[0].value) if o else None}, key='inverse-velocity')
    # Subframe.propagate_by and Frame.propagate_to through the object model
    sub_cls, frame_cls = repo.cls(MOD, 'Subframe'), repo.cls(MOD, 'Frame')
    pfi = repo.func(MOD, 'Subframe.propagate_by')

    def sub_bound(it):
        tm = make_param(it, 'time', P(dim='T', positive=False, unit=Unit.named('s')))
        wl = make_param(it, 'wavelength', P(dim='L', unit=Unit.named('angstrom')))
        return SObj(sub_cls, {'time': tm, 'wavelength': wl})
    o = [x for x in run_kernel(repo, pfi, {'distance': SPECS['distance']}, bound=sub_bound) if x.kind == 'return']
    ok = bool(o)
    detail = {}
    for x in o:
        v = x.value
        want2 = S('time', False) + S('distance', False) * S('wavelength') * m_n() / h()
        ok = ok and isinstance(v, SObj) and isinstance(v.attrs.get('time'), SVar) and v.attrs['time'].term is not None \
            and eq_term(v.attrs['time'].term, want2) and eq_term(v.attrs['wavelength'].term, S('wavelength'))
        detail = {'time': show(v.attrs.get('time')) if isinstance(v, SObj) else repr(v)}
    r1.check(ok, 'Subframe.propagate_by', loc(pfi), detail, key='propagate_by')
    ffi = repo.func(MOD, 'Frame.propagate_to')
    texts = stmts(ffi.node)
    r1.check('delta=distance.to(unit=self.distance.unit,copy=False)-self.distance' in texts
             and 'subframes=[subframe.propagate_by(delta)forsubframeinself.subframes]' in texts
             and 'returnFrame(distance=distance,subframes=subframes)' in texts, 'Frame.propagate_to', loc(ffi), {'statements': texts}, key='propagate_to')

    # ---- R2 / R5: _chop ---------------------------------------------------------------
    r2 = run.rule('R2', '_chop has the Sutherland-Hodgman shape with inclusive half-planes', 6)
    cfi = repo.func(MOD, '_chop')
    texts = stmts(cfi.node)
    loops = [n for n in ast.walk(cfi.node) if isinstance(n, ast.For)]
    if len(loops) != 1:
        raise AnalysisError('_chop: the edge-loop idiom (one for loop over the vertices) is not recognised')
    lp = loops[0]
    r2.check('inside=frame.time>=timeifclose_to_openelseframe.time<=time' in texts, 'inclusive half-planes', loc(cfi),
             {'inside': [t_ for t_ in texts if t_.startswith('inside=')]}, key='inside')
    r2.check(norm(lp.iter) == 'range(len(frame.time))' and 'j=(i+1)%len(frame.time)' in texts, 'every edge incl. the closing one', loc(cfi, lp),
             {'iter': norm(lp.iter), 'j': [t_ for t_ in texts if t_.startswith('j=')]}, key='edges')
    ifs = [s for s in lp.body if isinstance(s, ast.If)]
    keep = [s for s in ifs if norm(s.test) == 'inside_i' and [norm(x) for x in s.body] == ['output.append((frame.time[i],frame.wavelength[i]))'] and not s.orelse]
    cross = [s for s in ifs if norm(s.test) in ('inside_i!=inside_j', 'inside_j!=inside_i') and not s.orelse]
    r2.check(len(keep) == 1 and 'inside_i=inside[i]' in texts and 'inside_j=inside[j]' in texts, 'vertex kept iff inside', loc(cfi),
             {'tests': [norm(s.test) for s in ifs]}, key='keep')
    jumps = [n for n in ast.walk(lp) if isinstance(n, ast.Break | ast.Continue | ast.Return)]
    r2.check(len(cross) == 1 and len(ifs) == 2 and not jumps and (not keep or lp.body.index(keep[0]) < lp.body.index(cross[0])) if cross else False,
             'intersection iff inside flips, after the vertex', loc(cfi), {'jumps': [type(j).__name__ for j in jumps]}, key='cross')
    inter_ok = False
    lerp = None
    if cross:
        ctexts = [norm(x) for x in cross[0].body]
        inter_ok = 't=(time-frame.time[i])/(frame.time[j]-frame.time[i])' in ctexts and ctexts[-1] == 'output.append((time,v))'
        for x in cross[0].body:
            if isinstance(x, ast.Assign) and norm(x.targets[0]) == 'v':
                lerp = x.value
    r2.check(inter_ok and lerp is not None, 'intersection at the clip time with parameter (T-t_i)/(t_j-t_i)', loc(cfi),
             {'statements': [norm(x) for x in cross[0].body] if cross else None}, key='intersection')
    r2.check('ifnotoutput:returnNone' in ''.join(norm(s) for s in cfi.node.body if isinstance(s, ast.If)).replace('\n', '') or
             any(isinstance(s, ast.If) and norm(s.test) == 'notoutput' and isinstance(s.body[0], ast.Return) for s in cfi.node.body),
             'empty result is None', loc(cfi), {}, key='empty')

    r5 = run.rule('R5', 'wavelength interpolation is a convex combination that is bit-exact for equal endpoints', 2)
    if lerp is not None:
        # algebra: v == w_i + t*(w_j - w_i)
        from sa.term import Rat as _R
        wi, wj, tt = _R.sym('w_i'), _R.sym('w_j'), _R.sym('t')
        env_terms = {'frame.wavelength[i]': wi, 'frame.wavelength[j]': wj, 't': tt}

        def term_of(e):
            k = norm(e)
            if k in env_terms:
                return env_terms[k]
            if isinstance(e, ast.Constant):
                return _R.const(e.value)
            if isinstance(e, ast.BinOp):
                a, b = term_of(e.left), term_of(e.right)
                return {ast.Add: a + b, ast.Sub: a - b, ast.Mult: a * b}.get(type(e.op)) if not isinstance(e.op, ast.Div) else a / b
            if isinstance(e, ast.UnaryOp) and isinstance(e.op, ast.USub):
                return -term_of(e.operand)
            raise AnalysisError(f'_chop: interpolation expression outside the recognised subset: {k}')
        got = term_of(lerp)
        r5.check(eq_term(got, wi + tt * (wj - wi)), 'convex combination', loc(cfi, lerp), {'expression': ast.unparse(lerp), 'normal_form': T.show(got)}, key='lerp-form')
        val = exact_eval(lerp, {'frame.wavelength[i]', 'frame.wavelength[j]'}, {'t': OTHER})
        guard = any(isinstance(s, ast.If) and 'frame.wavelength[i]==frame.wavelength[j]' in norm(s.test) for s in ast.walk(cross[0]))
        r5.check(val == ENDPOINT or guard, 'exact for equal endpoints', loc(cfi, lerp),
                 {'expression': ast.unparse(lerp), 'value_when_endpoints_coincide': val,
                  'consumer': 'Subframe.is_regular compares time/wavelength with =='}, key='lerp-exact')
    rfi = repo.func(MOD, 'Subframe.is_regular')
    run.extra['is_regular_uses_exact_equality'] = any(isinstance(n, ast.Compare) and isinstance(n.ops[0], ast.Eq) for n in ast.walk(rfi.node))

    # ---- R3 Frame.chop ---------------------------------------------------------------------
    r3 = run.rule('R3', 'Frame.chop: propagate to the chopper, refuse smaller distances, clip every subframe by every window with both half-planes, no early exit', 4)
    hfi = repo.func(MOD, 'Frame.chop')
    hcfg = CFG(hfi.node)
    texts = stmts(hfi.node)
    guards = [(g, lab) for g, lab, exc in hcfg.guards() if exc == 'ValueError' and norm(g.test) in ('distance<self.distance', 'self.distance>distance')]
    prop = [st for st in hcfg.stmt.values() if isinstance(st, ast.Assign) and norm(st) == 'frame=self.propagate_to(distance)']
    r3.check(len(guards) == 1 and len(prop) == 1 and hcfg.guarded_by(prop[0], guards[0][0], guards[0][1])
             and 'distance=chopper.distance.to(unit=self.distance.unit,copy=False)' in texts, 'refuse and propagate', loc(hfi),
             {'guards': [norm(g.test) for g, _ in guards]}, key='refuse')
    fl = [n for n in ast.walk(hfi.node) if isinstance(n, ast.For)]
    its = sorted(norm(n.iter) for n in fl)
    r3.check(its == ['frame.subframes', 'zip(chopper.time_open,chopper.time_close,strict=True)'], 'subframes x windows', loc(hfi), {'loops': its}, key='loops')
    jumps = [type(n).__name__ for f in fl for n in ast.walk(f) if isinstance(n, ast.Break | ast.Continue | ast.Return)]
    r3.check(not jumps, 'no early exit from the loops', loc(hfi), {'jumps': jumps}, key='no-exit')
    inner = [n for n in fl if norm(n.iter).startswith('zip(')]
    ok = False
    if inner:
        body = inner[0].body
        ok = len(body) == 1 and isinstance(body[0], ast.If) \
            and norm(body[0].test) == '(tmp:=_chop(subframe,open,close_to_open=True))isnotNone' \
            and len(body[0].body) == 1 and isinstance(body[0].body[0], ast.If) \
            and norm(body[0].body[0].test) == '(tmp:=_chop(tmp,close,close_to_open=False))isnotNone' \
            and [norm(x) for x in body[0].body[0].body] == ['chopped.subframes.append(tmp)'] \
            and norm(inner[0].target) == '(open,close)'
    r3.check(ok and 'chopped=Frame(distance=frame.distance,subframes=[])' in texts and 'returnchopped' in texts, 'both half-planes, None dropped', loc(hfi),
             {'inner_body': [norm(x)[:100] for x in inner[0].body] if inner else None}, key='clip')

    # ---- R4 FrameSequence ---------------------------------------------------------------------
    r4 = run.rule('R4', 'FrameSequence.chop sorts by distance; __getitem__ propagates the last frame not beyond the distance', 2)
    sfi = repo.func(MOD, 'FrameSequence.chop')
    texts = stmts(sfi.node)
    r4.check('choppers=sorted(choppers,key=lambdax:x.distance)' in texts and 'frames=list(self.frames)' in texts
             and 'frames.append(frames[-1].chop(chopper))' in texts and 'returnFrameSequence(frames)' in texts, 'FrameSequence.chop', loc(sfi), {'statements': texts}, key='sorted')
    gfi = repo.func(MOD, 'FrameSequence.__getitem__')
    loops = [n for n in ast.walk(gfi.node) if isinstance(n, ast.For)]
    ok = False
    if len(loops) == 1:
        lp = loops[0]
        b = lp.body
        ok = norm(lp.iter) in ('self', 'self.frames') and len(b) == 2 and isinstance(b[0], ast.If) and norm(b[0].test) == 'frame.distance>distance' \
            and len(b[0].body) == 1 and isinstance(b[0].body[0], ast.Break) and norm(b[1]) == 'frame_before_detector=frame'
    texts = stmts(gfi.node)
    r4.check(ok and 'returnframe_before_detector.propagate_to(distance)' in texts and "distance=item.to(unit='m')" in texts, 'FrameSequence.__getitem__', loc(gfi),
             {'statements': texts}, key='getitem')
    return run
