"""C19 — plateau finding and in-phase filtering return exactly the defined selections."""

from __future__ import annotations

import ast

from sa import term as T
from sa.effects import Effects
from sa.interp import SVar
from sa.kernel import P, make_param, run_kernel
from sa.load import AnalysisError, Repo, loc
from sa.report import Run
from sa.term import Rat
from sa.units import Unit

from .common import eq_term, events, returns, show


def idx(t: Rat, key: str) -> Rat:
    return Rat.fn('index', t, Rat.sym('key:' + key))


def run(tier: str) -> Run:
    run = Run('C19', tier, 'other',
              'Thin, stated as such: the clauses of the property that are visible in the shape of '
              'chopper/filtering.py.  Decided: the slope is (y[i+1]-y[i])/(x[i+1]-x[i]) computed without '
              'an integer unit conversion for float, integer and datetime coordinates; the exceed mask '
              'is the strict comparison |slope| > atol (atol converted to the slope unit); group ids are '
              'the cumulative count of the mask with one leading 0; the size filter is >= min_n_points; '
              'collapse uses bins.min and the next representable value above bins.max (nextafter '
              'towards +inf for floats, +1 unit for integers and datetimes); the in-phase predicate '
              'is |round(q)-q| < rtol or |round(1/q)-1/q| < rtol with q = x/ref and the filter indexes '
              'by exactly that mask; no argument is written.  Maximality/completeness of the returned '
              'runs are properties of runtime sequences and are not decided.')
    repo = Repo()
    run.analysed = {'modules': ['chopper.filtering'], 'digest': repo.digest.hexdigest()}
    run.trusted = ['sa/scipp_model.py', 'scipp group/bins semantics (not analysed)']
    fi = repo.func('chopper.filtering', '_derive')

    r1 = run.rule('R1', 'slope term and dtype discipline of _derive for float / int / datetime coordinates', 3)
    for xdt in ('float64', 'int64', 'datetime64'):
        def args(it, xdt=xdt):
            x = make_param(it, 'x', P(dim='T', positive=False), dtype=xdt)
            y = make_param(it, 'y', P(dim='FREQ', positive=False))
            da = SVar(y.term, y.unit, y.dtype, origin='da')
            da.kind = 'dataarray'
            da.members['coords'] = {'*': x}
            it.track(da)
            return {'da': da}
        T.reset()
        outs = run_kernel(repo, fi, {}, extra_args=None, bound=None, keep_table=True) if False else None
        from sa.interp import Interp
        from sa.scipp_model import Model
        it = Interp(repo, Model())
        outs = it.run_all(lambda i: i.call_function(fi, [], args(i)))
        ok = len(outs) == 1 and outs[0].kind == 'return' and isinstance(outs[0].value, SVar) and outs[0].value.term is not None
        detail = {'outcomes': [(o.kind, o.exc_type, o.where) for o in outs]}
        if ok:
            v = outs[0].value
            x, y = Rat.sym('x'), Rat.sym('y')
            want = (idx(y, 'slice(1, None, None)') - idx(y, 'slice(None, -1, None)')) / \
                   (idx(x, 'slice(1, None, None)') - idx(x, 'slice(None, -1, None)'))
            bad = [dict(e.detail, where=e.where) for e in events(outs[0], 'int-unit-conversion', 'narrowing-cast')]
            ok = eq_term(v.term, want) and not bad and v.dtype == 'float64'
            detail = {'computed': T.show(v.term), 'expected': T.show(want), 'dtype': v.dtype, 'lossy_conversions': bad}
        r1.check(ok, f'_derive[x={xdt}]', loc(fi), detail, key='derive')

    r2 = run.rule('R2', 'find_plateaus: strict |slope| > atol in slope units; cumulative count with leading 0; size filter >=', 3)
    pfi = repo.func('chopper.filtering', 'find_plateaus')
    src = {ast.unparse(n) for n in ast.walk(pfi.node)}
    cmp_ok = [n for n in ast.walk(pfi.node) if isinstance(n, ast.Compare) and len(n.ops) == 1 and isinstance(n.ops[0], ast.Gt)
              and ast.unparse(n.left) in ('abs(derivative)', 'sc.abs(derivative)')
              and ast.unparse(n.comparators[0]).replace('sc.to_unit(atol, derivative.unit)', 'atol.to(unit=derivative.unit)') == 'atol.to(unit=derivative.unit)']
    flipped = [n for n in ast.walk(pfi.node) if isinstance(n, ast.Compare) and isinstance(n.ops[0], ast.Lt)
               and ast.unparse(n.comparators[0]) in ('abs(derivative)', 'sc.abs(derivative)')]
    r2.check(bool(cmp_ok or flipped), 'exceed mask', loc(pfi),
             {'comparisons': [ast.unparse(n) for n in ast.walk(pfi.node) if isinstance(n, ast.Compare) and 'derivative' in ast.unparse(n)]}, key='mask')
    cum = [n for n in ast.walk(pfi.node) if isinstance(n, ast.Call) and ast.unparse(n.func) in ('sc.cumsum', 'scipp.cumsum')]
    lead = [n for n in ast.walk(pfi.node) if isinstance(n, ast.Call) and ast.unparse(n.func) in ('sc.concat',)
            and n.args and isinstance(n.args[0], ast.List) and len(n.args[0].elts) == 2
            and ast.unparse(n.args[0].elts[0]).startswith('sc.index(0') and ast.unparse(n.args[0].elts[1]) == 'group_id']
    r2.check(bool(cum) and bool(lead), 'group id', loc(pfi), {'cumsum': [ast.unparse(c)[:80] for c in cum], 'leading_zero': [ast.unparse(c)[:80] for c in lead]}, key='group-id')
    size = [n for n in ast.walk(pfi.node) if isinstance(n, ast.Compare) and 'size()' in ast.unparse(n.left) and 'min_n_points' in ast.unparse(n.comparators[0])]
    r2.check(len(size) == 1 and isinstance(size[0].ops[0], ast.GtE), 'size filter', loc(pfi), {'comparison': [ast.unparse(s_) for s_ in size]}, key='size')

    r3 = run.rule('R3', 'collapse: low = bins.min, high = next representable above bins.max; _next_highest arms', 4)
    cfi = repo.func('chopper.filtering', 'collapse_plateaus')
    text = ast.unparse(cfi.node)
    ok = 'low = plateaus.bins.coords[coord].bins.min()' in text and 'high = _next_highest(plateaus.bins.coords[coord].bins.max())' in text \
        and 'sc.concat([low, high], dim=coord)' in text and 'plateaus.bins.mean()' in text
    r3.check(ok, 'collapse_plateaus', loc(cfi), {'statements': [ast.unparse(s_)[:90] for s_ in cfi.node.body if not isinstance(s_, ast.Expr)]}, key='collapse')
    nfi = repo.func('chopper.filtering', '_next_highest')
    na = [n for n in ast.walk(nfi.node) if isinstance(n, ast.Call) and ast.unparse(n.func).endswith('nextafter')]
    ok = len(na) == 1 and len(na[0].args) == 2 and ast.unparse(na[0].args[0]) == 'x.values' and ast.unparse(na[0].args[1]) in ('np.inf', 'numpy.inf', 'math.inf', "float('inf')")
    r3.check(ok, '_next_highest[float]', loc(nfi), {'nextafter_calls': [ast.unparse(c) for c in na]}, key='next-float')
    for xdt in ('int64', 'datetime64'):
        outs = run_kernel(repo, nfi, {'x': P(dim='T', positive=False)}, dtypes={'x': xdt})
        ok = len(outs) == 1 and outs[0].kind == 'return' and isinstance(outs[0].value, SVar) and outs[0].value.term is not None
        detail = {}
        if ok:
            v = outs[0].value
            want = Rat.sym('x') + Rat.sym('U:x', positive=True)
            ok = eq_term(v.term, want) and v.dtype == xdt
            detail = {'computed': T.show(v.term), 'expected': 'x + one unit', 'dtype': v.dtype}
        else:
            detail = {'outcomes': [(o.kind, o.exc_type, o.where) for o in outs]}
        r3.check(ok, f'_next_highest[{xdt}]', loc(nfi), detail, key=f'next-{xdt}')

    r4 = run.rule('R4', 'in-phase predicate and filter', 3)
    afi = repo.func('chopper.filtering', '_is_approximate_multiple')
    specs = {'x': P(dim='FREQ', positive=False), 'ref': P(dim='FREQ', positive=False), 'rtol': P(dim='ONE', unit=Unit())}
    outs = run_kernel(repo, afi, specs)

    def mask(xs, refs, rtol):
        q = xs / refs
        a = T.fn_cmp('<', T.fn_abs(Rat.fn('round', q) - q), rtol)
        b = T.fn_cmp('<', T.fn_abs(Rat.fn('round', 1 / q) - 1 / q), rtol)
        return T.fn_bool('or', a, b)
    ok = len(outs) == 1 and outs[0].kind == 'return' and outs[0].value.term is not None
    detail = {}
    if ok:
        want = mask(Rat.sym('x'), Rat.sym('ref'), Rat.sym('rtol', positive=True))
        ok = eq_term(outs[0].value.term, want)
        detail = {'computed': show(outs[0].value), 'expected': T.show(want)}
    r4.check(ok, '_is_approximate_multiple', loc(afi), detail, key='predicate')
    ffi = repo.func('chopper.filtering', 'filter_in_phase')
    specs = {'frequency': P(dim='FREQ', positive=False), 'reference': P(dim='FREQ', positive=False), 'rtol': P(dim='ONE', unit=Unit())}
    outs = run_kernel(repo, ffi, specs)
    ok = len(outs) == 1 and outs[0].kind == 'return' and isinstance(outs[0].value, SVar)
    detail = {}
    if ok:
        ix = [e for e in outs[0].events if e.kind == 'index-key']
        keys = outs[0].value.members.get('index_key')
        want = mask(Rat.sym('frequency'), Rat.sym('reference'), Rat.sym('rtol', positive=True))
        ok = outs[0].value.view_of is not None and outs[0].value.view_of.origin == 'frequency' and keys is not None and eq_term(keys, want)
        detail = {'index_key': T.show(keys) if keys is not None else None, 'expected': T.show(want)}
    r4.check(ok, 'filter_in_phase', loc(ffi), detail, key='filter')
    ifi = repo.func('chopper.filtering', '_is_in_phase')
    outs = run_kernel(repo, ifi, specs)
    ok = len(outs) == 1 and outs[0].kind == 'return' and outs[0].value.term is not None and \
        eq_term(outs[0].value.term, mask(Rat.sym('frequency'), Rat.sym('reference'), Rat.sym('rtol', positive=True)))
    r4.check(ok, '_is_in_phase', loc(ifi), {'computed': show(outs[0].value) if outs else None}, key='in-phase')

    r5 = run.rule('R5', 'no argument is written by find_plateaus / collapse_plateaus / filter_in_phase', 3)
    eff = Effects(repo)
    eff.solve()
    for name in ('find_plateaus', 'collapse_plateaus', 'filter_in_phase'):
        f = repo.func('chopper.filtering', name)
        s_ = eff.summaries[f.fq]
        if s_.mutates:
            tok, m = sorted(s_.mutates.items())[0]
            r5.fail(name, m.where, {'writes_to': sorted(s_.mutates), 'statement': m.stmt}, key=name)
        else:
            r5.ok(name)
    return run
